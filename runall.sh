#!/bin/sh
# runs every claimed check (quick) on /repo and prints one line each
cd "$(dirname "$0")"
for p in $(python3 -c "import json; print(' '.join(c['property_id'] for c in json.load(open('MANIFEST.json'))['checks']))"); do
  ./check $p "$@" 2>/dev/null | grep -E "^(VIOLATION|UNDECIDED|CHECKER-ERROR|C[0-9]+:)" | cut -c1-260
  echo "   exit=$?"
done
