#!/bin/sh
# runs every claimed check (quick by default) on /repo; prints the verdict lines and the real exit status of each check
cd "$(dirname "$0")"
rc=0
for p in $(python3 -c "import json; print(' '.join(c['property_id'] for c in json.load(open('MANIFEST.json'))['checks']))"); do
  out=$(./check $p "$@" 2>/dev/null); st=$?
  echo "$out" | grep -E "^(VIOLATION|UNDECIDED|DEGRADED-TO-BOUNDED|CHECKER-ERROR|LEDGER|C[0-9]+:)" | cut -c1-260
  echo "   exit=$st"
  [ $st -ne 0 ] && rc=1
  echo "$out" | grep -q "^DEGRADED-TO-BOUNDED" && rc=1
done
echo "runall: $( [ $rc -eq 0 ] && echo 'all checks exit 0, nothing degraded' || echo 'ATTENTION: a check failed or degraded' )"
exit $rc
