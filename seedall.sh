#!/bin/sh
# re-validates every kept seed against /repo HEAD: the patch applies, the suite passes with it, the demo separates the trees, the property's check reports a violation
# usage: ./seedall.sh [jobs]   (default 4 seeds at a time; each in its own scratch worktree, removed afterwards)
HERE="$(cd "$(dirname "$0")" && pwd)"      # also works from a snapshot of /verif (vp run)
cd "$HERE"
one() {
  d=$1; id=$(basename $d); prop=$(echo $id | cut -d- -f1)
  WT=/tmp/wt-seedall-$id-$$
  git -C /repo worktree add -q --detach $WT HEAD || { echo "$id WORKTREE-FAILED"; return; }
  if git -C $WT apply --3way $HERE/$d/patch.diff 2>/dev/null || (cd $WT && patch -p1 --fuzz=3 -s < $HERE/$d/patch.diff >/dev/null 2>&1); then
    suite=$(cd $WT && /venv/bin/python -m pytest -q -p no:cacheprovider --timeout=900 2>&1 | tail -1 | cut -c1-40)
    PDFMINER_ROOT=$WT /venv/bin/python $HERE/$d/demo.py >/dev/null 2>&1; dm=$?
    PDFMINER_ROOT=/repo /venv/bin/python $HERE/$d/demo.py >/dev/null 2>&1; dr=$?
    out=$(PYVC_REPO=$WT ./check $prop 2>&1 | grep -c "^VIOLATION")
    echo "$id applied suite=[$suite] demo(mod)=$dm demo(repo)=$dr violations=$out"
  else
    echo "$id PATCH-DOES-NOT-APPLY"
  fi
  git -C /repo worktree remove --force $WT
}
if [ "$1" = "--one" ]; then one $2; exit 0; fi
ls -d seeded/*/ | xargs -P ${1:-4} -n 1 sh $0 --one | sort
git -C /repo worktree prune
