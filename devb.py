#!/usr/bin/env python3
"""dev helper: devb.py <bounded-name-substr> [tier] [seed] -- run bounded stand-ins directly and print the result"""
import sys, json, time
sys.path.insert(0, '/verif')
from pyvc import contracts as C
C.load_all()
for name, b in C.BOUNDED.items():
    if sys.argv[1] in name:
        t = time.time()
        r = b.fn(sys.argv[2] if len(sys.argv) > 2 else "quick", int(sys.argv[3]) if len(sys.argv) > 3 else 1)
        print(name, {k: v for k, v in r.items() if k != "failures"}, "%.1fs" % (time.time() - t))
        for f in r["failures"][:3]:
            print("  FAIL", json.dumps(f, default=str)[:1500])
