"""Symbolic executor over the real function ASTs (see DESIGN.md section 2).

Path-by-path execution with re-execution from the function entry for every
decision prefix (no state copying).  Loops with a symbolic iteration count are
cut at sidecar invariants; calls to functions under contract are replaced by
the contract; everything that may raise forks an exceptional exit.
"""
from __future__ import annotations

import ast
import builtins
import re as _re
import time
from fractions import Fraction

import z3

from . import logic as L
from .extract import function_of_object, get_function, loops_of, loop_fingerprint, real_module
from .values import (SBytes, SClosure, SIter, SIterator, SList, SMap, SMethod, SObj, SOpaque, SymError, SYields)


class PathEnd(Exception):
    pass


class _Return(Exception):
    def __init__(self, value):
        self.value = value


class _Break(Exception):
    pass


class _Continue(Exception):
    pass


class SExc:
    """An exception value (class + args)."""

    def __init__(self, cls, args=()):
        self.cls = cls
        self.args = tuple(args)


class SymRaise(Exception):
    def __init__(self, exc, where=""):
        self.exc = exc if isinstance(exc, SExc) else SExc(exc)
        self.where = where


class SMatch:
    """Result of RE.search / RE.match on symbolic bytes for a one-byte class."""

    def __init__(self, start, s):
        self.start = start
        self.s = s


class SYieldComp:
    """Ghost value for `for a in R1: for b in R2(a): yield elt(a, b)`."""

    def __init__(self, vars_, elt):
        self.vars = vars_
        self.elt = elt

    def member(self, w):
        conds = [it.contains(v) for v, it in self.vars]
        conds.append(L.eq(self.elt, w))
        body = L.And(*conds)
        if isinstance(body, bool):
            return body
        elts = self.elt if isinstance(self.elt, tuple) else (self.elt,)
        ws = w if isinstance(w, tuple) else (w,)
        vs = [v for v, _ in self.vars]
        if len(elts) == len(ws) and all(any(e is v or (L.is_z3(e) and e.eq(v)) for v in vs) for e in elts) and len(set(map(str, elts))) == len(vs):
            subs = [(e, L.to_z3(x)) for e, x in zip(elts, ws)]
            return z3.substitute(L.And(*[it.contains(v) for v, it in self.vars]), *subs)
        return z3.Exists(vs, body)


class SBoundBuiltin:
    def __init__(self, recv, name):
        self.recv = recv
        self.name = name


LOG_NAMES = {"log", "logger", "logging"}
MUTATORS = {"append", "extend", "insert", "pop", "remove", "clear", "sort", "reverse", "add", "update",
            "discard", "setdefault", "popitem"}


# ---------------------------------------------------------------------------
class Ctx:
    """One path: solver, decision trace, obligations."""

    def __init__(self, decisions=(), timeout_ms=10000, use_cvc5=True):
        self.solver = z3.Solver()
        self.solver.set("timeout", timeout_ms)
        self.timeout_ms = timeout_ms
        self.feas_timeout_ms = 400
        self.known_bytes = set()   # ids of terms already known to lie in 0..255 (saves solver calls in bit operations)
        self.choice_log = []   # outcomes of abstract library decisions (e.g. does int() accept the lexeme)
        self.decisions = list(decisions)
        self.pos = 0
        self.alternatives = []
        self.results = []  # dicts: name,status,model,info,seconds,backend
        self.counter = 0
        self.writes = None
        self.notes = set()
        self.inputs = {}  # name -> (sort, symbolic value)
        self.use_cvc5 = use_cvc5
        self.solver_time = 0.0
        self.nchecks = 0
        self.assumed_facts = []

    # -- fresh symbols ------------------------------------------------------
    def fresh_name(self, base):
        self.counter += 1
        return "%s!%d" % (base, self.counter)

    def fresh_int(self, base="i"):
        return z3.Int(self.fresh_name(base))

    def fresh_real(self, base="r"):
        return z3.Real(self.fresh_name(base))

    def fresh_bool(self, base="b"):
        return z3.Bool(self.fresh_name(base))

    def fresh_like(self, v, base):
        if isinstance(v, z3.ExprRef):
            return z3.Const(self.fresh_name(base), v.sort())
        if isinstance(v, bool):
            return self.fresh_bool(base)
        if isinstance(v, int):
            return self.fresh_int(base)
        if isinstance(v, (float, Fraction)):
            return self.fresh_real(base)
        if isinstance(v, tuple):
            return tuple(self.fresh_like(x, "%s_%d" % (base, i)) for i, x in enumerate(v))
        if isinstance(v, SBytes):
            n = self.fresh_int(base + "_len")
            self.assume(n >= 0)
            return SBytes.from_array(z3.Array(self.fresh_name(base), z3.IntSort(), z3.IntSort()), n, v.elem_range, v.kind)
        raise SymError("cannot havoc value of type %s (%s); give a type in the loop spec" % (type(v).__name__, base))

    # -- solver ---------------------------------------------------------------
    def assume(self, f):
        if isinstance(f, bool):
            if not f:
                raise PathEnd()
            return
        self.solver.add(f)
        self.assumed_facts.append(f)

    def _check(self, *extra):
        t0 = time.time()
        r = self.solver.check(*extra)
        self.solver_time += time.time() - t0
        self.nchecks += 1
        return r

    def feasible(self, c):
        # feasibility is only a pruning heuristic: a short budget, 'unknown' counts as feasible
        self.solver.set("timeout", self.feas_timeout_ms)
        try:
            return self._check(c) != z3.unsat
        finally:
            self.solver.set("timeout", self.timeout_ms)

    def choose(self, values, name="choice"):
        """Non-deterministic choice among concrete values (forks)."""
        values = list(values)
        for i, v in enumerate(values[:-1]):
            if self.pos < len(self.decisions):
                d = self.decisions[self.pos]
                self.pos += 1
            else:
                self.alternatives.append(self.decisions + [False])
                d = True
                self.decisions.append(d)
                self.pos += 1
            if d:
                return v
        return values[-1]

    def branch(self, cond):
        c = L.truth(cond)
        if isinstance(c, bool):
            return c
        c = z3.simplify(c)
        if z3.is_true(c):
            return True
        if z3.is_false(c):
            return False
        if self.pos < len(self.decisions):
            d = self.decisions[self.pos]
            self.pos += 1
            self.assume(c if d else z3.Not(c))
            return d
        t = self.feasible(c)
        f = self.feasible(z3.Not(c))
        if t and f:
            self.alternatives.append(self.decisions + [False])
            d = True
        elif t:
            d = True
        elif f:
            d = False
        else:
            raise PathEnd()
        self.decisions.append(d)
        self.pos += 1
        self.assume(c if d else z3.Not(c))
        return d

    def oblige(self, name, goal, info="", keep=True):
        t0 = time.time()
        g = goal
        if not isinstance(g, (bool, z3.ExprRef)):
            g = L.truth(g)
        if g is True:
            self.results.append(dict(name=name, status="unsat", backend="trivial", seconds=0.0, info=info))
            return
        if g is False:
            g = z3.BoolVal(False)
        self.solver.push()
        self.solver.add(z3.Not(g))
        r = self._check()
        backend = "z3"
        model = None
        status = str(r)
        if r == z3.sat:
            model = self.decode_model(self.solver.model())
        elif r == z3.unknown:
            # second attempt: fresh solver, other seed, three times the budget
            s2 = z3.Solver()
            s2.set("timeout", self.timeout_ms * 3)
            s2.set("random_seed", 7)
            s2.add(self.solver.assertions())
            t1 = time.time()
            r2 = s2.check()
            self.solver_time += time.time() - t1
            if r2 == z3.unsat:
                status, backend = "unsat", "z3(retry)"
            elif r2 == z3.sat:
                status, backend = "sat", "z3(retry)"
                self.solver_retry_model = s2.model()
                model = self.decode_model(s2.model())
        if status == "unknown" and self.use_cvc5:
            from .backends import cvc5_check

            r2 = cvc5_check(self.solver.to_smt2(), max(5, self.timeout_ms // 1000))
            if r2 in ("unsat", "sat"):
                status = r2
                backend = "cvc5"
        self.solver.pop()
        self.results.append(dict(name=name, status=status, backend=backend, model=model, info=info,
                                 seconds=round(time.time() - t0, 4), decisions=list(self.decisions[: self.pos])))
        if keep:
            self.assume(g)

    def decode_model(self, m):
        def ev(t):
            if not isinstance(t, z3.ExprRef):
                return t
            v = m.eval(t, model_completion=True)
            if z3.is_int_value(v):
                return v.as_long()
            if z3.is_rational_value(v):
                return Fraction(v.numerator_as_long(), v.denominator_as_long())
            if z3.is_algebraic_value(v):
                a = v.approx(20)
                return Fraction(a.numerator_as_long(), a.denominator_as_long())
            if z3.is_true(v):
                return True
            if z3.is_false(v):
                return False
            if z3.is_string_value(v):
                return v.as_string()
            return str(v)

        out = {}
        for name, (sort, val) in self.inputs.items():
            try:
                out[name] = sort.from_model(ev, val)
            except Exception as e:  # model decoding must never kill a verdict
                out[name] = "<undecodable: %s>" % e
        return out


# ---------------------------------------------------------------------------
class SSuper:
    def __init__(self, recv, owner):
        self.recv, self.owner = recv, owner

    def __sym_getattr__(self, I, name, node):
        import inspect
        cls = self.recv.cls if isinstance(self.recv, SObj) else type(self.recv)
        mro = list(cls.__mro__)
        if self.owner not in mro:
            raise SymError("super(): %s is not in the MRO of %s" % (self.owner.__name__, cls.__name__))
        for k in mro[mro.index(self.owner) + 1:]:
            if name in k.__dict__:
                raw = k.__dict__[name]
                if inspect.isfunction(raw):
                    if k is object:
                        break
                    return self.I_method(raw, name)
                raise SymError("super().%s is not a plain method" % name)
        if name == "__init__":
            return lambda *a, **k: None
        raise SymError("super().%s not found" % name)

    def I_method(self, raw, name):
        from .summaries import SMethod
        return SMethod(self.recv, raw, name)


class LoopSpec:
    def __init__(self, inv=None, decreases=None, types=None, modifies=(), kind=None, ghost=None):
        self.inv = inv
        self.decreases = decreases
        self.types = types or {}
        self.modifies = tuple(modifies)
        self.kind = kind
        self.ghost = ghost


class NS:
    """Attribute namespace handed to invariant lambdas."""

    def __init__(self, d):
        self.__dict__.update(d)

    def __getattr__(self, k):
        raise SymError("invariant refers to unbound variable %r" % k)


class Frame:
    def __init__(self, fi, env, mod, outer=None, loopspecs=None):
        self.fi = fi
        self.env = env
        self.mod = mod
        self.outer = outer
        self.loopspecs = loopspecs or {}
        self.yields = []
        self.loops = loops_of(fi.node) if fi is not None else []
        self.entry = {}


class Interp:
    def __init__(self, ctx, registry=None, inline_depth=12):
        self.ctx = ctx
        self.registry = registry  # key -> Contract
        self.depth = 0
        self.inline_depth = inline_depth
        self.current_contract = None
        self.inlined = set()
        self.contract_calls = set()
        self.trace = []  # (contract short name, bound args) of calls to contracts marked `traced`
        from . import summaries

        self.summ = summaries

    # -- entry point --------------------------------------------------------------
    def call_function(self, fi, args, kwargs=None, loopspecs=None, closure_env=None):
        """Symbolically execute function `fi` (FuncInfo) on evaluated args."""
        kwargs = dict(kwargs or {})
        node = fi.node
        mod = real_module(fi.modname)
        env = {}
        a = node.args
        params = [p.arg for p in a.posonlyargs + a.args]
        defaults = a.defaults
        ndef = len(defaults)
        args = list(args)
        if len(args) > len(params) and not a.vararg:
            raise SymRaise(TypeError, "too many positional args for %s" % fi.qualname)
        for i, p in enumerate(params):
            if i < len(args):
                env[p] = args[i]
            elif p in kwargs:
                env[p] = kwargs.pop(p)
            else:
                di = i - (len(params) - ndef)
                if di >= 0:
                    env[p] = self.eval_const_default(defaults[di], mod)
                else:
                    raise SymRaise(TypeError, "missing argument %s for %s" % (p, fi.qualname))
        if a.vararg:
            env[a.vararg.arg] = tuple(args[len(params):])
        for p, d in zip(a.kwonlyargs, a.kw_defaults):
            if p.arg in kwargs:
                env[p.arg] = kwargs.pop(p.arg)
            elif d is not None:
                env[p.arg] = self.eval_const_default(d, mod)
        if a.kwarg and not kwargs:
            env[a.kwarg.arg] = {}
        if kwargs:
            if a.kwarg:
                env[a.kwarg.arg] = kwargs
            else:
                raise SymRaise(TypeError, "unexpected kwargs %s" % list(kwargs))
        fr = Frame(fi, env, mod, outer=closure_env, loopspecs=loopspecs)
        from .contracts import snap
        memo = {}
        fr.entry = {k: snap(v, memo) for k, v in env.items()}
        self.depth += 1
        if self.depth > self.inline_depth:
            raise SymError("inline depth exceeded at %s (recursion needs a contract)" % fi.qualname)
        try:
            try:
                self.exec_block(node.body, fr)
                ret = None
            except _Return as r:
                ret = r.value
        finally:
            self.depth -= 1
        if fi.is_generator:
            return fr.yields
        return ret

    def eval_const_default(self, node, mod):
        fr = Frame(None, {}, mod)
        return self.eval(node, fr)

    # -- statements ---------------------------------------------------------------
    def exec_block(self, stmts, fr):
        for s in stmts:
            self.exec_stmt(s, fr)

    def exec_stmt(self, s, fr):
        m = getattr(self, "st_" + type(s).__name__, None)
        if m is None:
            raise SymError("statement %s not in subset (line %d)" % (type(s).__name__, s.lineno))
        return m(s, fr)

    def st_Pass(self, s, fr):
        pass

    def st_Expr(self, s, fr):
        v = s.value
        if isinstance(v, ast.Constant):
            return  # docstring
        if isinstance(v, ast.Call) and self.is_log_call(v):
            self.ctx.notes.add("A-LOG: logging calls dropped")
            return
        self.eval(v, fr)

    def is_log_call(self, call):
        f = call.func
        if isinstance(f, ast.Attribute) and isinstance(f.value, ast.Name) and f.value.id in LOG_NAMES:
            return True
        if isinstance(f, ast.Attribute) and isinstance(f.value, ast.Attribute) and f.value.attr in LOG_NAMES:
            return True
        return False

    def st_Assign(self, s, fr):
        v = self.eval(s.value, fr)
        for t in s.targets:
            self.assign(t, v, fr)

    def st_AnnAssign(self, s, fr):
        if s.value is not None:
            self.assign(s.target, self.eval(s.value, fr), fr)

    def st_AugAssign(self, s, fr):
        t = s.target
        if isinstance(t, ast.Name):
            cur = self.lookup(t.id, fr, t)
            new = self.binop(s.op, cur, self.eval(s.value, fr), s, inplace=True)
            if new is not None:
                self.assign(t, new, fr)
        elif isinstance(t, ast.Attribute):
            obj = self.eval(t.value, fr)
            cur = self.getattr(obj, t.attr, t)
            new = self.binop(s.op, cur, self.eval(s.value, fr), s, inplace=True)
            if new is not None:
                self.setattr(obj, t.attr, new, t)
        elif isinstance(t, ast.Subscript):
            obj = self.eval(t.value, fr)
            idx = self.eval_index(t.slice, fr)
            cur = self.subscript(obj, idx, t)
            new = self.binop(s.op, cur, self.eval(s.value, fr), s)
            self.store_subscript(obj, idx, new, t)
        else:
            raise SymError("augassign target")

    def st_Return(self, s, fr):
        raise _Return(self.eval(s.value, fr) if s.value is not None else None)

    def st_Break(self, s, fr):
        raise _Break()

    def st_Continue(self, s, fr):
        raise _Continue()

    def st_If(self, s, fr):
        c = self.eval_cond(s.test, fr)
        if self.ctx.branch(c):
            self.exec_block(s.body, fr)
        else:
            self.exec_block(s.orelse, fr)

    def st_Assert(self, s, fr):
        c = self.eval_cond(s.test, fr)
        if not self.ctx.branch(c):
            raise SymRaise(AssertionError, "assert " + _txt(s.test))

    def st_Raise(self, s, fr):
        if s.exc is None:
            cur = getattr(fr, "handling", None)
            if cur is None:
                raise SymError("bare raise outside handler")
            raise SymRaise(cur, "re-raise")
        v = self.eval(s.exc, fr)
        if isinstance(v, SExc):
            raise SymRaise(v, _txt(s.exc))
        if isinstance(v, type) and issubclass(v, BaseException):
            raise SymRaise(SExc(v), _txt(s.exc))
        raise SymError("raise of non-exception %r" % (v,))

    def st_Try(self, s, fr):
        try:
            try:
                self.exec_block(s.body, fr)
            except SymRaise as e:
                for h in s.handlers:
                    if self.handler_matches(h, e.exc, fr):
                        if h.name:
                            fr.env[h.name] = e.exc
                        prev = getattr(fr, "handling", None)
                        fr.handling = e.exc
                        try:
                            self.exec_block(h.body, fr)
                        finally:
                            fr.handling = prev
                        break
                else:
                    raise
            else:
                self.exec_block(s.orelse, fr)
        finally:
            if s.finalbody:
                # note: runs also when PathEnd/SymError propagate; harmless
                import sys as _sys

                et = _sys.exc_info()[0]
                if et is None or et in (SymRaise, _Return, _Break, _Continue):
                    self.exec_block(s.finalbody, fr)

    def handler_matches(self, h, exc, fr):
        if h.type is None:
            return True
        t = self.eval(h.type, fr)
        ts = t if isinstance(t, tuple) else (t,)
        for c in ts:
            if not isinstance(c, type):
                raise SymError("except clause with non-class")
            if issubclass(exc.cls, c):
                return True
        return False

    def st_FunctionDef(self, s, fr):
        fr.env[s.name] = SClosure(s, fr, fr.mod)

    def st_Global(self, s, fr):
        raise SymError("global statement")

    def st_Nonlocal(self, s, fr):
        fr.nonlocals = getattr(fr, "nonlocals", set()) | set(s.names)

    def st_Delete(self, s, fr):
        for t in s.targets:
            if isinstance(t, ast.Name):
                fr.env.pop(t.id, None)
            elif isinstance(t, ast.Subscript):
                obj = self.eval(t.value, fr)
                idx = self.eval_index(t.slice, fr)
                if isinstance(obj, (list, dict)) and not L.any_z3(idx):
                    self.note_write(obj)
                    try:
                        del obj[idx]
                    except (KeyError, IndexError) as e:
                        raise SymRaise(type(e), _txt(t))
                else:
                    raise SymError("del on symbolic container")
            else:
                raise SymError("del target")

    def st_With(self, s, fr):
        # `with e as x:` for modelled context managers (objects carrying __enter__/__exit__, e.g. the abstract file of open()):
        # x = e.__enter__(); body; e.__exit__() on every way out.  An __exit__ that swallows exceptions is not modelled.
        mgrs = []
        for item in s.items:
            m = self.eval(item.context_expr, fr)
            if not isinstance(m, SObj):
                raise SymError("with statement over an unmodelled context manager")
            if "__enter__" in m.f and "__exit__" in m.f:
                v = m.f["__enter__"].__sym_call__(self, [], {}, item.context_expr)
            elif m.cls is not None and hasattr(m.cls, "__enter__") and hasattr(m.cls, "__exit__") and getattr(m.cls, "__module__", "").startswith("pdfminer"):
                # a context manager class of the repository: its own __enter__/__exit__ are executed
                v = self.call(self.getattr(m, "__enter__", item.context_expr), [], {}, item.context_expr, fr)
            else:
                raise SymError("with statement over an unmodelled context manager")
            if item.optional_vars is not None:
                self.assign(item.optional_vars, v, fr)
            mgrs.append((m, item.context_expr))
        try:
            self.exec_block(s.body, fr)
        finally:
            import sys as _sys
            et = _sys.exc_info()[0]
            if et is None or et in (SymRaise, _Return, _Break, _Continue):
                for m, nd in reversed(mgrs):
                    if "__exit__" in m.f:
                        m.f["__exit__"].__sym_call__(self, [None, None, None], {}, nd)
                    else:
                        self.call(self.getattr(m, "__exit__", nd), [None, None, None], {}, nd, fr)

    # -- loops ----------------------------------------------------------------------
    def loop_spec(self, node, fr):
        try:
            ordinal = fr.loops.index(node)
        except ValueError:
            return None
        spec = fr.loopspecs.get(ordinal)
        if spec is None:
            return None
        if spec.kind is not None and spec.kind != loop_fingerprint(node):
            raise SymError("anchor drift: loop %d of %s is %r, contract expects %r" % (
                ordinal, fr.fi.qualname, loop_fingerprint(node), spec.kind))
        return spec

    def st_While(self, s, fr):
        spec = self.loop_spec(s, fr)
        if spec is None:
            # unroll while conditions stay decidable per path (bounded by fuel)
            fuel = 64
            while True:
                c = self.eval_cond(s.test, fr)
                if not self.ctx.branch(c):
                    self.exec_block(s.orelse, fr)
                    return
                fuel -= 1
                if fuel < 0:
                    raise SymError("while loop at line %d needs an invariant (unrolled 64 times)" % s.lineno)
                try:
                    self.exec_block(s.body, fr)
                except _Break:
                    return
                except _Continue:
                    continue
        self.cut_loop(s, fr, spec, None)

    def st_For(self, s, fr):
        itv = self.eval(s.iter, fr)
        it = self.make_iter(itv, s.iter)
        if isinstance(it.length, int):
            for k in range(it.length):
                self.assign(s.target, it.item(k), fr)
                try:
                    self.exec_block(s.body, fr)
                except _Break:
                    return
                except _Continue:
                    continue
            self.exec_block(s.orelse, fr)
            return
        spec = self.loop_spec(s, fr)
        if spec is None:
            comp = self.try_yield_nest(s, fr, it)
            if comp is not None:
                f = fr
                while f.fi is None or not f.fi.is_generator:
                    f = f.outer
                f.yields.append(comp)
                self.exec_block(s.orelse, fr)
                return
            raise SymError("for loop at line %d of %s has a symbolic trip count and no invariant" % (
                s.lineno, fr.fi.qualname))
        self.cut_loop(s, fr, spec, it)

    def try_yield_nest(self, s, fr, it):
        """A loop nest whose only effect is `yield <tuple of loop variables>` is a
        comprehension: summarised exactly (no invariant needed)."""
        vars_ = []
        node = s
        inner = Frame(fr.fi, {}, fr.mod, outer=fr, loopspecs=fr.loopspecs)
        inner.loops = fr.loops
        cur_it = it
        while True:
            if not isinstance(node.target, ast.Name) or node.orelse:
                return None
            v = self.ctx.fresh_int(node.target.id)
            if cur_it.contains is None:
                return None
            vars_.append((v, cur_it))
            inner.env[node.target.id] = v
            if len(node.body) != 1:
                return None
            b = node.body[0]
            if isinstance(b, ast.For):
                cur_it = self.make_iter(self.eval(b.iter, inner), b.iter)
                node = b
                continue
            if isinstance(b, ast.Expr) and isinstance(b.value, ast.Yield) and b.value.value is not None:
                elt = self.eval(b.value.value, inner)
                return SYieldComp(vars_, elt)
            return None

    def inv_ns(self, fr, k=None, old=None):
        d = dict(getattr(self, "ghosts", {}))
        d.update(fr.env)
        for kk, vv in fr.env.items():
            if kk.startswith("__k"):
                d["k" + kk[3:]] = vv
        d["old"] = NS(fr.entry)
        if k is not None:
            d["k"] = k
        d["yields"] = fr.yields
        return NS(d)

    def call_spec(self, fn, fr, k):
        import inspect

        ns = self.inv_ns(fr, k)
        params = list(inspect.signature(fn).parameters)
        args = []
        for p in params:
            if p == "v":
                args.append(ns)
            elif p == "k":
                args.append(k)
            elif p == "ctx":
                args.append(self.ctx)
            else:
                args.append(getattr(ns, p))
        return fn(*args)

    def cut_loop(self, s, fr, spec, it):
        ctx = self.ctx
        ordinal = fr.loops.index(s)
        tag = "loop%d" % ordinal
        # 0. what the loop may modify (python lists that grow are promoted to symbolic lists here)
        targets, heap = self.modified_by(s, fr, spec)
        # 1. invariant on entry
        if spec.inv is not None:
            ctx.oblige("inv-entry:%s" % tag, self.call_spec(spec.inv, fr, 0 if it is not None else None))
        # 2. havoc
        for name in sorted(targets):
            if name in spec.types:
                fr.env[name] = spec.types[name].fresh(ctx, name)
            elif name in fr.env:
                cur = fr.env[name]
                if isinstance(cur, (SList, list, SObj, dict, SMap)):
                    continue  # heap objects handled below (by identity)
                if cur is None:
                    raise SymError("loop %s: variable %r is None at entry; give its type in the loop spec" % (tag, name))
                fr.env[name] = ctx.fresh_like(cur, name)
            # unbound names stay unbound
        for kind, obj, fld in heap:
            if kind == "attr":
                cur = obj.f.get(fld)
                key = "%s.%s" % (obj.name, fld)
                if key in spec.types:
                    obj.f[fld] = spec.types[key].fresh(ctx, key)
                elif isinstance(cur, (SList, list, SObj, dict)):
                    pass
                elif cur is None:
                    raise SymError("loop %s: field %s is None at entry; give its type" % (tag, key))
                else:
                    obj.f[fld] = ctx.fresh_like(cur, key)
            elif kind == "slist":
                obj.arr = z3.Array(ctx.fresh_name("hv"), z3.IntSort(), obj.arr.sort().range())
                obj.n = ctx.fresh_int("hv_len")
                ctx.assume(obj.n >= 0)
            elif kind == "smap":
                obj.dom = z3.Array(ctx.fresh_name("mdom"), z3.IntSort(), z3.BoolSort())
                obj.val = z3.Array(ctx.fresh_name("mval"), z3.IntSort(), obj.val.sort().range())
            elif kind == "yields":
                obj.arr = z3.Array(ctx.fresh_name("ys"), z3.IntSort(), z3.IntSort())
                obj.n = ctx.fresh_int("ys_len")
                ctx.assume(obj.n >= 0)
                obj.mem = z3.Array(ctx.fresh_name("ymem"), z3.IntSort(), z3.BoolSort())
            else:
                raise SymError("loop %s: cannot havoc %s" % (tag, kind))
        havocked_heap = set((k, id(o), f) for k, o, f in heap)
        k = None
        if it is not None:
            k = ctx.fresh_int("k")
            ctx.assume(k >= 0)
            ctx.assume(k <= it.length)
            fr.env["__k%d" % ordinal] = k      # visible to invariants of nested loops as k<ordinal>
        if spec.inv is not None:
            ctx.assume(self.call_spec(spec.inv, fr, k))
        # 3. continue or exit
        if it is not None:
            cont = ctx.branch(k < it.length)
        else:
            cont = ctx.branch(self.eval_cond(s.test, fr))
        if not cont:
            self.exec_block(s.orelse, fr)
            return
        dec0 = self.call_spec(spec.decreases, fr, k) if spec.decreases else None
        if dec0 is not None:
            ctx.oblige("decreases-bounded:%s" % tag, L.le(0, dec0))
        if it is not None:
            self.assign(s.target, it.item(k), fr)
        saved = ctx.writes
        ctx.writes = []
        try:
            try:
                self.exec_block(s.body, fr)
            except _Continue:
                pass
        except _Break:
            self.check_writes(ctx.writes, havocked_heap, tag)
            ctx.writes = saved
            return
        self.check_writes(ctx.writes, havocked_heap, tag)
        if saved is not None:
            saved.extend(ctx.writes)
        ctx.writes = saved
        if spec.inv is not None:
            k1 = (k + 1) if k is not None else None
            ctx.oblige("inv-preserved:%s" % tag, self.call_spec(spec.inv, fr, k1))
        if dec0 is not None:
            dec1 = self.call_spec(spec.decreases, fr, (k + 1) if k is not None else None)
            ctx.oblige("decreases:%s" % tag, L.lt(dec1, dec0))
        raise PathEnd()

    def check_writes(self, writes, havocked, tag):
        for w in writes:
            if w not in havocked:
                raise SymError("loop %s writes a heap location that was not havocked: %r" % (tag, (w[0], w[2])))

    def note_write(self, obj, fld=None):
        if self.ctx.writes is not None:
            if isinstance(obj, SObj):
                self.ctx.writes.append(("attr", id(obj), fld))
            elif isinstance(obj, SMap):
                self.ctx.writes.append(("smap", id(obj), None))
            elif isinstance(obj, SYields):
                self.ctx.writes.append(("yields", id(obj), None))
            elif isinstance(obj, SList):
                self.ctx.writes.append(("slist", id(obj), None))
            else:
                self.ctx.writes.append(("pylist", id(obj), None))

    def modified_by(self, loop, fr, spec):
        names = set()
        heap = []

        def heap_target(expr):
            try:
                return self.eval(expr, fr)
            except (SymError, SymRaise):
                return None

        for n in _walk_stmts(loop.body + loop.orelse):
            if isinstance(n, ast.Name) and isinstance(n.ctx, (ast.Store, ast.Del)):
                names.add(n.id)
            elif isinstance(n, ast.Attribute) and isinstance(n.ctx, ast.Store):
                o = heap_target(n.value)
                if isinstance(o, SObj):
                    heap.append(("attr", o, n.attr))
            elif isinstance(n, ast.AugAssign) and isinstance(n.target, ast.Attribute):
                o = heap_target(n.target.value)
                if isinstance(o, SObj):
                    heap.append(("attr", o, n.target.attr))
            elif isinstance(n, ast.Call) and isinstance(n.func, ast.Attribute) and n.func.attr in MUTATORS:
                if isinstance(n.func.value, (ast.Name, ast.Attribute)):
                    o = heap_target(n.func.value)
                    if isinstance(o, SList):
                        heap.append(("slist", o, None))
                    elif isinstance(o, list):
                        # promote the python list to an SList so it can grow symbolically
                        sl = self.promote_list(o, n.func.value, fr, spec)
                        heap.append(("slist", sl, None))
            elif isinstance(n, ast.Subscript) and isinstance(n.ctx, ast.Store):
                o = heap_target(n.value)
                if isinstance(o, SMap):
                    heap.append(("smap", o, None))
                elif isinstance(o, SList):
                    heap.append(("slist", o, None))
                elif isinstance(o, list):
                    sl = self.promote_list(o, n.value, fr, spec)
                    heap.append(("slist", sl, None))
            elif isinstance(n, ast.AugAssign) and isinstance(n.target, ast.Name):
                pass
        if any(isinstance(n, (ast.Yield, ast.YieldFrom)) for n in _walk_stmts(loop.body)):
            f = fr
            while f is not None and (f.fi is None or not f.fi.is_generator):
                f = f.outer
            if f is None:
                raise SymError("yield outside generator")
            if not isinstance(f.yields, SYields):
                ys = f.yields
                arr = z3.K(z3.IntSort(), z3.IntVal(0))
                mem = z3.K(z3.IntSort(), z3.BoolVal(False))
                for i, x in enumerate(ys):
                    if not isinstance(x, (int, z3.ExprRef)):
                        raise SymError("yield ghost: only integer-valued yields can be tracked in a cut loop")
                    arr = z3.Store(arr, i, L.to_z3(x))
                    mem = z3.Store(mem, L.to_z3(x), z3.BoolVal(True))
                f.yields = SYields(arr, len(ys), mem)
            heap.append(("yields", f.yields, None))
        for path in spec.modifies:
            e = ast.parse(path, mode="eval").body
            if isinstance(e, ast.Attribute):
                o = self.eval(e.value, fr)
                if isinstance(o, SObj):
                    cur = o.f.get(e.attr)
                    if isinstance(cur, SList):
                        heap.append(("slist", cur, None))
                    else:
                        heap.append(("attr", o, e.attr))
            elif isinstance(e, ast.Name):
                o = fr.env.get(e.id)
                if isinstance(o, SList):
                    heap.append(("slist", o, None))
                else:
                    names.add(e.id)
        # de-duplicate
        seen = set()
        out = []
        for kd, o, f in heap:
            key = (kd, id(o), f)
            if key not in seen:
                seen.add(key)
                out.append((kd, o, f))
        return names, out

    def promote_list(self, lst, expr, fr, spec):
        """Replace a concrete-length python list bound to `expr` by an SList."""
        name = _txt(expr)
        if name in spec.types:
            sl = spec.types[name].fresh(self.ctx, name)
            # content equals the current list
            self.ctx.assume(sl.n == len(lst))
            for i, x in enumerate(lst):
                self.ctx.assume(sl.at(i) == L.to_z3(L.num(x)))
        else:
            sort = z3.IntSort()
            if any((z3.is_real(x) if isinstance(x, z3.ExprRef) else isinstance(x, (float, Fraction))) for x in lst):
                sort = z3.RealSort()
            arr = z3.Array(self.ctx.fresh_name(name), z3.IntSort(), sort)
            for i, x in enumerate(lst):
                if not isinstance(x, (int, float, Fraction, z3.ExprRef)) or isinstance(x, bool):
                    raise SymError("cannot promote list %s with non-numeric elements" % name)
                arr = z3.Store(arr, i, L.to_z3(L.num(x)))
            sl = SList(arr, len(lst), None)
        if isinstance(expr, ast.Name):
            fr.env[expr.id] = sl
        elif isinstance(expr, ast.Attribute):
            o = self.eval(expr.value, fr)
            o.f[expr.attr] = sl
        return sl

    # -- assignment -------------------------------------------------------------------
    def assign(self, t, v, fr):
        if isinstance(t, ast.Name):
            if t.id in getattr(fr, "nonlocals", ()):
                f = fr.outer
                while f is not None:
                    if t.id in f.env:
                        f.env[t.id] = v
                        return
                    f = f.outer
            fr.env[t.id] = v
        elif isinstance(t, (ast.Tuple, ast.List)):
            items = self.unpack(v, len(t.elts), t)
            for e, x in zip(t.elts, items):
                self.assign(e, x, fr)
        elif isinstance(t, ast.Attribute):
            self.setattr(self.eval(t.value, fr), t.attr, v, t)
        elif isinstance(t, ast.Subscript):
            obj = self.eval(t.value, fr)
            idx = self.eval_index(t.slice, fr)
            self.store_subscript(obj, idx, v, t)
        else:
            raise SymError("assignment target %s" % type(t).__name__)

    def unpack(self, v, n, node):
        if isinstance(v, (tuple, list)):
            items = list(v)
        elif isinstance(v, (SBytes, SList)) and isinstance(v.n, int):
            items = [self.elem(v, k) for k in range(v.n)]
        elif isinstance(v, SIter) and isinstance(v.length, int):
            items = [v.item(k) for k in range(v.length)]
        elif isinstance(v, (bytes, str)):
            items = list(v)
        elif isinstance(v, (SBytes, SList)):
            if not self.ctx.branch(v.n == n):
                raise SymRaise(ValueError, "unpack " + _txt(node))
            items = [self.elem(v, k) for k in range(n)]
        else:
            hook = getattr(v, "__sym_unpack__", None)
            if hook:
                return hook(self, n, node)
            raise SymRaise(TypeError, "cannot unpack %s" % type(v).__name__)
        if len(items) != n:
            raise SymRaise(ValueError, "unpack " + _txt(node))
        return items

    def setattr(self, obj, name, v, node):
        if isinstance(obj, SObj):
            self.note_write(obj, name)
            obj.f[name] = v
        else:
            raise SymError("attribute store on %s" % type(obj).__name__)

    def store_subscript(self, obj, idx, v, node):
        if isinstance(obj, SList):
            if isinstance(idx, slice):
                raise SymError("slice store on symbolic list")
            self.note_write(obj)
            i = self.norm_index(obj.n, idx, node)
            obj.arr = z3.Store(obj.arr, L.to_z3(i), L.to_z3(L.num(v)))
        elif isinstance(obj, list):
            self.note_write(obj)
            if isinstance(idx, slice):
                if L.any_z3(idx.start, idx.stop, idx.step):
                    raise SymError("symbolic slice store")
                obj[idx] = list(v)
            elif L.is_z3(idx):
                n = len(obj)
                i = self.norm_index(n, idx, node)
                for j in range(n):
                    obj[j] = L.If(i == j, v, obj[j])
            else:
                try:
                    obj[idx] = v
                except IndexError:
                    raise SymRaise(IndexError, _txt(node))
        elif isinstance(obj, dict):
            self.note_write(obj)
            if L.is_z3(idx):
                raise SymError("symbolic dict key store")
            obj[idx] = v
        else:
            hook = getattr(obj, "__sym_setitem__", None)
            if hook:
                return hook(self, idx, v, node)
            raise SymError("subscript store on %s" % type(obj).__name__)

    # -- expressions --------------------------------------------------------------------
    def eval_cond(self, e, fr):
        return L.truth(self.eval(e, fr))

    def eval(self, e, fr):
        m = getattr(self, "ex_" + type(e).__name__, None)
        if m is None:
            raise SymError("expression %s not in subset (line %d)" % (type(e).__name__, getattr(e, "lineno", 0)))
        return m(e, fr)

    def ex_Constant(self, e, fr):
        v = e.value
        if isinstance(v, float):
            return Fraction(repr(v))
        return v

    def lookup(self, name, fr, node=None):
        f = fr
        while f is not None:
            if name in f.env:
                return f.env[name]
            f = f.outer
        g = fr.mod.__dict__ if fr.mod is not None else {}
        if name in g:
            return g[name]
        if hasattr(builtins, name):
            return getattr(builtins, name)
        raise SymError("unbound name %r in %s" % (name, fr.fi.qualname if fr.fi else "?"))

    def ex_Name(self, e, fr):
        return self.lookup(e.id, fr, e)

    def ex_Tuple(self, e, fr):
        out = []
        for x in e.elts:
            if isinstance(x, ast.Starred):
                out.extend(self.iter_concrete(self.eval(x.value, fr), x))
            else:
                out.append(self.eval(x, fr))
        return tuple(out)

    def ex_List(self, e, fr):
        return list(self.ex_Tuple(e, fr))

    def ex_Set(self, e, fr):
        return set(self.ex_Tuple(e, fr))

    def ex_Dict(self, e, fr):
        d = {}
        for k, v in zip(e.keys, e.values):
            if k is None:
                m = self.eval(v, fr)
                if not isinstance(m, dict):
                    raise SymError("dict display unpacks a value that is not a concrete-key dict (%s)" % type(m).__name__)
                d.update(m)
            else:
                kk = self.eval(k, fr)
                if L.is_z3(kk):
                    raise SymError("symbolic dict key")
                d[kk] = self.eval(v, fr)
        return d

    def ex_IfExp(self, e, fr):
        c = self.eval_cond(e.test, fr)
        if isinstance(c, bool):
            return self.eval(e.body if c else e.orelse, fr)
        # merge when both arms are pure scalars; otherwise fork
        if _pure(e.body) and _pure(e.orelse):
            # evaluate each arm under its guard only if it cannot raise: fork to stay exact
            pass
        if self.ctx.branch(c):
            return self.eval(e.body, fr)
        return self.eval(e.orelse, fr)

    def ex_BoolOp(self, e, fr):
        is_and = isinstance(e.op, ast.And)
        v = None
        for i, x in enumerate(e.values):
            v = self.eval(x, fr)
            if i == len(e.values) - 1:
                return v
            t = L.truth(v)
            d = self.ctx.branch(t)
            if is_and and not d:
                return v if not (L.is_z3(v) and z3.is_bool(v)) else False
            if not is_and and d:
                return v if not (L.is_z3(v) and z3.is_bool(v)) else True
        return v

    def ex_UnaryOp(self, e, fr):
        v = self.eval(e.operand, fr)
        if isinstance(e.op, ast.Not):
            return L.Not(L.truth(v))
        if isinstance(e.op, ast.USub):
            return -self.numeric(v)
        if isinstance(e.op, ast.UAdd):
            return self.numeric(v)
        if isinstance(e.op, ast.Invert):
            return -self.numeric(v) - 1
        raise SymError("unary op")

    def numeric(self, v):
        if isinstance(v, bool):
            return int(v)
        if isinstance(v, z3.ExprRef) and z3.is_bool(v):
            return z3.If(v, 1, 0)
        if isinstance(v, float):
            if v in (float("inf"), float("-inf")):
                return v          # infinities stay Python floats: logic.lt/le/eq/Min/Max know how to compare them with terms
            return Fraction(repr(v))
        return v

    def ex_BinOp(self, e, fr):
        a = self.eval(e.left, fr)
        b = self.eval(e.right, fr)
        return self.binop(e.op, a, b, e)

    def binop(self, op, a, b, node, inplace=False):
        return self.summ.binop(self, op, a, b, node, inplace)

    def ex_Compare(self, e, fr):
        left = self.eval(e.left, fr)
        res = True
        for op, r in zip(e.ops, e.comparators):
            right = self.eval(r, fr)
            c = self.summ.compare(self, op, left, right, e)
            res = L.And(res, c)
            if res is False:
                return False
            if len(e.ops) > 1 and L.is_z3(res):
                # short-circuit semantics only matter for side effects; comparators are pure here
                pass
            left = right
        return res

    def ex_Attribute(self, e, fr):
        obj = self.eval(e.value, fr)
        return self.getattr(obj, e.attr, e)

    def getattr(self, obj, name, node=None):
        return self.summ.getattr_(self, obj, name, node)

    def ex_Subscript(self, e, fr):
        obj = self.eval(e.value, fr)
        idx = self.eval_index(e.slice, fr)
        return self.subscript(obj, idx, e)

    def eval_index(self, sl, fr):
        if isinstance(sl, ast.Slice):
            return slice(self.eval(sl.lower, fr) if sl.lower else None,
                         self.eval(sl.upper, fr) if sl.upper else None,
                         self.eval(sl.step, fr) if sl.step else None)
        return self.eval(sl, fr)

    def subscript(self, obj, idx, node):
        return self.summ.subscript(self, obj, idx, node)

    def norm_index(self, n, i, node):
        """Python index normalisation with IndexError fork; returns 0 <= idx < n."""
        if not L.any_z3(n, i):
            if i < 0:
                i += n
            if not (0 <= i < n):
                raise SymRaise(IndexError, _txt(node))
            return i
        i = L.to_z3(self.numeric(i))
        nn = L.to_z3(n)
        idx = z3.simplify(z3.If(i < 0, i + nn, i))
        ok = z3.And(idx >= 0, idx < nn)
        if not self.ctx.branch(ok):
            raise SymRaise(IndexError, _txt(node))
        return idx

    def elem(self, seq, k):
        v = seq.at(k)
        er = getattr(seq, "elem_range", None)
        if er:
            self.ctx.assume(z3.And(v >= er[0], v < er[1]))
            if er[0] >= 0 and er[1] <= 256 and isinstance(v, z3.ExprRef):
                self.ctx.known_bytes.add(v.get_id())
        return v

    def ex_Lambda(self, e, fr):
        return SClosure(e, fr, fr.mod)

    def ex_JoinedStr(self, e, fr):
        return self.summ.joined_str(self, e, fr)

    def ex_ListComp(self, e, fr):
        return self.comprehension(e, fr, list)

    def ex_GeneratorExp(self, e, fr):
        return self.comprehension(e, fr, list)

    def ex_SetComp(self, e, fr):
        return set(self.comprehension(e, fr, list))

    def ex_DictComp(self, e, fr):
        out = {}
        self._comp(e.generators, 0, Frame(fr.fi, {}, fr.mod, outer=fr, loopspecs=fr.loopspecs),
                   lambda f: out.__setitem__(self._ck(self.eval(e.key, f)), self.eval(e.value, f)))
        return out

    def _ck(self, k):
        if L.is_z3(k):
            raise SymError("symbolic dict key in comprehension")
        return k

    def comprehension(self, e, fr, ctor):
        out = []
        inner = Frame(fr.fi, {}, fr.mod, outer=fr, loopspecs=fr.loopspecs)
        self._comp(e.generators, 0, inner, lambda f: out.append(self.eval(e.elt, f)))
        return out

    def _comp(self, gens, i, fr, emit):
        if i == len(gens):
            emit(fr)
            return
        g = gens[i]
        it = self.make_iter(self.eval(g.iter, fr), g.iter)
        if not isinstance(it.length, int):
            # small-domain case split: if the length is provably <= 256, fork on each value
            self.ctx.solver.push()
            self.ctx.solver.add(z3.Or(it.length < 0, it.length > 256))
            r = self.ctx._check()
            self.ctx.solver.pop()
            if r != z3.unsat:
                raise SymError("comprehension over symbolic-length iterable: %s" % _txt(g.iter))
            for v in range(0, 257):
                if self.ctx.branch(it.length == v):
                    it = SIter(v, it.item, it.desc)
                    break
            else:
                raise PathEnd()
        for k in range(it.length):
            self.assign(g.target, it.item(k), fr)
            ok = True
            for c in g.ifs:
                if not self.ctx.branch(self.eval_cond(c, fr)):
                    ok = False
                    break
            if ok:
                self._comp(gens, i + 1, fr, emit)

    def ex_Yield(self, e, fr):
        v = self.eval(e.value, fr) if e.value is not None else None
        f = fr
        while f.fi is None or not f.fi.is_generator:
            f = f.outer
            if f is None:
                raise SymError("yield outside generator")
        if isinstance(f.yields, SYields):
            self.note_write(f.yields)
            vv = L.to_z3(L.num(v))
            f.yields.arr = z3.Store(f.yields.arr, L.to_z3(f.yields.n), vv)
            f.yields.n = f.yields.n + 1
            f.yields.mem = z3.Store(f.yields.mem, vv, z3.BoolVal(True))
        else:
            f.yields.append(v)
        return None

    def ex_YieldFrom(self, e, fr):
        v = self.eval(e.value, fr)
        for x in self.iter_concrete(v, e):
            fr.yields.append(x)
        return None

    def ex_Starred(self, e, fr):
        raise SymError("starred expression")

    def ex_NamedExpr(self, e, fr):
        v = self.eval(e.value, fr)
        self.assign(e.target, v, fr)
        return v

    def ex_Call(self, e, fr):
        if self.is_log_call(e):
            self.ctx.notes.add("A-LOG: logging calls dropped")
            return None
        # cast(T, x) -> x
        if isinstance(e.func, ast.Name) and e.func.id == "cast" and len(e.args) == 2:
            return self.eval(e.args[1], fr)
        if isinstance(e.func, ast.Name) and e.func.id == "super" and not e.args and not e.keywords and "super" not in fr.env:
            return self.make_super(fr)
        f = self.eval(e.func, fr)
        args = []
        for a in e.args:
            if isinstance(a, ast.Starred):
                args.extend(self.iter_concrete(self.eval(a.value, fr), a))
            else:
                args.append(self.eval(a, fr))
        kwargs = {}
        for kw in e.keywords:
            if kw.arg is None:
                kwargs.update(self.eval(kw.value, fr))
            else:
                kwargs[kw.arg] = self.eval(kw.value, fr)
        return self.call(f, args, kwargs, e, fr)

    def call(self, f, args, kwargs, node, fr=None):
        return self.summ.call(self, f, args, kwargs, node, fr)

    def make_super(self, fr):
        """zero-argument super(): the method resolution order of the receiver's class after the class defining the running method"""
        f = fr
        while f is not None and (f.fi is None or "." not in f.fi.qualname):
            f = f.outer
        if f is None:
            raise SymError("super() outside a method")
        from .extract import real_module
        owner = real_module(f.fi.modname)
        for p_ in f.fi.qualname.split(".")[:-1]:
            owner = getattr(owner, p_)
        params = [a.arg for a in f.fi.node.args.args]
        recv = f.env[params[0]]
        return SSuper(recv, owner)

    # -- iteration ------------------------------------------------------------------------
    def make_iter(self, v, node=None):
        return self.summ.make_iter(self, v, node)

    def iter_concrete(self, v, node=None):
        it = self.make_iter(v, node)
        if not isinstance(it.length, int):
            raise SymError("need concrete-length iterable: %s" % (_txt(node) if node is not None else v))
        return [it.item(k) for k in range(it.length)]


def _pure(e):
    return isinstance(e, (ast.Constant, ast.Name))


def _txt(node, limit=60):
    try:
        s = ast.unparse(node)
    except Exception:
        s = type(node).__name__
    s = " ".join(s.split())
    return s[:limit]


def _walk_stmts(stmts):
    stack = list(stmts)
    while stack:
        n = stack.pop()
        yield n
        for c in ast.iter_child_nodes(n):
            if isinstance(c, (ast.FunctionDef, ast.Lambda, ast.ClassDef)):
                continue
            stack.append(c)
