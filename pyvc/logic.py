"""Polymorphic logic helpers: every function works both on z3 terms (symbolic
execution / proof) and on concrete Python values (CPython cross-check and
replay of counterexamples), so one contract lambda serves both uses.

Concrete numbers are ints, Fractions or floats; concrete byte strings are
bytes / lists of ints; symbolic ones are `SBytes` (see values.py).
"""
from __future__ import annotations

from fractions import Fraction
import z3


def is_z3(x):
    return isinstance(x, z3.ExprRef)


def any_z3(*xs):
    for x in xs:
        if isinstance(x, z3.ExprRef):
            return True
        if isinstance(x, (tuple, list)):
            if any_z3(*x):
                return True
    return False


def to_z3(x):
    """Lift a concrete Python scalar to a z3 term (identity on terms)."""
    if isinstance(x, z3.ExprRef):
        return x
    if isinstance(x, bool):
        return z3.BoolVal(x)
    if isinstance(x, int):
        return z3.IntVal(x)
    if isinstance(x, Fraction):
        return z3.RealVal(x)
    if isinstance(x, float):
        return z3.RealVal(Fraction(repr(x)) if x == x and abs(x) != float("inf") else 0)
    raise TypeError("cannot lift %r to z3" % (x,))


_PINF, _NINF = float("inf"), float("-inf")


def is_inf(x):
    return isinstance(x, float) and (x == _PINF or x == _NINF)


def num(x):
    """Concrete floats become exact Fractions of their decimal literal (A-REAL); infinities stay floats."""
    if isinstance(x, float):
        if is_inf(x):
            return x
        return Fraction(repr(x))
    return x


def _b(x):
    if isinstance(x, z3.ExprRef):
        return x
    return bool(x)


def _lazy(xs, stop):
    """evaluate zero-argument callables left to right, stopping at a concrete `stop` value"""
    out = []
    for x in _flat(xs):
        if callable(x) and not isinstance(x, z3.ExprRef):
            x = x()
        x = _b(x) if not isinstance(x, (list, tuple)) else x
        out.append(x)
        if x is stop:
            break
    return out


def And(*xs):
    xs = [_b(x) for x in _flat(_lazy(xs, False))]
    if any(x is False for x in xs):
        return False
    sym = [x for x in xs if x is not True]
    if not sym:
        return True
    if len(sym) == 1:
        return sym[0]
    return z3.And(*sym)


def Or(*xs):
    xs = [_b(x) for x in _flat(_lazy(xs, True))]
    if any(x is True for x in xs):
        return True
    sym = [x for x in xs if x is not False]
    if not sym:
        return False
    if len(sym) == 1:
        return sym[0]
    return z3.Or(*sym)


def _flat(xs):
    out = []
    for x in xs:
        if isinstance(x, (list, tuple)):
            out.extend(_flat(x))
        else:
            out.append(x)
    return out


def Not(x):
    x = _b(x)
    if isinstance(x, bool):
        return not x
    return z3.Not(x)


def Implies(a, b):
    a = _b(a)
    if callable(b) and not isinstance(b, z3.ExprRef):
        # lazy consequent: not evaluated when the antecedent is concretely false
        if a is False:
            return True
        b = b()
    b = _b(b)
    if a is False or b is True:
        return True
    if a is True:
        return b
    if b is False:
        return Not(a)
    return z3.Implies(a, b)


def Iff(a, b):
    a = _b(a)
    b = _b(b)
    if isinstance(a, bool) and isinstance(b, bool):
        return a == b
    if a is True:
        return b
    if b is True:
        return a
    if a is False:
        return Not(b)
    if b is False:
        return Not(a)
    return a == b


def If(c, a, b):
    c = _b(c)
    if c is True:
        return a
    if c is False:
        return b
    if isinstance(a, tuple) and isinstance(b, tuple) and len(a) == len(b):
        return tuple(If(c, x, y) for x, y in zip(a, b))
    a2, b2 = _unify(a, b)
    return z3.If(c, a2, b2)


def _unify(a, b):
    a = to_z3(num(a))
    b = to_z3(num(b))
    if a.sort() != b.sort():
        if z3.is_int(a) and z3.is_real(b):
            a = z3.ToReal(a)
        elif z3.is_real(a) and z3.is_int(b):
            b = z3.ToReal(b)
    return a, b


def eq(a, b):
    """Structural equality (tuples/lists componentwise)."""
    if is_inf(a) or is_inf(b):
        # a symbolic number is finite: it equals no infinity
        return (a == b) if (is_inf(a) and is_inf(b)) else (False if (is_z3(a) or is_z3(b)) else a == b)
    if isinstance(a, (tuple, list)) or isinstance(b, (tuple, list)):
        if not (isinstance(a, (tuple, list)) and isinstance(b, (tuple, list))):
            return False
        if len(a) != len(b):
            return False
        return And(*[eq(x, y) for x, y in zip(a, b)])
    if a is None or b is None:
        if a is None and b is None:
            return True
        if is_z3(a) or is_z3(b):
            return False
        return False
    if is_z3(a) or is_z3(b):
        if isinstance(a, (str, bytes)) or isinstance(b, (str, bytes)):
            if not (is_z3(a) and is_z3(b)):
                x = a if is_z3(a) else b
                y = b if is_z3(a) else a
                if z3.is_string(x) and isinstance(y, str):
                    return x == z3.StringVal(y)
                return False
        a2, b2 = _unify(a, b)
        return a2 == b2
    a, b = num(a), num(b)
    return a == b


def ne(a, b):
    return Not(eq(a, b))


def Min(*xs):
    xs = _flat(xs)
    r = xs[0]
    for x in xs[1:]:
        r = If(lt(x, r), x, r)
    return r


def Max(*xs):
    xs = _flat(xs)
    r = xs[0]
    for x in xs[1:]:
        r = If(lt(r, x), x, r)
    return r


def lt(a, b):
    if (is_inf(a) or is_inf(b)) and any_z3(a, b):
        return (a == _NINF) if is_inf(a) else (b == _PINF)
    if any_z3(a, b):
        a, b = _unify(a, b)
        return a < b
    return num(a) < num(b)


def le(a, b):
    if (is_inf(a) or is_inf(b)) and any_z3(a, b):
        return (a == _NINF) if is_inf(a) else (b == _PINF)
    if any_z3(a, b):
        a, b = _unify(a, b)
        return a <= b
    return num(a) <= num(b)


def Abs(x):
    return If(lt(x, 0), neg(x), x)


def neg(x):
    return -x if not isinstance(x, float) else -num(x)


def floordiv(a, b):
    """Python floor division for ints (b != 0)."""
    if not any_z3(a, b):
        return a // b
    a, b = to_z3(a), to_z3(b)
    if z3.is_int_value(b):
        bv = b.as_long()
        if bv > 0:
            return a / b  # z3 Int '/' is Euclidean div == floor for positive divisor
        return (-a) / z3.IntVal(-bv)
    return z3.If(b > 0, a / b, (-a) / (-b))


def mod(a, b):
    """Python % for ints (sign of divisor)."""
    if not any_z3(a, b):
        return a % b
    a, b = to_z3(a), to_z3(b)
    if z3.is_int_value(b) and b.as_long() > 0:
        return a % b
    return a - b * floordiv(a, b)


def trunc(x):
    """int(x) on a real: truncation toward zero."""
    if not is_z3(x):
        return int(x)
    if z3.is_int(x):
        return x
    return z3.If(x >= 0, z3.ToInt(x), -z3.ToInt(-x))


def floor(x):
    if not is_z3(x):
        import math

        return math.floor(x)
    if z3.is_int(x):
        return x
    return z3.ToInt(x)


def ForAllInt(lo, hi, f, name="q", pat=None):
    """forall j in [lo, hi): f(j).  Concrete bounds -> evaluated as a conjunction.
    `pat(j)` optionally gives the instantiation trigger (a term containing j)."""
    if not any_z3(lo, hi):
        rs = [f(j) for j in range(lo, hi)]
        return And(*rs)
    j = z3.Int(_fresh(name))
    body = f(j)
    if body is True:
        return True
    imp = z3.Implies(z3.And(to_z3(lo) <= j, j < to_z3(hi)), to_z3(body))
    if pat is not None:
        try:
            pt = pat(j)
            if "If(" in str(pt):
                raise z3.Z3Exception("ite in pattern")
            return z3.ForAll([j], imp, patterns=[pt])
        except z3.Z3Exception:
            pass
    return z3.ForAll([j], imp)


def ExistsInt(lo, hi, f, name="e"):
    if not any_z3(lo, hi):
        return Or(*[f(j) for j in range(lo, hi)])
    j = z3.Int(_fresh(name))
    return z3.Exists([j], z3.And(to_z3(lo) <= j, j < to_z3(hi), to_z3(f(j))))


_ctr = [0]
_gctr = [0]


def global_fresh(prefix):
    """a name never reused inside this process (for z3 function definitions, which are context-global)"""
    _gctr[0] += 1
    return "%s!g%d" % (prefix, _gctr[0])


def _fresh(prefix):
    _ctr[0] += 1
    return "%s!%d" % (prefix, _ctr[0])


def reset_fresh():
    _ctr[0] = 0


def truth(x):
    """Python truthiness of a value as a (possibly symbolic) bool."""
    if isinstance(x, z3.ExprRef):
        if z3.is_bool(x):
            return x
        if z3.is_int(x) or z3.is_real(x):
            return x != 0
        if z3.is_string(x):
            return z3.Length(x) != 0
        raise TypeError("truth of %r" % x)
    if hasattr(x, "__sym_truth__"):
        return x.__sym_truth__()
    return bool(x)
