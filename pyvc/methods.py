"""Method summaries on builtin / symbolic receiver values."""
from __future__ import annotations

import re

import z3

from . import logic as L
from .summaries import SymError, as_sbytes, equal, sbytes_concat, sbytes_slice, is_num
from .values import SBytes, SIter, SIterator, SList, SObj, SOpaque


def _sx():
    from . import symexec

    return symexec


def concrete(*xs):
    """true iff every value is a plain Python value (no symbolic term, heap object or engine closure inside)"""
    import re as _re
    for x in xs:
        if x is None or isinstance(x, (bool, int, float, str, bytes, bytearray, complex, range, _re.Pattern, _re.Match, type)):
            continue
        if x.__class__.__name__ == "Fraction":
            continue
        if isinstance(x, (list, tuple, set, frozenset)):
            if not concrete(*x):
                return False
            continue
        if isinstance(x, dict):
            if not concrete(*x.keys()) or not concrete(*x.values()):
                return False
            continue
        if type(x).__module__ == "pdfminer.psparser" and type(x).__name__ in ("PSLiteral", "PSKeyword"):
            continue
        return False
    return True


def call_method(I, recv, name, args, kwargs, node):
    sx = _sx()
    if isinstance(recv, list):
        return list_method(I, recv, name, args, kwargs, node)
    if isinstance(recv, SList):
        return slist_method(I, recv, name, args, kwargs, node)
    if isinstance(recv, SBytes):
        return sbytes_method(I, recv, name, args, kwargs, node)
    from .values import SMap
    if isinstance(recv, SMap):
        if name == "copy":
            return SMap(recv.dom, recv.val)
        if name == "get":
            k = I.numeric(args[0]) if not isinstance(args[0], (str, bytes)) and args[0] is not None else None
            default = args[1] if len(args) > 1 else None
            if k is None:
                return default
            if I.ctx.branch(recv.has(k)):
                return recv.get(k)
            return default
        raise SymError("method %s on symbolic map" % name)
    if isinstance(recv, dict):
        return dict_method(I, recv, name, args, kwargs, node)
    if isinstance(recv, set):
        return set_method(I, recv, name, args, kwargs, node)
    if isinstance(recv, sx.SMatch):
        return match_method(I, recv, name, args, kwargs, node)
    if isinstance(recv, re.Pattern):
        return pattern_method(I, recv, name, args, kwargs, node)
    if isinstance(recv, (bytes, str, tuple, int)) or recv.__class__.__name__ == "Fraction":
        if concrete(args, kwargs):
            try:
                return getattr(recv, name)(*args, **kwargs)
            except Exception as e:  # native semantics, native exception
                raise sx.SymRaise(type(e), sx._txt(node))
        if isinstance(recv, bytes) and name == "join":
            from .summaries import sbytes_concat, as_sbytes
            parts = I.iter_concrete(args[0], node)
            out = SBytes.from_concrete(b"")
            for i, p in enumerate(parts):
                if i and recv:
                    out = sbytes_concat(out, SBytes.from_concrete(recv))
                out = sbytes_concat(out, as_sbytes(p))
            return out
        if isinstance(recv, bytes):
            return sbytes_method(I, SBytes.from_concrete(recv), name, args, kwargs, node)
        if isinstance(recv, str) and name == "join":
            return str_join(I, recv, args, node)
        if isinstance(recv, tuple) and name in ("index", "count"):
            return list_method(I, list(recv), name, args, kwargs, node)
    if isinstance(recv, z3.ExprRef) and z3.is_string(recv):
        return zstr_method(I, recv, name, args, kwargs, node)
    raise SymError("method %s on %s" % (name, type(recv).__name__))


def str_join(I, sep, args, node):
    items = I.iter_concrete(args[0], node)
    if concrete(items):
        return sep.join(items)
    if all(isinstance(x, str) or (L.is_z3(x) and z3.is_string(x)) for x in items):
        out = None
        for i, x in enumerate(items):
            x = z3.StringVal(x) if isinstance(x, str) else x
            out = x if out is None else z3.Concat(out, z3.StringVal(sep), x) if sep else z3.Concat(out, x)
        return out if out is not None else ""
    raise SymError("str.join on symbolic items")


def zstr_method(I, s, name, args, kwargs, node):
    def zs(x):
        return z3.StringVal(x) if isinstance(x, str) else x

    if name == "startswith":
        return z3.PrefixOf(zs(args[0]), s)
    if name == "endswith":
        return z3.SuffixOf(zs(args[0]), s)
    if name == "replace":
        # over-approximation: the result is an arbitrary string that no longer contains `old` (when `new` is empty)
        # and equals the subject when `old` does not occur in it
        old_, new_ = args[0], args[1]
        r = z3.String(I.ctx.fresh_name("replaced"))
        if isinstance(old_, str) and isinstance(new_, str) and old_ and not new_:
            I.ctx.assume(z3.Not(z3.Contains(r, z3.StringVal(old_))))
        I.ctx.assume(z3.Implies(z3.Not(z3.Contains(s, zs(old_))), r == s))
        I.ctx.notes.add("str.replace over-approximated (result: any string without the removed substring)")
        return r
    if name == "encode":
        return s
    if name in ("translate", "lower", "upper", "strip", "lstrip", "rstrip", "title", "casefold", "expandtabs") :
        # a character-wise rewrite of a symbolic string: over-approximated by an arbitrary string
        I.ctx.notes.add("str.%s on a symbolic string over-approximated by an arbitrary string" % name)
        return z3.String(I.ctx.fresh_name("str_" + name))
    if name == "isspace" and not args:
        from .builtins_model import str_isspace_term
        return str_isspace_term(s)
    if name in ("isascii", "isdigit", "isalpha", "isalnum", "isupper", "islower", "isprintable", "isnumeric", "isdecimal", "isidentifier", "istitle") and not args:
        # a character-class test of the string: an uninterpreted predicate (same string, same answer)
        return z3.Function("str." + name, z3.StringSort(), z3.BoolSort())(s)
    raise SymError("str method %s on symbolic string" % name)


# ---------------------------------------------------------------------------
def list_method(I, lst, name, args, kwargs, node):
    sx = _sx()
    if name == "append":
        I.note_write(lst)
        lst.append(args[0])
        return None
    if name == "extend":
        I.note_write(lst)
        lst.extend(I.iter_concrete(args[0], node))
        return None
    if name == "insert":
        i = args[0]
        if L.is_z3(i):
            raise SymError("list.insert at symbolic index")
        I.note_write(lst)
        lst.insert(i, args[1])
        return None
    if name == "pop":
        I.note_write(lst)
        i = args[0] if args else -1
        if L.is_z3(i):
            raise SymError("list.pop at symbolic index")
        try:
            return lst.pop(i)
        except IndexError:
            raise sx.SymRaise(IndexError, "pop from empty list")
    if name == "clear":
        I.note_write(lst)
        lst.clear()
        return None
    if name == "reverse":
        I.note_write(lst)
        lst.reverse()
        return None
    if name == "copy":
        return list(lst)
    if name == "index":
        for k, x in enumerate(lst):
            if I.ctx.branch(equal(I, x, args[0], node)):
                return k
        raise sx.SymRaise(ValueError, "list.index")
    if name == "count":
        r = 0
        for x in lst:
            r = r + L.If(equal(I, x, args[0], node), 1, 0)
        return r
    if name == "remove":
        for k, x in enumerate(lst):
            if I.ctx.branch(equal(I, x, args[0], node)):
                I.note_write(lst)
                del lst[k]
                return None
        raise sx.SymRaise(ValueError, "list.remove(x): x not in list")
    if name == "sort":
        if concrete(lst) and not kwargs:
            I.note_write(lst)
            lst.sort()
            return None
        if len(lst) <= 4 and set(kwargs) <= {"key", "reverse"} and isinstance(kwargs.get("reverse", False), bool):
            # small list, symbolic keys: fork over the permutations; a permutation is the result exactly when consecutive keys
            # are non-decreasing and equal keys keep their original order (list.sort is stable)  [assumed library semantics]
            import itertools
            keyf = kwargs.get("key")
            keys = [I.call(keyf, [x], {}, node) if keyf is not None else x for x in lst]
            n = len(lst)
            perms = list(itertools.permutations(range(n)))
            for pi, perm in enumerate(perms):
                # reverse=True: keys non-increasing; equal keys still keep their original order (CPython documents reverse sorts as stable)
                rev = bool(kwargs.get("reverse", False))
                cond = L.And(*[L.Or(lex_lt(keys[b], keys[a]) if rev else lex_lt(keys[a], keys[b]), L.And(lex_eq(keys[a], keys[b]), a < b)) for a, b in zip(perm, perm[1:])])
                if pi == len(perms) - 1:
                    I.ctx.assume(L.to_z3(cond) if not isinstance(cond, bool) else z3.BoolVal(cond))
                    take = True
                else:
                    take = I.ctx.branch(cond)
                if take:
                    I.note_write(lst)
                    lst[:] = [lst[k] for k in perm]
                    return None
        raise SymError("list.sort on symbolic elements (use a contract-level summary)")
    raise SymError("list method %s" % name)


def lex_lt(a, b):
    if isinstance(a, tuple) and isinstance(b, tuple):
        if not a or not b:
            return len(a) < len(b)
        return L.Or(L.lt(a[0], b[0]), L.And(L.eq(a[0], b[0]), lex_lt(a[1:], b[1:])))
    return L.lt(a, b)


def lex_eq(a, b):
    return L.eq(a, b)


def slist_method(I, sl, name, args, kwargs, node):
    sx = _sx()
    if name == "append":
        I.note_write(sl)
        sl.arr = z3.Store(sl.arr, L.to_z3(sl.n), L.to_z3(L.num(I.numeric(args[0]))))
        sl.n = sl.n + 1
        return None
    if name == "extend":
        src = args[0]
        it = I.make_iter(src, node)
        I.note_write(sl)
        if isinstance(it.length, int):
            for k in range(it.length):
                sl.arr = z3.Store(sl.arr, L.to_z3(sl.n), L.to_z3(L.num(I.numeric(it.item(k)))))
                sl.n = sl.n + 1
            return None
        # symbolic-length extend: new array defined pointwise
        new = z3.Array(I.ctx.fresh_name("ext"), z3.IntSort(), sl.arr.sort().range())
        j = z3.Int(I.ctx.fresh_name("j"))
        n0 = sl.n
        old = sl.arr
        I.ctx.assume(z3.ForAll([j], z3.Implies(z3.And(j >= 0, j < n0), z3.Select(new, j) == z3.Select(old, j))))
        I.ctx.assume(z3.ForAll([j], z3.Implies(z3.And(j >= 0, j < it.length),
                                               z3.Select(new, n0 + j) == L.to_z3(it.item(j)))))
        sl.arr = new
        sl.n = n0 + it.length
        return None
    if name == "pop" and not args:
        if not I.ctx.branch(sl.n > 0):
            raise sx.SymRaise(IndexError, "pop from empty list")
        I.note_write(sl)
        v = I.elem(sl, sl.n - 1)
        sl.n = sl.n - 1
        return v
    if name == "copy":
        return SList(sl.arr, sl.n, sl.elem_range)
    if name == "tobytes":
        snap = sl.snapshot("bytes")
        return SBytes(snap.n, snap.at, (0, 256), "bytes")
    raise SymError("method %s on symbolic list" % name)


def byte_class_pred(table):
    """z3 predicate for membership of a byte in a 256-entry boolean table."""
    ranges = []
    start = None
    for b in range(257):
        on = b < 256 and table[b]
        if on and start is None:
            start = b
        if not on and start is not None:
            ranges.append((start, b - 1))
            start = None

    def pred(c):
        if isinstance(c, int):
            return 0 <= c < 256 and table[c]
        parts = []
        for lo, hi in ranges:
            parts.append(c == lo if lo == hi else z3.And(c >= lo, c <= hi))
        return z3.Or(*parts) if parts else z3.BoolVal(False)

    return pred


_pat_cache = {}


def pattern_class(pat):
    """For a compiled bytes regex that matches exactly one byte from a class,
    return the 256-entry membership table obtained from the *real* pattern."""
    if pat in _pat_cache:
        return _pat_cache[pat]
    try:
        import re._parser as sre_parse
    except ImportError:  # pragma: no cover
        import sre_parse
    p = sre_parse.parse(pat.pattern, pat.flags)
    if p.getwidth() != (1, 1) or len(p) != 1:
        _pat_cache[pat] = None
        return None
    table = [pat.fullmatch(bytes((b,))) is not None for b in range(256)]
    _pat_cache[pat] = table
    return table


def pattern_method(I, pat, name, args, kwargs, node):
    sx = _sx()
    if concrete(args, kwargs):
        try:
            return getattr(pat, name)(*args, **kwargs)
        except Exception as e:
            raise sx.SymRaise(type(e), sx._txt(node))
    if isinstance(pat.pattern, str):
        if name == "sub" and len(args) == 2 and L.is_z3(args[1]) and z3.is_string(args[1]):
            # str pattern on a symbolic string: the result is some string (over-approximation: nothing is assumed about it)
            I.ctx.notes.add("regex sub(%r) on a symbolic str over-approximated by an arbitrary string" % pat.pattern)
            return z3.String(I.ctx.fresh_name("resub"))
        raise SymError("str regex %r method %s on symbolic subject" % (pat.pattern, name))
    table = pattern_class(pat)
    if name == "sub":
        # RE.sub(repl, bytes): a function of (pattern, replacement kind, subject) - uninterpreted
        from .absval import SFun
        repl = args[0]
        I.ctx.notes.add("regex sub(%r) treated as an uninterpreted function of its subject" % pat.pattern)
        return SFun("re.sub", [pat.pattern, repl if isinstance(repl, (bytes, str)) else "<callable>", args[1]], bytes)
    if table is None:
        raise SymError("regex %r is not a single byte class" % pat.pattern)
    pred = byte_class_pred(table)
    s = as_sbytes(args[0])
    if s is None:
        raise SymError("regex on %s" % type(args[0]).__name__)
    if name == "match":
        pos = args[1] if len(args) > 1 else 0
        # match at pos: needs pos < n and class(s[pos])
        if not I.ctx.branch(L.lt(pos, s.n)):
            return None
        c = I.elem(s, pos)
        if I.ctx.branch(pred(c)):
            return sx.SMatch(pos, s)
        return None
    if name == "search":
        pos = args[1] if len(args) > 1 else 0
        pos = L.If(L.lt(pos, 0), 0, pos)
        n = s.n
        j = I.ctx.fresh_int("m")
        q = z3.Int(I.ctx.fresh_name("t"))
        found = I.ctx.choose([True, False], "search")
        root = getattr(s, "root", None) or s
        off = getattr(s, "off", 0)
        def none_between(lo_, hi_):
            """no byte of the class in s[lo_:hi_), stated over the underlying buffer's indices"""
            if isinstance(lo_, int) and isinstance(hi_, int):
                return L.And(*[z3.Not(pred(s.at(t))) for t in range(lo_, hi_)])
            body = z3.Implies(z3.And(L.to_z3(off + lo_) <= q, q < L.to_z3(off + hi_)), z3.Not(pred(root.at(q))))
            pt = root.at(q)
            if "If(" in str(pt):
                return z3.ForAll([q], body)
            return z3.ForAll([q], body, patterns=[pt])
        if found:
            I.ctx.assume(z3.And(L.to_z3(pos) <= j, j < L.to_z3(n)))
            I.ctx.assume(pred(I.elem(s, j)))
            I.ctx.assume(none_between(pos, j))
            if not I.ctx.feasible(z3.BoolVal(True)):
                raise sx.PathEnd()
            return sx.SMatch(j, s)
        I.ctx.assume(none_between(pos, n))
        if not I.ctx.feasible(z3.BoolVal(True)):
            raise sx.PathEnd()
        return None
    raise SymError("regex method %s" % name)


def match_method(I, m, name, args, kwargs, node):
    if name == "start":
        return m.start
    if name == "end":
        return m.start + 1
    if name == "group":
        return SBytes(1, lambda k: m.s.at(m.start + k), (0, 256), "bytes")
    raise SymError("match.%s" % name)


def sbytes_method(I, s, name, args, kwargs, node):
    sx = _sx()
    if name in ("isdigit", "isalpha", "isspace", "isalnum"):
        fn = getattr(bytes, name)
        table = [fn(bytes((b,))) for b in range(256)]
        pred = byte_class_pred(table)
        if isinstance(s.n, int):
            if s.n == 0:
                return False
            return L.And(*[pred(I.elem(s, k)) for k in range(s.n)])
        mx = getattr(s, "maxn", None)
        if mx is not None:
            return L.And(s.n > 0, *[z3.Implies(s.n > k, pred(s.at(k))) for k in range(mx)])
        return L.And(s.n > 0, L.ForAllInt(0, s.n, lambda k: pred(s.at(k))))
    if name == "startswith":
        p = as_sbytes(args[0])
        if not isinstance(p.n, int):
            raise SymError("startswith symbolic prefix")
        return L.And(L.le(p.n, s.n), *[L.eq(s.at(k), p.at(k)) for k in range(p.n)])
    if name == "endswith":
        p = as_sbytes(args[0])
        if not isinstance(p.n, int):
            raise SymError("endswith symbolic suffix")
        return L.And(L.le(p.n, s.n), *[L.eq(s.at(s.n - p.n + k), p.at(k)) for k in range(p.n)])
    if name in ("index", "find") and (isinstance(args[0], int) or L.is_z3(args[0])) and len(args) <= 2:
        # first position >= start of one byte value: found at a fresh j with nothing before it, or nowhere
        b = args[0]
        start = args[1] if len(args) > 1 else 0
        start = L.If(L.lt(start, 0), L.Max(s.n + start, 0), start)
        j = I.ctx.fresh_int("idx")
        root = getattr(s, "root", None) or s
        off = getattr(s, "off", 0)
        none = lambda lo_, hi_: L.ForAllInt(off + lo_, off + hi_, lambda u: L.ne(root.at(u), b), "u", pat=lambda u: root.at(u))
        if I.ctx.choose([True, False], "byte-found?"):
            I.ctx.assume(L.And(L.le(start, j), L.lt(j, s.n), L.eq(s.at(j), b), none(start, j)))
            return j
        I.ctx.assume(none(start, s.n))
        if name == "find":
            return -1
        raise sx.SymRaise(ValueError, "subsection not found")
    if name in ("rstrip", "lstrip") and len(args) == 1 and isinstance(args[0], (bytes, bytearray)) and len(args[0]) <= 6:
        # strip every trailing (leading) byte that is in the given set: the number r of stripped bytes is the unique one such that the r
        # outer bytes are in the set and the next one is not
        chars = list(args[0])
        inset = lambda c: L.Or(*[L.eq(c, v) for v in chars])
        r = I.ctx.fresh_int("stripped")
        root = getattr(s, "root", None) or s
        off = getattr(s, "off", 0)
        if name == "rstrip":
            I.ctx.assume(L.And(L.le(0, r), L.le(r, s.n),
                               L.ForAllInt(off + s.n - r, off + s.n, lambda u: inset(root.at(u)), "u", pat=lambda u: root.at(u)),
                               L.Implies(L.lt(r, s.n), L.Not(inset(s.at(s.n - r - 1))))))
            out = SBytes(s.n - r, s.at, s.elem_range, s.kind)
            out.root, out.off = root, off
            return out
        I.ctx.assume(L.And(L.le(0, r), L.le(r, s.n),
                           L.ForAllInt(off, off + r, lambda u: inset(root.at(u)), "u", pat=lambda u: root.at(u)),
                           L.Implies(L.lt(r, s.n), L.Not(inset(s.at(r))))))
        out = SBytes(s.n - r, lambda k, s=s, r=r: s.at(r + k), s.elem_range, s.kind)
        out.root, out.off = root, off + r
        return out
    if name in ("ljust", "rjust"):
        w = args[0]
        fill = as_sbytes(args[1]) if len(args) > 1 else SBytes.from_concrete(b" ")
        if not (isinstance(fill.n, int) and fill.n == 1):
            raise SymError("bytes.%s fill" % name)
        fb = fill.at(0)
        n = L.Max(s.n, w)
        if name == "ljust":
            at = lambda k, s=s, fb=fb: L.If(L.lt(k, s.n), s.at(k), fb)
        else:
            at = lambda k, s=s, fb=fb, n=n: L.If(L.lt(k, n - s.n), fb, s.at(k - (n - s.n)))
        return SBytes(n, at, (0, 256), "bytes")
    if name == "decode":
        raise SymError("bytes.decode on symbolic bytes")
    if name == "hex":
        raise SymError("bytes.hex on symbolic bytes")
    raise SymError("bytes method %s on symbolic bytes" % name)


def dict_method(I, d, name, args, kwargs, node):
    sx = _sx()
    if name == "get":
        k = args[0]
        default = args[1] if len(args) > 1 else None
        if isinstance(k, SBytes) or L.is_z3(k):
            for kk, v in d.items():
                if I.ctx.branch(equal(I, k, kk, node)):
                    return v
            return default
        try:
            return d.get(k, default)
        except TypeError:
            return default
    if name == "copy":
        return dict(d)
    if name in ("keys", "values", "items"):
        return list(getattr(d, name)())
    if name == "update":
        I.note_write(d)
        d.update(*args, **kwargs)
        return None
    if name == "pop":
        I.note_write(d)
        try:
            return d.pop(*args)
        except KeyError:
            raise sx.SymRaise(KeyError, "dict.pop")
    if name == "setdefault":
        I.note_write(d)
        return d.setdefault(*args)
    if name == "clear":
        I.note_write(d)
        d.clear()
        return None
    raise SymError("dict method %s" % name)


def set_method(I, s, name, args, kwargs, node):
    sx = _sx()
    if name == "add":
        if not concrete(args[0]) and not isinstance(args[0], (SObj, SOpaque, z3.ExprRef)):
            raise SymError("set.add of symbolic value")
        I.note_write(s)
        s.add(args[0])
        return None
    if name in ("remove", "discard"):
        I.note_write(s)
        try:
            getattr(s, name)(args[0])
        except KeyError:
            raise sx.SymRaise(KeyError, "set.remove")
        return None
    if name == "copy":
        return set(s)
    if name == "update":
        I.note_write(s)
        for a in args:
            for x in I.iter_concrete(a, node):
                if not concrete(x) and not isinstance(x, (SObj, SOpaque, z3.ExprRef)):
                    raise SymError("set.update with a symbolic value")
                s.add(x)
        return None
    if name == "clear":
        I.note_write(s)
        s.clear()
        return None
    raise SymError("set method %s" % name)
