"""Second back end: cvc5 on the SMT-LIB text of a query z3 left undecided."""
from __future__ import annotations

import os
import subprocess
import tempfile

CVC5 = "/usr/bin/cvc5"


def cvc5_check(smt2, timeout_s=10):
    if not os.path.exists(CVC5):
        return "unknown"
    txt = smt2
    if "(check-sat)" not in txt:
        txt += "\n(check-sat)\n"
    header = "(set-logic ALL)\n" if "(set-logic" not in txt else ""
    with tempfile.NamedTemporaryFile("w", suffix=".smt2", delete=False, dir=os.environ.get("TMPDIR", "/tmp")) as fh:
        fh.write(header + txt)
        path = fh.name
    try:
        p = subprocess.run([CVC5, "--lang", "smt2", "--strings-exp", "--tlimit=%d" % (timeout_s * 1000), path],
                           capture_output=True, text=True, timeout=timeout_s + 5)
        out = (p.stdout or "").strip().splitlines()
        for line in out:
            if line.strip() in ("sat", "unsat", "unknown"):
                return line.strip()
        return "unknown"
    except Exception:
        return "unknown"
    finally:
        try:
            os.unlink(path)
        except OSError:
            pass
