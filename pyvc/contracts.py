"""Sidecar contract language (shallow embedding in Python)."""
from __future__ import annotations

import inspect
from collections import OrderedDict

import z3

from . import logic as L
from .sorts import Sort, CObj
from .symexec import LoopSpec, NS
from .values import SBytes, SList, SObj, SymError

REGISTRY = OrderedDict()
LEMMAS = OrderedDict()
EXHAUSTIVE = OrderedDict()
BOUNDED = OrderedDict()


class Known:
    """A recorded finding: `witness` is a predicate over the parameters that
    characterises the known-failing inputs of one obligation."""

    def __init__(self, obligation, witness, description, finding_id):
        self.obligation = obligation
        self.witness = witness
        self.description = description
        self.finding_id = finding_id


class Contract:
    def __init__(self, key, props=(), inline=False):
        self.key = key
        self.modname, self.qualname = key.split(":")
        self.short = self.qualname
        self.props = list(props)
        self.inline = inline
        self.params = OrderedDict()
        self.defaults = {}
        self.requires = []
        self.ensures = []
        self.raises = OrderedDict()  # cls -> condition fn or None (may raise whenever)
        self.raises_iff = {}  # cls -> condition fn: must raise exactly when cond
        self.modifies = OrderedDict()  # path -> Sort or None
        self.loops = {}
        self.result = None
        self.native = None
        self.known = []
        self.samples_hint = None
        self.abstract = False  # assumed contract (no body verified): listed as assumption
        self.note = ""
        self.sample_filter = None
        self.nsamples = None
        self.max_paths = 4000
        self.result_fn = None
        self.ghosts = OrderedDict()
        self.fragment = None
        self.scenario = None

    # -- builder API ----------------------------------------------------------
    def param(self, name, sort, default=None):
        self.params[name] = sort
        if default is not None:
            self.defaults[name] = default
        return self

    def ghost(self, name, sort):
        """Universally quantified logical variable of the contract (not an argument)."""
        self.ghosts[name] = sort
        return self

    def req(self, name, fn):
        self.requires.append((name, fn))
        return self

    def ens(self, name, fn):
        self.ensures.append((name, fn))
        return self

    def ens_result(self, name, fn):
        """Functional postcondition  result == fn(params): callers get the
        term itself instead of a fresh symbol constrained by an equality."""
        self.result_fn = (name, fn)
        from .logic import eq

        def clause(**env):
            return eq(env["result"], self.apply(fn, env))

        self.ensures.append((name, _ByEnv(self, fn)))
        return self

    def may_raise(self, cls, cond=None):
        self.raises[cls] = cond
        return self

    def mod(self, path, sort=None):
        self.modifies[path] = sort
        return self

    def loop(self, ordinal, inv=None, decreases=None, types=None, modifies=(), kind=None):
        self.loops[ordinal] = LoopSpec(inv, decreases, types, modifies, kind)
        return self

    def returns(self, sort):
        self.result = sort
        return self

    def known_finding(self, obligation, witness, description, finding_id):
        self.known.append(Known(obligation, witness, description, finding_id))
        return self

    # -- evaluation --------------------------------------------------------------
    def apply(self, fn, env):
        if isinstance(fn, _ByEnv):
            from .logic import eq

            return eq(env["result"], self.apply(fn.fn, env))
        params = list(inspect.signature(fn).parameters)
        args = []
        for p in params:
            if p not in env:
                raise SymError("contract %s: clause refers to %r which is not available" % (self.key, p))
            args.append(env[p])
        return fn(*args)

    def snapshot(self, bound):
        memo = {}
        return NS({k: snap(v, memo) for k, v in bound.items()})

    def havoc(self, I, bound):
        ctx = I.ctx
        for path, sort in self.modifies.items():
            parts = path.split(".")
            obj = bound[parts[0]]
            for p in parts[1:-1]:
                obj = obj.f[p]
            if len(parts) == 1:
                if isinstance(obj, SList):
                    I.note_write(obj)
                    obj.arr = z3.Array(ctx.fresh_name("hv"), z3.IntSort(), obj.arr.sort().range())
                    obj.n = ctx.fresh_int("hv_len")
                    ctx.assume(obj.n >= 0)
                    continue
                raise SymError("modifies %s: cannot havoc a parameter binding" % path)
            fld = parts[-1]
            if not isinstance(obj, SObj):
                raise SymError("modifies %s: not an object" % path)
            if fld == "*":
                for k in list(obj.f):
                    I.note_write(obj, k)
                    obj.f[k] = ctx.fresh_like(obj.f[k], "%s.%s" % (obj.name, k))
                continue
            I.note_write(obj, fld)
            cur = obj.f.get(fld)
            if sort is not None:
                obj.f[fld] = sort.fresh(ctx, path)
            elif isinstance(cur, SList):
                cur.arr = z3.Array(ctx.fresh_name("hv"), z3.IntSort(), cur.arr.sort().range())
                cur.n = ctx.fresh_int("hv_len")
                ctx.assume(cur.n >= 0)
            else:
                obj.f[fld] = ctx.fresh_like(cur, path)


class _ByEnv:
    def __init__(self, c, fn):
        self.c, self.fn = c, fn


def snap(v, memo):
    if isinstance(v, SObj):
        if id(v) in memo:
            return memo[id(v)]
        o = SObj(v.cls, {}, v.name + "@old")
        memo[id(v)] = o
        for k, x in v.f.items():
            o.f[k] = snap(x, memo)
        return o
    if isinstance(v, SList):
        return v.snapshot()
    if hasattr(v, "dom") and hasattr(v, "val") and hasattr(v, "snapshot"):
        return v.snapshot()
    if isinstance(v, list):
        return [snap(x, memo) for x in v]
    if isinstance(v, tuple):
        return tuple(snap(x, memo) for x in v)
    if isinstance(v, dict):
        return {k: snap(x, memo) for k, x in v.items()}
    return v


def contract(key, props=(), inline=False):
    """`key` may carry a '#variant' suffix: several contracts (input classes) on one function."""
    base = key.split("#")[0]
    c = Contract(base, props, inline)
    c.key = key
    if "#" in key:
        c.short = c.qualname + "#" + key.split("#")[1]
        c.inline = True
    if key in REGISTRY:
        # a second contract under the same key would silently replace the first one (and whatever other contracts use it as an assumed callee)
        raise ValueError("contract key %s is already registered - use a '#variant' key" % key)
    REGISTRY[key] = c
    return c


def scenario(modname, name, source, props=()):
    """A loop-free harness (operation sequence) written in the sidecar and executed
    by the same engine with the bodies of the real functions it calls taken from
    the repository.  Only the harness text is ours; everything it calls is real."""
    import textwrap
    c = Contract("%s:%s" % (modname, name), props, inline=True)
    c.key = "%s:scenario.%s" % (modname, name)
    c.short = "scenario." + name
    c.scenario = textwrap.dedent(source)
    REGISTRY[c.key] = c
    return c


def fragment(key, name, select, props=(), mode="expr"):
    """Contract on a fragment (expression or statement list) of a real function,
    selected structurally from the working-tree AST at check time."""
    c = Contract(key, props, inline=True)
    c.fragment = dict(select=select, mode=mode, name=name)
    c.short = c.qualname + "#" + name
    c.key = key + "#" + name
    if c.key in REGISTRY:
        raise ValueError("contract key %s is already registered" % c.key)
    REGISTRY[c.key] = c
    return c


class Lemma:
    def __init__(self, name, props, fn, note=""):
        self.name = name
        self.props = list(props)
        self.fn = fn
        self.note = note


def lemma(name, props=(), note=""):
    def deco(fn):
        LEMMAS[name] = Lemma(name, props, fn, note)
        return fn

    return deco


class Exhaustive:
    """Complete finite enumeration on the real object (labelled exhaustive)."""

    def __init__(self, name, props, fn, note=""):
        self.name, self.props, self.fn, self.note = name, list(props), fn, note


def exhaustive(name, props=(), note=""):
    def deco(fn):
        EXHAUSTIVE[name] = Exhaustive(name, props, fn, note)
        return fn

    return deco


class Bounded:
    """Bounded stand-in: never counted as proved."""

    def __init__(self, name, props, fn, bound="", tiers=("quick", "thorough")):
        self.name, self.props, self.fn, self.bound, self.tiers = name, list(props), fn, bound, tiers


def bounded(name, props=(), bound="", tiers=("quick", "thorough")):
    def deco(fn):
        BOUNDED[name] = Bounded(name, props, fn, bound, tiers)
        return fn

    return deco


def load_all():
    """Import every module under /verif/contracts."""
    import importlib
    import os
    import pkgutil

    import contracts as pkg

    for m in sorted(pkgutil.iter_modules(pkg.__path__), key=lambda m: m.name):
        importlib.import_module("contracts." + m.name)
    _tag_by_reach()
    return REGISTRY


def _tag_by_reach():
    """reach.json (written by tools_reach.py, committed): for each property the repository functions that the property's own bounded stand-ins execute.
    A contract on such a function is also run by that property's check - the function lies on the path between the property's observation points and the
    code, so by the modular argument its contract is part of what the property rests on.  Not applied to contracts that carry a known finding (findings are
    listed per property), to scenarios, or to assumed (abstract) contracts.  PYVC_NO_REACH=1 switches this off."""
    import json
    import os

    if os.environ.get("PYVC_NO_REACH"):
        return
    path = os.path.join(os.path.dirname(os.path.dirname(os.path.abspath(__file__))), "reach.json")
    try:
        reach = json.load(open(path))
    except FileNotFoundError:
        return
    for key, c in REGISTRY.items():
        base = key.split("#")[0]
        if ":scenario." in base or getattr(c, "abstract", False) or not c.props or getattr(c, "known", None):
            continue
        for p, fs in reach.items():
            if base in fs and p not in c.props:
                c.props = list(c.props) + [p]
                c.reach_tagged = getattr(c, "reach_tagged", []) + [p]


def assume_library(fobj, name, result=None):
    """An external (non-repository) function treated as an uninterpreted, traced dependency."""
    from . import builtins_model
    from .values import SOpaque

    def handler(I, args, kwargs, node):
        r = result(I, args) if result else SOpaque(name + "-result")
        I.trace.append((name, {"args": list(args), "kwargs": dict(kwargs), "__result__": r}))
        return r

    builtins_model.LIB[fobj] = handler
    return handler


def stub(key, params, returns=None):
    """A traced, contract-less stand-in for a callee, private to one caller's contract (the callee itself
    is verified under its own contract elsewhere)."""
    from . import sorts as T
    c = Contract(key.split("#")[0], [], False)
    c.abstract = True
    c.traced = True
    for p in params:
        c.param(p, T.Opaque(p))
    if returns is not None:
        c.returns(returns)
    return c
