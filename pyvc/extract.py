"""Mechanical extraction of function ASTs from the *working tree* of the
repository (never a copy in /verif).  What is dropped is decided in the
executor (annotations, docstrings, logging calls, cast()) and listed in
DESIGN.md section 2.1.
"""
from __future__ import annotations

import ast
import hashlib
import importlib
import os
import sys

REPO = os.environ.get("PYVC_REPO", "/repo")

_mod_cache = {}
_ast_cache = {}


def ensure_repo_on_path():
    if sys.path[0] != REPO:
        if REPO in sys.path:
            sys.path.remove(REPO)
        sys.path.insert(0, REPO)


def module_file(modname):
    return os.path.join(REPO, *modname.split(".")) + ".py"


def module_ast(modname):
    if modname not in _ast_cache:
        path = module_file(modname)
        with open(path, "r", encoding="utf-8") as fh:
            src = fh.read()
        _ast_cache[modname] = (ast.parse(src, filename=path), src)
    return _ast_cache[modname]


def real_module(modname):
    ensure_repo_on_path()
    if modname not in _mod_cache:
        m = importlib.import_module(modname)
        f = getattr(m, "__file__", "") or ""
        if modname.startswith("pdfminer") and not os.path.abspath(f).startswith(os.path.abspath(REPO)):
            raise RuntimeError("module %s imported from %s, not from %s" % (modname, f, REPO))
        _mod_cache[modname] = m
    return _mod_cache[modname]


class FuncInfo:
    def __init__(self, modname, qualname, node, src, cls_node=None):
        self.modname = modname
        self.qualname = qualname
        self.node = node
        self.cls_node = cls_node
        seg = ast.get_source_segment(src, node) or ""
        self.source = seg
        self.sha = hashlib.sha256(seg.encode()).hexdigest()
        self.lineno = node.lineno
        self.end_lineno = getattr(node, "end_lineno", node.lineno)
        self.is_generator = any(
            isinstance(n, (ast.Yield, ast.YieldFrom)) for n in _walk_no_nested(node)
        )

    @property
    def key(self):
        return "%s:%s" % (self.modname, self.qualname)


def _walk_no_nested(fn):
    """Walk a function body without descending into nested defs/lambdas."""
    stack = list(fn.body)
    while stack:
        n = stack.pop()
        if isinstance(n, (ast.FunctionDef, ast.AsyncFunctionDef, ast.Lambda, ast.ClassDef)):
            continue          # a def that is itself a statement of the body: its yields are its own
        yield n
        for c in ast.iter_child_nodes(n):
            if isinstance(c, (ast.FunctionDef, ast.AsyncFunctionDef, ast.Lambda, ast.ClassDef)):
                continue
            stack.append(c)


_func_cache = {}


def get_function(modname, qualname):
    key = (modname, qualname)
    if key in _func_cache:
        return _func_cache[key]
    tree, src = module_ast(modname)
    parts = qualname.split(".")
    body = tree.body
    node = None
    cls_node = None
    for i, p in enumerate(parts):
        found = None
        for n in body:
            if isinstance(n, (ast.FunctionDef, ast.ClassDef)) and n.name == p:
                found = n
        if found is None:
            # search nested statements (functions defined under if/try)
            for n in body:
                for c in ast.walk(n):
                    if isinstance(c, (ast.FunctionDef, ast.ClassDef)) and c.name == p:
                        found = c
                        break
                if found:
                    break
        if found is None:
            raise KeyError("%s:%s not found (at %r)" % (modname, qualname, p))
        if isinstance(found, ast.ClassDef):
            cls_node = found
        node = found
        body = found.body
    if not isinstance(node, ast.FunctionDef):
        raise KeyError("%s:%s is not a function" % (modname, qualname))
    fi = FuncInfo(modname, qualname, node, src, cls_node)
    _func_cache[key] = fi
    return fi


def function_of_object(fobj):
    """FuncInfo for a real function object defined in the repository."""
    mod = getattr(fobj, "__module__", None)
    qn = getattr(fobj, "__qualname__", None)
    if not mod or not qn or not mod.startswith("pdfminer"):
        return None
    qn = qn.replace(".<locals>", "")
    try:
        return get_function(mod, qn)
    except (KeyError, FileNotFoundError):
        return None


def loops_of(fn_node):
    """Loops of a function in source order (not descending into nested defs)."""
    ls = [n for n in _walk_no_nested(fn_node) if isinstance(n, (ast.For, ast.While))]
    ls.sort(key=lambda n: (n.lineno, n.col_offset))
    return ls


def loop_fingerprint(node):
    if isinstance(node, ast.For):
        names = sorted(n.id for n in ast.walk(node.target) if isinstance(n, ast.Name))
        return "for " + ",".join(names)
    return "while"
