"""Symbolic value classes used by the executor."""
from __future__ import annotations

import z3
from . import logic as L


class SymError(Exception):
    """Engine limitation: the function leaves the supported subset."""


class SBytes:
    """Immutable symbolic sequence of ints (bytes, or a frozen list view).

    Content is `at(k)` for k in [0, n); `at` is a Python closure producing a z3
    term, so slices and concatenations need no quantifiers.  `elem_range` is the
    on-demand type fact for elements (bytes: 0..255).
    """

    def __init__(self, n, at, elem_range=(0, 256), kind="bytes"):
        self.n = n
        self._at = at
        self.elem_range = elem_range
        self.kind = kind

    @staticmethod
    def from_array(arr, n, elem_range=(0, 256), kind="bytes"):
        return SBytes(n, lambda k: z3.Select(arr, L.to_z3(k)), elem_range, kind)

    @staticmethod
    def from_concrete(b, kind="bytes"):
        vals = list(b)

        def at(k):
            if isinstance(k, int):
                return vals[k] if 0 <= k < len(vals) else 0
            r = z3.IntVal(0)
            for i in reversed(range(len(vals))):
                r = z3.If(k == i, z3.IntVal(vals[i]), r)
            return r

        return SBytes(len(vals), at, (0, 256), kind)

    def at(self, k):
        return self._at(k)

    def __sym_truth__(self):
        if isinstance(self.n, int):
            return self.n != 0
        return self.n != 0

    def __repr__(self):
        return "SBytes(n=%s)" % (self.n,)


class SList:
    """Mutable symbolic-length list of ints/reals: (arr, n) updated in place."""

    kind = "list"

    def __init__(self, arr, n, elem_range=None):
        self.arr = arr
        self.n = n
        self.elem_range = elem_range

    def at(self, k):
        return z3.Select(self.arr, L.to_z3(k))

    def __sym_truth__(self):
        return self.n != 0

    def snapshot(self, kind="list"):
        arr, n = self.arr, self.n
        return SBytes(n, lambda k: z3.Select(arr, L.to_z3(k)), self.elem_range, kind)

    def __repr__(self):
        return "SList(%s, n=%s)" % (self.arr, self.n)


class SObj:
    """Heap object: a record of fields, plus the real class (for methods and
    class attributes).  Identity is Python identity."""

    def __init__(self, cls=None, fields=None, name="obj"):
        object.__setattr__(self, "cls", cls)
        object.__setattr__(self, "f", dict(fields or {}))
        object.__setattr__(self, "name", name)

    def __getattr__(self, k):
        f = object.__getattribute__(self, "f")
        if k in f:
            return f[k]
        raise AttributeError(k)

    def __repr__(self):
        return "<SObj %s %s>" % (getattr(self.cls, "__name__", None), self.name)

    def __sym_truth__(self):
        return True


class SIter:
    """Indexable iterable: `length` (int or z3 Int) and item(k)."""

    def __init__(self, length, item, desc="iter", contains=None):
        self.length = length
        self.item = item
        self.desc = desc
        self.contains = contains  # optional membership predicate (ranges)


class SIterator:
    """Result of iter(x): an SIter plus a mutable position."""

    def __init__(self, it):
        self.it = it
        self.pos = 0


class SMethod:
    def __init__(self, obj, func, name):
        self.obj = obj
        self.func = func
        self.name = name


class SClosure:
    """A lambda / nested def evaluated in the executor."""

    def __init__(self, node, env, mod):
        self.node = node
        self.env = env
        self.mod = mod


class SOpaque:
    """A value the engine carries around but cannot inspect (e.g. a font)."""

    def __init__(self, name):
        self.name = name

    def __repr__(self):
        return "<opaque %s>" % self.name


class SYields(SList):
    """Ghost record of the values yielded by a generator when the number of
    yields is symbolic: the sequence (arr, n) and the membership predicate
    `mem` (both updated by every `yield`, so  mem[v] <=> exists i<n. arr[i]=v
    holds by construction - an engine-level ghost axiom)."""

    def __init__(self, arr, n, mem):
        SList.__init__(self, arr, n, None)
        self.mem = mem

    def member(self, v):
        return z3.Select(self.mem, L.to_z3(v))


class SymFn:
    """A callable whose behaviour is given symbolically (abstract dependency)."""

    def __init__(self, fn, name="fn"):
        self.fn = fn
        self.name = name

    def __sym_call__(self, I, args, kwargs, node):
        return self.fn(I, *args, **kwargs)


class SPred:
    """An abstract container of ints: truthiness and membership are symbolic."""

    def __init__(self, truthy, member):
        self.truthy = truthy
        self.member = member

    def __sym_truth__(self):
        return self.truthy

    def __sym_contains__(self, I, x, node):
        return self.member(x)


class SMap:
    """Mutable map from ints to values with symbolic keys: (domain, values) arrays."""

    def __init__(self, dom, val):
        self.dom = dom
        self.val = val

    def has(self, k):
        return z3.Select(self.dom, L.to_z3(k))

    def get(self, k):
        return z3.Select(self.val, L.to_z3(k))

    def snapshot(self):
        return SMap(self.dom, self.val)

    def __sym_truth__(self):
        raise SymError("truthiness of a symbolic map")

    def __sym_contains__(self, I, x, node):
        return self.has(I.numeric(x))

    def __sym_getitem__(self, I, idx, node):
        from .symexec import SymRaise, _txt
        k = I.numeric(idx)
        if not I.ctx.branch(self.has(k)):
            raise SymRaise(KeyError, _txt(node))
        return self.get(k)

    def __sym_setitem__(self, I, idx, v, node):
        k = L.to_z3(I.numeric(idx))
        I.note_write(self)
        vv = L.to_z3(L.num(I.numeric(v)))
        if self.val.sort().range() == z3.RealSort() and z3.is_int(vv):
            vv = z3.ToReal(vv)
        self.val = z3.Store(self.val, k, vv)
        self.dom = z3.Store(self.dom, k, z3.BoolVal(True))
