"""Verification of one contract: obligations, covers, replay, cross-check."""
from __future__ import annotations

import copy
import inspect
import random
import time
import traceback
from collections import OrderedDict

import z3

from . import logic as L
from .extract import get_function, real_module, loops_of
from .sorts import CObj, _json
from .symexec import Ctx, Interp, NS, PathEnd, SExc, SymRaise, _txt
from .summaries import equal
from .values import SBytes, SList, SObj, SymError


class OblResult:
    def __init__(self, name):
        self.name = name
        self.paths = 0
        self.status = "discharged"  # discharged | failed | undecided | known
        self.backends = set()
        self.seconds = 0.0
        self.model = None
        self.info = ""
        self.known_ids = []
        self.decisions = None

    def add(self, r):
        self.paths += 1
        self.seconds += r.get("seconds", 0.0)
        self.backends.add(r.get("backend", "z3"))
        st = r["status"]
        if st == "unsat":
            return
        if st == "known":
            if self.status == "discharged":
                self.status = "known"
            for k in r.get("known_ids", []):
                if k not in self.known_ids:
                    self.known_ids.append(k)
            if self.model is None:
                self.model = r.get("model")
            return
        if st == "sat":
            if self.status != "failed":
                self.status = "failed"
                self.model = r.get("model")
                self.info = r.get("info", "")
                self.decisions = r.get("decisions")
            return
        if self.status in ("discharged", "known"):
            self.status = "undecided"
            self.info = "solver: %s" % st

    def to_json(self):
        return dict(name=self.name, status=self.status, paths=self.paths, backend="+".join(sorted(self.backends)),
                    seconds=round(self.seconds, 4), info=self.info, known=self.known_ids,
                    model=_json(self.model) if self.model is not None else None)


class KCtx(Ctx):
    """Ctx that knows the contract's recorded findings."""

    def __init__(self, *a, **kw):
        super().__init__(*a, **kw)
        self.known = {}  # obligation name -> list of (id, z3 witness)

    def oblige(self, name, goal, info=""):
        kn = self.known.get(name)
        if not kn:
            return super().oblige(name, goal, info)
        g = goal
        if not isinstance(g, (bool, z3.ExprRef)):
            g = L.truth(g)
        if g is True:
            return super().oblige(name, goal, info)
        if g is False:
            g = z3.BoolVal(False)
        t0 = time.time()
        self.solver.push()
        self.solver.add(z3.Not(g))
        r = self._check()
        if r == z3.unsat:
            self.solver.pop()
            self.results.append(dict(name=name, status="unsat", backend="z3", seconds=round(time.time() - t0, 4), info=info))
            self.assume(g)
            return
        model_in = self.decode_model(self.solver.model()) if r == z3.sat else None
        # is there a counterexample outside every recorded witness?
        for fid, w in kn:
            self.solver.add(z3.Not(L.to_z3(w)) if not isinstance(w, bool) else z3.BoolVal(not w))
        r2 = self._check()
        if r2 == z3.sat:
            model = self.decode_model(self.solver.model())
            self.solver.pop()
            self.results.append(dict(name=name, status="sat", backend="z3", model=model, info=info + " (outside recorded findings)",
                                     seconds=round(time.time() - t0, 4), decisions=list(self.decisions[: self.pos])))
        else:
            self.solver.pop()
            self.results.append(dict(name=name, status="known", backend="z3", model=model_in, info=info,
                                     known_ids=[fid for fid, _ in kn], seconds=round(time.time() - t0, 4),
                                     note="" if r2 == z3.unsat else "outside-witness query: %s" % r2))
        self.assume(g)


def resolve_object(modname, qualname):
    o = real_module(modname)
    for p in qualname.split("."):
        o = getattr(o, p)
    return o


def verify_function(c, registry, timeout_ms=10000, max_paths=None):
    """Symbolically execute the real function under contract `c`."""
    t0 = time.time()
    out = dict(key=c.key, props=c.props, obligations=[], error=None, paths=0, notes=[], inlined=[], contract_calls=[],
               solver_seconds=0.0, solver_checks=0)
    try:
        fi = scenario_info(c) if c.scenario else get_function(c.modname, c.qualname)
    except Exception as e:
        out["error"] = "anchor drift: %s" % e
        out["seconds"] = time.time() - t0
        return out
    out.update(sha256=fi.sha, lines=[fi.lineno, fi.end_lineno])
    if c.scenario:
        out["scenario"] = c.scenario
    for ordn, spec in c.loops.items():
        if ordn >= len(loops_of(fi.node)):
            out["error"] = "anchor drift: contract has an invariant for loop %d, function has %d loops" % (
                ordn, len(loops_of(fi.node)))
            out["seconds"] = time.time() - t0
            return out
    max_paths = max_paths or c.max_paths
    frag_node = None
    if c.fragment is not None:
        try:
            frag_node = c.fragment["select"](fi.node)
        except Exception as e:
            frag_node = None
        if frag_node is None:
            out["error"] = "anchor drift: fragment %r of %s not found" % (c.fragment["name"], c.key)
            out["seconds"] = time.time() - t0
            return out
        import ast as _ast, hashlib as _h
        txt = _ast.unparse(frag_node) if not isinstance(frag_node, list) else "\n".join(_ast.unparse(n) for n in frag_node)
        out["fragment"] = txt[:400]
        out["sha256"] = _h.sha256(txt.encode()).hexdigest()
    obls = OrderedDict()
    work = [[]]
    notes = set()
    inlined = set()
    ccalls = set()
    covers = 0
    exits = {"normal": 0, "raise": 0, "cut": 0}
    while work:
        dec = work.pop()
        out["paths"] += 1
        if out["paths"] > max_paths:
            out["error"] = "path budget exceeded (%d)" % max_paths
            break
        L.reset_fresh()
        ctx = KCtx(dec, timeout_ms)
        I = Interp(ctx, registry)
        I.current_contract = c
        try:
            bound = OrderedDict()
            for name, sort in c.params.items():
                v = sort.fresh(ctx, name)
                bound[name] = v
                ctx.inputs[name] = (sort, v)
            ghosts = OrderedDict()
            for name, sort in c.ghosts.items():
                v = sort.fresh(ctx, name)
                ghosts[name] = v
                ctx.inputs[name] = (sort, v)
            I.ghosts = ghosts
            if getattr(c, "wire", None):
                c.wire(bound, ghosts)
            old = c.snapshot(bound)
            # inputs are decoded from their entry snapshot (parameters may be mutated)
            for name, sort in c.params.items():
                ctx.inputs[name] = (sort, _entry_view(getattr(old, name), bound[name]))
            for cname, fn in c.requires:
                ctx.assume(c.apply(fn, dict(bound, old=old, **ghosts)))
            if out["paths"] == 1:
                if ctx._check() == z3.unsat:
                    out["error"] = "vacuous: requires is unsatisfiable"
                    break
                covers += 1
            for k in c.known:
                ctx.known.setdefault(k.obligation, []).append((k.finding_id, c.apply(k.witness, dict(old.__dict__, **ghosts))))
            try:
                if c.fragment is not None:
                    result, post = run_fragment(c, I, fi, frag_node, bound)
                else:
                    result = I.call_function(fi, list(bound.values()), loopspecs=c.loops)
                    post = bound
                exits["normal"] += 1
                env = dict(post, old=old, result=result, ctx=ctx, trace=I.trace, **ghosts)
                for cname, fn in c.ensures:
                    ctx.oblige("ensures:%s" % cname, c.apply(fn, env))
                for cls, fn in c.raises_iff.items():
                    ctx.oblige("raises-iff:%s" % cls.__name__, L.Not(c.apply(fn, dict(old.__dict__, old=old))))
                frame_obligations(c, ctx, I, bound, old)
            except SymRaise as e:
                exits["raise"] += 1
                cls = e.exc.cls
                allowed = None
                for acls, cond in c.raises.items():
                    if issubclass(cls, acls):
                        allowed = (acls, cond)
                        break
                if allowed is None:
                    ctx.oblige("no-raise:%s:%s" % (cls.__name__, e.where), False, "exception escapes")
                elif allowed[1] is not None:
                    ctx.oblige("raises-only-if:%s" % allowed[0].__name__, c.apply(allowed[1], dict(old.__dict__, old=old, trace=I.trace, **ghosts)))
                else:
                    ctx.results.append(dict(name="raises-allowed:%s" % allowed[0].__name__, status="unsat", backend="trivial", seconds=0.0))
        except PathEnd:
            exits["cut"] += 1
        except SymError as e:
            out["error"] = "out of subset: %s" % e
            work = []
        except z3.Z3Exception as e:
            out["error"] = "engine error (z3): %s" % e
            work = []
        except RecursionError:
            out["error"] = "engine error: recursion"
            work = []
        work.extend(ctx.alternatives)
        for r in ctx.results:
            obls.setdefault(r["name"], OblResult(r["name"])).add(r)
        notes |= ctx.notes
        inlined |= I.inlined
        ccalls |= I.contract_calls
        out["solver_seconds"] += ctx.solver_time
        out["solver_checks"] += ctx.nchecks
    out["obligations"] = [o.to_json() for o in obls.values()]
    out["notes"] = sorted(notes)
    out["inlined"] = sorted(inlined)
    out["contract_calls"] = sorted(ccalls)
    out["exits"] = exits
    out["covers"] = covers
    out["seconds"] = round(time.time() - t0, 3)
    if not out["error"] and not any(o["name"].startswith(("ensures", "inv-", "frame", "raises")) for o in out["obligations"]):
        out["error"] = "vacuous: no contract obligation was generated"
    return out


def scenario_info(c):
    import ast as _ast
    from .extract import FuncInfo
    tree = _ast.parse(c.scenario)
    node = tree.body[0]
    return FuncInfo(c.modname, c.qualname, node, c.scenario)


def run_fragment(c, I, fi, node, bound):
    from .symexec import Frame
    fr = Frame(fi, dict(bound), real_module(fi.modname), loopspecs=c.loops)
    from .contracts import snap
    memo = {}
    fr.entry = {k: snap(v, memo) for k, v in bound.items()}
    if c.fragment["mode"] == "expr":
        return I.eval(node, fr), bound
    from .symexec import _Return, _Break, _Continue
    how = "end"
    try:
        I.exec_block(node, fr)
    except _Return as r:
        how = "return"
        fr.env["__return__"] = r.value
    except _Break:
        how = "break"
    except _Continue:
        how = "continue"
    fr.env["__exit__"] = how
    return (fr.yields if fi.is_generator else None), fr.env


def _entry_view(oldv, cur):
    return oldv


def frame_obligations(c, ctx, I, bound, old):
    mods = list(c.modifies.keys())

    def allowed(path):
        for m in mods:
            if m == path or (m.endswith(".*") and path.startswith(m[:-1])) or path.startswith(m + "."):
                return True
            if m.endswith("[*]") and path.startswith(m[:-3] + "["):      # every item of a dict/list parameter
                return True
        return False

    seen = set()

    def walk(path, cur, o):
        if isinstance(cur, SObj):
            if id(cur) in seen:
                return
            seen.add(id(cur))
            if not isinstance(o, SObj):
                return
            for k, ov in o.f.items():
                p = "%s.%s" % (path, k)
                if allowed(p):
                    continue
                cv = cur.f.get(k, None)
                if k not in cur.f:
                    ctx.oblige("frame:%s" % p, False, "field deleted")
                    continue
                if hasattr(cv, "dom") and hasattr(ov, "dom") and hasattr(cv, "val"):
                    ctx.oblige("frame:%s" % p, z3.And(cv.dom == ov.dom, cv.val == ov.val))
                elif isinstance(cv, SObj) and isinstance(ov, SObj):
                    walk(p, cv, ov)
                elif isinstance(cv, dict) and isinstance(ov, dict) or (isinstance(cv, list) and isinstance(ov, list)):
                    walk(p, cv, ov)
                elif isinstance(cv, SList) or isinstance(ov, SBytes) and isinstance(cv, SList):
                    ctx.oblige("frame:%s" % p, equal(I, cv.snapshot(), ov))
                elif isinstance(cv, (SObj,)) or isinstance(ov, SObj):
                    ctx.oblige("frame:%s" % p, False, "object replaced")
                else:
                    try:
                        ctx.oblige("frame:%s" % p, equal(I, cv, ov))
                    except SymError:
                        ctx.oblige("frame:%s" % p, cv is ov)
            for k in cur.f:
                if k not in o.f:
                    p = "%s.%s" % (path, k)
                    if not allowed(p):
                        ctx.oblige("frame:%s" % p, False, "new field written")
        elif isinstance(cur, SList):
            if not allowed(path):
                ctx.oblige("frame:%s" % path, equal(I, cur.snapshot(), o))
        elif isinstance(cur, dict) and isinstance(o, dict):
            if allowed(path):
                return
            if set(cur.keys()) != set(o.keys()):
                ctx.oblige("frame:%s" % path, False, "dict keys changed")
                return
            for k in cur:
                leaf(path + "[%r]" % (k,), cur[k], o[k])
        elif isinstance(cur, (list, tuple)) and isinstance(o, (list, tuple)):
            if allowed(path):
                return
            if len(cur) != len(o):
                ctx.oblige("frame:%s" % path, False, "length changed")
                return
            for i, (a, b) in enumerate(zip(cur, o)):
                leaf(path + "[%d]" % i, a, b)

    def leaf(p, cv, ov):
        if allowed(p):
            return
        if hasattr(cv, "dom") and hasattr(ov, "dom") and hasattr(cv, "val"):
            ctx.oblige("frame:%s" % p, z3.And(cv.dom == ov.dom, cv.val == ov.val))
            return
        if isinstance(cv, (SObj, SList, dict, list, tuple)) and not (isinstance(cv, tuple) and not any(isinstance(x, (SObj, dict, list)) for x in cv)):
            walk(p, cv, ov)
            return
        try:
            ctx.oblige("frame:%s" % p, equal(I, cv, ov))
        except SymError:
            ctx.oblige("frame:%s" % p, cv is ov)

    for name, v in bound.items():
        walk(name, v, getattr(old, name))


# ---------------------------------------------------------------------------
def _consts(e):
    out, stack, seen = [], [e], set()
    while stack:
        t = stack.pop()
        if t.get_id() in seen:
            continue
        seen.add(t.get_id())
        if z3.is_quantifier(t):
            stack.append(t.body())
        elif z3.is_const(t) and t.decl().kind() == z3.Z3_OP_UNINTERPRETED:
            out.append(t)
        elif z3.is_app(t):
            stack.extend(t.children())
    return out


class LemmaCtx:
    """Context handed to @lemma functions: contracts are used as the only
    knowledge about the functions (modular)."""

    def __init__(self, registry, timeout_ms):
        self.ctx = Ctx([], timeout_ms)
        self.registry = registry
        self.used = []
        self.I = Interp(self.ctx, registry)

    def fresh(self, sort, name):
        v = sort.fresh(self.ctx, name)
        self.ctx.inputs[name] = (sort, v)
        return v

    def assume(self, f):
        self.ctx.assume(f)

    def call(self, key, *args):
        c = self.registry[key]
        self.used.append(key)
        names = list(c.params.keys())
        bound = OrderedDict(zip(names, args))
        for cname, fn in c.requires:
            self.ctx.oblige("lemma-call-pre:%s:%s" % (c.short, cname), c.apply(fn, bound))
        old = c.snapshot(bound)
        if c.result_fn is not None:
            result = c.apply(c.result_fn[1], dict(bound, old=old))
        else:
            result = c.result.fresh(self.ctx, "ret_" + c.short.split(".")[-1])
        for cname, fn in c.ensures:
            self.ctx.assume(c.apply(fn, dict(bound, old=old, result=result)))
        return result

    def prove_known(self, name, goal, finding_id, outside=None):
        """A statement recorded as finding `finding_id`: it is known to fail; the
        part of it that holds is proved by the lemma step named in `outside`.
        Reports the finding while the unrestricted statement is still refutable
        (a timeout counts as 'still present': no alarm is raised on it)."""
        self.ctx.solver.push()
        self.ctx.solver.add(z3.Not(L.to_z3(goal)))
        r = self.ctx._check()
        self.ctx.solver.pop()
        if r != z3.unsat:
            self.ctx.results.append(dict(name=name + "[%s]" % finding_id, status="known", backend="z3", seconds=0.0,
                                         known_ids=[finding_id], model=None))
        else:
            self.ctx.results.append(dict(name=name + "[%s]" % finding_id, status="unsat", backend="z3", seconds=0.0))

    def prove(self, name, goal, keep=False):
        """Prove `goal`; with keep=True it is available to later steps (hint)."""
        self.ctx.oblige(name, goal, keep=keep)
        if self.ctx.results and self.ctx.results[-1]["status"] == "unsat" and isinstance(goal, z3.ExprRef):
            self.__dict__.setdefault("proved", []).append(goal)

    def instantiate(self, step, subst):
        """an instance of a step proved for unconstrained fresh reals (which are implicitly universally quantified)"""
        proved = self.__dict__.get("proved", [])
        if not any(step.eq(p) for p in proved):
            raise SymError("instantiate: not a proved step")
        for v, _t in subst:
            if not (z3.is_const(v) and v.decl().kind() == z3.Z3_OP_UNINTERPRETED):
                raise SymError("instantiate: %s is not a variable" % v)
            for a in self.ctx.solver.assertions():
                if v.decl().name() in [d.decl().name() for d in _consts(a)]:
                    raise SymError("instantiate: %s is constrained by the context" % v)
        inst = z3.substitute(step, *[(v, L.to_z3(t)) for v, t in subst])
        proved.append(inst)
        return inst

    def derive(self, name, goal, hints, abstract):
        """Prove `goal` from steps already proved in this lemma (`hints`, each must be one of them) after replacing the terms in
        `abstract` by fresh constants everywhere.  Validity of the generalised implication gives validity of the instance; the
        context's other assumptions are not used (dropping assumptions is sound)."""
        t0 = time.time()
        proved = self.__dict__.get("proved", [])
        for h in hints:
            if not any(h.eq(p) for p in proved):
                raise SymError("derive %s: a hint is not a proved step of this lemma" % name)
        subs = [(L.to_z3(t), z3.Real("abs!%d" % i)) for i, t in enumerate(abstract)]
        s = z3.Solver()
        s.set("timeout", self.ctx.timeout_ms)
        for h in hints:
            s.add(z3.substitute(h, *subs))
        s.add(z3.Not(z3.substitute(L.to_z3(goal), *subs)))
        r = s.check()
        self.ctx.results.append(dict(name=name, status=str(r), backend="z3(abstracted)", model=None, info="", seconds=round(time.time() - t0, 4), decisions=[]))
        if r == z3.unsat:
            proved.append(goal)


def run_lemma(lem, registry, timeout_ms=10000):
    t0 = time.time()
    out = dict(key="lemma:" + lem.name, props=lem.props, obligations=[], error=None, paths=1, notes=[lem.note] if lem.note else [])
    L.reset_fresh()
    lc = LemmaCtx(registry, timeout_ms)
    try:
        lem.fn(lc)
    except SymError as e:
        out["error"] = "out of subset: %s" % e
    except PathEnd:
        out["error"] = "vacuous: lemma assumptions inconsistent"
    if out["error"] is None:
        # vacuity guard: what the lemma assumed (sort invariants, lc.assume, kept hints) must be satisfiable
        chk = z3.Solver()
        chk.set("timeout", 5000)
        chk.add(lc.ctx.solver.assertions())
        if chk.check() == z3.unsat:
            out["error"] = "vacuous: lemma assumptions inconsistent"
    obls = OrderedDict()
    for r in lc.ctx.results:
        nm = "lemma:%s:%s" % (lem.name, r["name"])
        r = dict(r, name=nm)
        obls.setdefault(nm, OblResult(nm)).add(r)
    out["obligations"] = [o.to_json() for o in obls.values()]
    out["uses_contracts"] = sorted(set(lc.used))
    out["solver_seconds"] = lc.ctx.solver_time
    out["solver_checks"] = lc.ctx.nchecks
    out["seconds"] = round(time.time() - t0, 3)
    if not out["obligations"] and not out["error"]:
        out["error"] = "vacuous: lemma proved nothing"
    return out


# ---------------------------------------------------------------------------
# native execution: cross-check and replay
class WithTrace:
    """Return value of a contract's `native` runner that also recorded calls."""

    def __init__(self, result, trace):
        self.result, self.trace = result, trace


class NativeOutcome:
    trace = None

    def __init__(self):
        self.args = None
        self.old = None
        self.result = None
        self.exc = None


def native_run(c, conc):
    """Run the real function on concrete inputs given in contract shape."""
    o = NativeOutcome()
    native = OrderedDict((k, c.params[k].to_native(copy.deepcopy(v))) for k, v in conc.items() if k in c.params)
    o.old = NS(copy.deepcopy(dict(native)))
    o.args = native
    try:
        if c.native is None and c.scenario:
            g = dict(real_module(c.modname).__dict__)
            exec(compile(c.scenario, "<scenario>", "exec"), g)
            name = scenario_info(c).node.name
            o.result = g[name](*native.values())
        elif c.native is not None:
            o.result = c.native(native)
            if isinstance(o.result, WithTrace):
                o.trace = o.result.trace
                o.result = o.result.result
        elif c.fragment is not None:
            import ast as _ast
            fi = get_function(c.modname, c.qualname)
            node = c.fragment["select"](fi.node)
            g = dict(real_module(c.modname).__dict__)
            env = dict(native)
            if c.fragment["mode"] == "expr":
                g2 = dict(g)
                g2.update(env)      # comprehensions inside the fragment resolve free names in globals
                o.result = eval(compile(_ast.fix_missing_locations(_ast.Expression(body=node)), "<fragment>", "eval"), g2)
            else:
                exec(compile(_ast.fix_missing_locations(_ast.Module(body=list(node), type_ignores=[])), "<fragment>", "exec"), g, env)
                o.args = OrderedDict(env)
        else:
            f = resolve_object(c.modname, c.qualname)
            r = f(*native.values())
            if inspect.isgenerator(r):
                r = list(r)
            o.result = r
    except BaseException as e:  # noqa: BLE001 - the real code may raise anything
        if isinstance(e, (KeyboardInterrupt, SystemExit)):
            raise
        o.exc = e
    return o


def concrete_check(c, conc):
    """Evaluate the contract on a native run.  Returns list of violated clause
    names (empty = fine), or None if `conc` does not satisfy requires."""
    try:
        for cname, fn in c.requires:
            pre_env = dict(conc)
            pre_env["old"] = NS(dict(conc))
            if not _truth(c.apply(fn, pre_env)):
                return None
    except Exception:
        return None
    o = native_run(c, conc)
    bad = []
    if o.exc is not None:
        allowed = None
        for acls, cond in c.raises.items():
            if isinstance(o.exc, acls):
                allowed = (acls, cond)
        if allowed is None:
            bad.append(("no-raise:%s" % type(o.exc).__name__, "%s: %s" % (type(o.exc).__name__, o.exc)))
        elif allowed[1] is not None:
            try:
                if not _truth(c.apply(allowed[1], dict(o.old.__dict__, old=o.old, **{k: v for k, v in conc.items() if k in c.ghosts}))):
                    bad.append(("raises-only-if:%s" % allowed[0].__name__, str(o.exc)))
            except Exception as e:
                bad.append(("raises-only-if:%s" % allowed[0].__name__, "clause not evaluable: %s" % e))
        return bad
    env = dict(o.args, old=o.old, result=o.result, ctx=None)
    if o.trace is not None:
        env["trace"] = o.trace
    env.update({k: v for k, v in conc.items() if k in c.ghosts})
    for cname, fn in c.ensures:
        try:
            ok = _truth(c.apply(fn, env))
        except Exception as e:
            ok = False
            bad.append(("ensures:%s" % cname, "clause raised %s: %s on result %r" % (type(e).__name__, e, o.result)))
            continue
        if not ok:
            bad.append(("ensures:%s" % cname, "result %r" % (o.result,)))
    for cls, fn in c.raises_iff.items():
        if _truth(c.apply(fn, dict(o.old.__dict__, old=o.old))):
            bad.append(("raises-iff:%s" % cls.__name__, "did not raise"))
    return bad


def _truth(v):
    if isinstance(v, z3.ExprRef):
        s = z3.simplify(v)
        if z3.is_true(s):
            return True
        if z3.is_false(s):
            return False
        raise ValueError("clause not ground on concrete values: %s" % s)
    return bool(v)


def crosscheck(c, n, seed):
    """CPython cross-check: real function vs contract on sampled inputs."""
    rng = random.Random(seed ^ hash(c.key) & 0xFFFFFF)
    out = dict(key=c.key, evaluations=0, skipped=0, violations=[], error=None)
    if c.abstract or getattr(c, "skip_cross", False):
        return out
    tries = 0
    while out["evaluations"] < n and tries < n * 20:
        tries += 1
        conc = OrderedDict((k, s.sample(rng)) for k, s in c.params.items())
        conc.update((k, s.sample(rng)) for k, s in c.ghosts.items())
        if c.samples_hint is not None:
            conc = c.samples_hint(rng, conc) or conc
        try:
            bad = concrete_check(c, conc)
        except Exception as e:
            out["error"] = "cross-check harness error: %s" % "".join(traceback.format_exception_only(type(e), e)).strip()
            break
        if bad is None:
            out["skipped"] += 1
            continue
        out["evaluations"] += 1
        if bad:
            out["violations"].append(dict(inputs=_json(dict(conc)), clauses=[list(b) for b in bad]))
            if len(out["violations"]) >= 3:
                break
    return out


def replay_model(c, model, clause_name):
    """Replay a solver model on the real code. Returns (reproduced, detail)."""
    if model is None:
        return False, "no model"
    if getattr(c, "skip_cross", False) and c.native is None:
        return False, "this contract has no native replay harness (its dependencies are abstract stubs); the solver model is attached"
    conc = OrderedDict()
    for k in list(c.params) + list(c.ghosts):
        v = model.get(k)
        if isinstance(v, str) and v.startswith("<undecodable"):
            return False, v
        conc[k] = v
    try:
        bad = concrete_check(c, conc)
    except Exception as e:
        return False, "replay harness error: %s" % e
    if bad is None:
        return False, "model does not satisfy requires natively (non-dyadic or approximated values)"
    if not bad:
        return False, "real code satisfies the contract on the model's inputs"
    names = [b[0] for b in bad]
    return True, dict(inputs=_json(dict(conc)), violated=[list(b) for b in bad],
                      same_clause=any(n == clause_name or clause_name.startswith(n) for n in names))
