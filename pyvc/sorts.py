"""Sort descriptors for contract parameters.

Each descriptor can (a) create a fresh symbolic value, (b) draw concrete
samples for the CPython cross-check, (c) read a concrete value back out of a
solver model for replay, (d) turn the concrete value into the native argument
the real function expects.
"""
from __future__ import annotations

import random
from fractions import Fraction

import z3

from . import logic as L
from .values import SBytes, SList, SObj, SOpaque


class CObj:
    """Concrete stand-in for an object in 'contract shape' (plain namespace)."""

    def __init__(self, cls=None, **f):
        self.__dict__["_cls"] = cls
        self.__dict__.update(f)

    def __repr__(self):
        return "CObj(%s)" % ", ".join("%s=%r" % kv for kv in self.__dict__.items() if kv[0] != "_cls")


class Sort:
    def fresh(self, ctx, name):
        raise NotImplementedError

    def sample(self, rng):
        raise NotImplementedError

    def from_model(self, ev, v):
        """ev: function term -> concrete python value (model evaluation)."""
        raise NotImplementedError

    def to_native(self, c):
        return c

    def jsonable(self, c):
        return _json(c)


def _json(c):
    if isinstance(c, Fraction):
        return {"frac": [c.numerator, c.denominator]}
    if isinstance(c, bytes):
        return {"bytes": c.hex()}
    if isinstance(c, (list, tuple)):
        return [_json(x) for x in c]
    if isinstance(c, dict):
        return {str(k): _json(v) for k, v in c.items()}
    if isinstance(c, CObj):
        return {k: _json(v) for k, v in c.__dict__.items() if k != "_cls"}
    if isinstance(c, (int, float, str, bool)) or c is None:
        return c
    return repr(c)


class Int(Sort):
    def __init__(self, lo=None, hi=None, samples=None):
        self.lo, self.hi, self.samples = lo, hi, samples

    def fresh(self, ctx, name):
        v = ctx.fresh_int(name)
        if self.lo is not None:
            ctx.assume(v >= self.lo)
        if self.hi is not None:
            ctx.assume(v <= self.hi)
        return v

    def sample(self, rng):
        if self.samples and rng.random() < 0.5:
            return rng.choice(self.samples)
        lo = self.lo if self.lo is not None else -1000
        hi = self.hi if self.hi is not None else 1000
        if rng.random() < 0.3:
            return rng.choice([lo, hi, min(max(0, lo), hi), min(max(1, lo), hi)])
        if rng.random() < 0.5:
            return rng.randint(max(lo, -8), min(hi, 8)) if max(lo, -8) <= min(hi, 8) else rng.randint(lo, hi)
        return rng.randint(lo, hi)

    def from_model(self, ev, v):
        return int(ev(v))


class Real(Sort):
    """A Python number treated as a mathematical real (A-REAL).  Samples and
    model values are dyadic rationals so that CPython floats/Fractions evaluate
    them exactly."""

    def __init__(self, lo=None, hi=None, as_float=False):
        self.lo, self.hi, self.as_float = lo, hi, as_float

    def fresh(self, ctx, name):
        v = ctx.fresh_real(name)
        if self.lo is not None:
            ctx.assume(v >= self.lo)
        if self.hi is not None:
            ctx.assume(v <= self.hi)
        return v

    def sample(self, rng):
        lo = self.lo if self.lo is not None else -64
        hi = self.hi if self.hi is not None else 64
        r = rng.random()
        if r < 0.15:
            return Fraction(rng.choice([lo, hi, 0, 1, -1])) if lo <= 0 <= hi else Fraction(lo)
        if r < 0.5:
            x = Fraction(rng.randint(int(lo), int(hi)))
        else:
            x = Fraction(rng.randint(int(lo) * 8, int(hi) * 8), 8)
        return min(max(x, Fraction(lo)), Fraction(hi))

    def from_model(self, ev, v):
        return Fraction(ev(v))

    def to_native(self, c):
        return float(c) if self.as_float else c


class Bool(Sort):
    def fresh(self, ctx, name):
        return ctx.fresh_bool(name)

    def sample(self, rng):
        return rng.random() < 0.5

    def from_model(self, ev, v):
        return bool(ev(v))


class Const(Sort):
    def __init__(self, value):
        self.value = value

    def fresh(self, ctx, name):
        return self.value

    def sample(self, rng):
        return self.value

    def from_model(self, ev, v):
        return self.value


class OneOf(Sort):
    """One of finitely many concrete values: the verifier forks per value."""

    def __init__(self, *values):
        self.values = values

    def fresh(self, ctx, name):
        return ctx.choose(self.values, name)

    def sample(self, rng):
        return rng.choice(self.values)

    def from_model(self, ev, v):
        return v


class Tup(Sort):
    def __init__(self, *elts, as_list=False):
        self.elts = elts
        self.as_list = as_list

    def fresh(self, ctx, name):
        r = [s.fresh(ctx, "%s_%d" % (name, i)) for i, s in enumerate(self.elts)]
        return r if self.as_list else tuple(r)

    def sample(self, rng):
        r = [s.sample(rng) for s in self.elts]
        return r if self.as_list else tuple(r)

    def from_model(self, ev, v):
        r = [s.from_model(ev, x) for s, x in zip(self.elts, v)]
        return r if self.as_list else tuple(r)

    def to_native(self, c):
        r = [s.to_native(x) for s, x in zip(self.elts, c)]
        return r if self.as_list else tuple(r)


def RealTup(n, **kw):
    return Tup(*[Real(**kw) for _ in range(n)])


class Bytes(Sort):
    """Symbolic byte string of symbolic length (samples up to maxlen)."""

    def __init__(self, maxlen=12, minlen=0, alphabet=None):
        self.maxlen, self.minlen, self.alphabet = maxlen, minlen, alphabet

    def fresh(self, ctx, name):
        arr = z3.Array(ctx.fresh_name(name), z3.IntSort(), z3.IntSort())
        n = ctx.fresh_int(name + "_len")
        ctx.assume(n >= self.minlen)
        q = z3.Int(ctx.fresh_name("q"))
        ctx.assume(z3.ForAll([q], z3.And(z3.Select(arr, q) >= 0, z3.Select(arr, q) < 256)))
        return SBytes.from_array(arr, n)

    def sample(self, rng):
        n = rng.randint(self.minlen, self.maxlen)
        if self.alphabet:
            return bytes(rng.choice(self.alphabet) for _ in range(n))
        return bytes(rng.choice([0, 1, 2, 3, 4, 127, 128, 255, rng.randrange(256)]) for _ in range(n))

    def from_model(self, ev, v):
        n = int(ev(v.n))
        n = max(0, min(n, 4096))
        return bytes(int(ev(v.at(k))) % 256 for k in range(n))


class IntList(Sort):
    """Mutable list of ints of symbolic length."""

    def __init__(self, maxlen=8, elem=(0, 256)):
        self.maxlen, self.elem = maxlen, elem

    def fresh(self, ctx, name):
        arr = z3.Array(ctx.fresh_name(name), z3.IntSort(), z3.IntSort())
        n = ctx.fresh_int(name + "_len")
        ctx.assume(n >= 0)
        if self.elem:
            q = z3.Int(ctx.fresh_name("q"))
            ctx.assume(z3.ForAll([q], z3.And(z3.Select(arr, q) >= self.elem[0], z3.Select(arr, q) < self.elem[1])))
        return SList(arr, n, self.elem)

    def sample(self, rng):
        lo, hi = self.elem if self.elem else (-5, 6)
        return [rng.randrange(lo, hi) for _ in range(rng.randint(0, self.maxlen))]

    def from_model(self, ev, v):
        n = max(0, min(int(ev(v.n)), 4096))
        return [int(ev(v.at(k))) for k in range(n)]


class Obj(Sort):
    """Record with the given fields; `cls` is 'module:Class' of the real class
    (resolved lazily) used for method lookup and for native construction."""

    def __init__(self, cls=None, **fields):
        self.cls_path = cls
        self.fields = fields

    def cls(self):
        if self.cls_path is None:
            return None
        if not isinstance(self.cls_path, str):
            return self.cls_path
        from .extract import real_module

        mod, qn = self.cls_path.split(":")
        o = real_module(mod)
        for p in qn.split("."):
            o = getattr(o, p)
        return o

    def fresh(self, ctx, name):
        return SObj(self.cls(), {k: s.fresh(ctx, "%s.%s" % (name, k)) for k, s in self.fields.items()}, name)

    def sample(self, rng):
        return CObj(self.cls(), **{k: s.sample(rng) for k, s in self.fields.items()})

    def from_model(self, ev, v):
        return CObj(self.cls(), **{k: s.from_model(ev, v.f[k]) for k, s in self.fields.items()})

    def to_native(self, c):
        cls = self.cls()
        if cls is None:
            o = CObj()
        else:
            o = cls.__new__(cls)
        for k, s in self.fields.items():
            try:
                object.__setattr__(o, k, s.to_native(getattr(c, k)))
            except AttributeError:
                o.__dict__[k] = s.to_native(getattr(c, k))
        return o


class Opaque(Sort):
    def __init__(self, name="opaque", native=None):
        self.name = name
        self.native = native

    def fresh(self, ctx, name):
        return SOpaque(name)

    def sample(self, rng):
        return self.native() if callable(self.native) else self.native

    def from_model(self, ev, v):
        return self.native() if callable(self.native) else self.native


class Operand(Sort):
    """A PDF operand: a number (modelled as a real) or an ill-typed value
    (None, or a name-like byte string that float()/int() reject)."""

    def __init__(self, bad=(None, b"x"), integral=False):
        self.bad = bad
        self.integral = integral

    def fresh(self, ctx, name):
        if ctx.choose([True, False], name + "-is-number"):
            return ctx.fresh_int(name) if self.integral else ctx.fresh_real(name)
        return ctx.choose(list(self.bad), name + "-bad") if len(self.bad) > 1 else self.bad[0]

    def sample(self, rng):
        if rng.random() < 0.8:
            if self.integral:
                return rng.randint(-9, 9)
            return Fraction(rng.randint(-64, 64), rng.choice([1, 2, 4, 8]))
        return rng.choice(self.bad)

    def from_model(self, ev, v):
        if isinstance(v, z3.ExprRef):
            return int(ev(v)) if self.integral else Fraction(ev(v))
        return v


def is_number(v):
    """contract-side test usable on symbolic and concrete operands"""
    if isinstance(v, z3.ExprRef):
        return True
    return isinstance(v, (int, float, Fraction)) and not isinstance(v, bool)


class IntMap(Sort):
    """dict with integer keys and numeric values, symbolic keys (z3 arrays)"""

    def __init__(self, real=True, maxkeys=4):
        self.real, self.maxkeys = real, maxkeys

    def fresh(self, ctx, name):
        from .values import SMap
        dom = z3.Array(ctx.fresh_name(name + "_dom"), z3.IntSort(), z3.BoolSort())
        val = z3.Array(ctx.fresh_name(name + "_val"), z3.IntSort(), z3.RealSort() if self.real else z3.IntSort())
        m = SMap(dom, val)
        m._keys_hint = [ctx.fresh_int(name + "_k%d" % i) for i in range(self.maxkeys)]
        return m

    def sample(self, rng):
        return {rng.randint(0, 12): Fraction(rng.randint(0, 8)) for _ in range(rng.randint(0, self.maxkeys))}

    def from_model(self, ev, v):
        out = {}
        for k in range(-2, 40):
            if ev(v.has(k)):
                out[k] = Fraction(ev(v.get(k))) if self.real else int(ev(v.get(k)))
        return out

    def jsonable(self, c):
        return {str(k): _json(x) for k, x in c.items()}

    def reshape(self, v):
        if hasattr(v, "__dict__") and not isinstance(v, dict):
            v = {k: x for k, x in v.__dict__.items() if k != "_cls"}
        return {int(k): x for k, x in v.items()}


class Str(Sort):
    """a symbolic text string (z3 string theory; kept quantifier-free by the contracts that use it)"""

    def __init__(self, samples=None):
        self.samples = samples or ["Identity-H", "../x", "/tmp/evil", "a/b", "", "UniJIS", "..", "x\0y", "90ms-RKSJ-H"]

    def fresh(self, ctx, name):
        return z3.String(ctx.fresh_name(name))

    def sample(self, rng):
        return rng.choice(self.samples)

    def from_model(self, ev, v):
        return ev(v)
