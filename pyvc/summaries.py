"""Operator, builtin and library summaries for the symbolic executor.

Every summary is an *axiomatised* model of a CPython/library operation
(assumption A-LIB); `pyvc/canaries.py` evaluates each against the real
operation on boundary values at every run.
"""
from __future__ import annotations

import ast
import builtins
import math
import re
import struct
from fractions import Fraction

import z3

from . import logic as L
from .values import SBytes, SClosure, SIter, SIterator, SList, SMethod, SObj, SOpaque, SymError


def _sx():
    from . import symexec

    return symexec


PURE_MODULES = {"re", "math", "struct", "binascii", "string", "posixpath", "os", "itertools", "operator", "codecs", "html"}


def is_num(v):
    if isinstance(v, bool):
        return True
    if isinstance(v, (int, float, Fraction)):
        return True
    if isinstance(v, z3.ExprRef):
        return z3.is_int(v) or z3.is_real(v) or z3.is_bool(v)
    return False


def is_intlike(v):
    if isinstance(v, (bool, int)):
        return True
    if isinstance(v, z3.ExprRef):
        return z3.is_int(v) or z3.is_bool(v)
    return False


def as_sbytes(v):
    if isinstance(v, SBytes):
        return v
    if isinstance(v, (bytes, bytearray)):
        return SBytes.from_concrete(v)
    if isinstance(v, SList):
        return v.snapshot()
    return None


# ---------------------------------------------------------------------------
def binop(I, op, a, b, node, inplace=False):
    sx = _sx()
    if isinstance(a, (set, frozenset)) and isinstance(b, (set, frozenset)) and isinstance(op, (ast.BitOr, ast.BitAnd, ast.Sub, ast.BitXor)) \
            and not L.any_z3(list(a)) and not L.any_z3(list(b)):
        # concrete sets: native set algebra
        import operator
        return {ast.BitOr: operator.or_, ast.BitAnd: operator.and_, ast.Sub: operator.sub, ast.BitXor: operator.xor}[type(op)](a, b)
    INFS = (float("inf"), float("-inf"))
    if (isinstance(a, float) and a in INFS) or (isinstance(b, float) and b in INFS):
        # arithmetic with an infinity and a finite (possibly symbolic) number
        if is_num(a) and is_num(b):
            ai, bi = (a if isinstance(a, float) and a in INFS else None), (b if isinstance(b, float) and b in INFS else None)
            if isinstance(op, ast.Add) and (ai is None or bi is None or ai == bi):
                return ai if ai is not None else bi
            if isinstance(op, ast.Sub) and (ai is None or bi is None or ai != bi):
                return ai if ai is not None else -bi
        raise SymError("arithmetic with infinity: " + sx._txt(node))
    if isinstance(a, float):
        a = Fraction(repr(a))
    if isinstance(b, float):
        b = Fraction(repr(b))
    if is_num(a) and is_num(b):
        a = I.numeric(a)
        b = I.numeric(b)
        sym = L.any_z3(a, b)
        if isinstance(op, ast.Add):
            return a + b
        if isinstance(op, ast.Sub):
            return a - b
        if isinstance(op, ast.Mult):
            return a * b
        if isinstance(op, ast.Div):
            if not I.ctx.branch(L.ne(b, 0)):
                raise sx.SymRaise(ZeroDivisionError, sx._txt(node))
            if not sym:
                return Fraction(a) / Fraction(b)
            a2, b2 = L.to_z3(a), L.to_z3(b)
            if z3.is_int(a2):
                a2 = z3.ToReal(a2)
            if z3.is_int(b2):
                b2 = z3.ToReal(b2)
            return a2 / b2
        if isinstance(op, (ast.FloorDiv, ast.Mod)):
            if not I.ctx.branch(L.ne(b, 0)):
                raise sx.SymRaise(ZeroDivisionError, sx._txt(node))
            if not sym:
                return a // b if isinstance(op, ast.FloorDiv) else a % b
            if not (is_intlike(a) and is_intlike(b)):
                # real floor division
                a2, b2 = L._unify(a, b)
                q = z3.ToInt(z3.ToReal(a2) / z3.ToReal(b2) if z3.is_int(a2) else a2 / b2)
                if isinstance(op, ast.FloorDiv):
                    return z3.ToReal(q)
                return a2 - b2 * z3.ToReal(q)
            return L.floordiv(a, b) if isinstance(op, ast.FloorDiv) else L.mod(a, b)
        if isinstance(op, ast.Pow):
            if isinstance(b, int) and 0 <= b <= 8:
                r = 1
                for _ in range(b):
                    r = r * a
                return r
            if not sym:
                return a ** b
            if isinstance(a, int) and a == 2 and is_intlike(b):
                raise SymError("2**symbolic")
            raise SymError("symbolic power")
        if isinstance(op, ast.LShift):
            if isinstance(b, int):
                return a * (1 << b)
            if not sym:
                return a << b
            raise SymError("symbolic shift amount")
        if isinstance(op, ast.RShift):
            if isinstance(b, int):
                return L.floordiv(a, 1 << b)
            raise SymError("symbolic shift amount")
        if isinstance(op, (ast.BitAnd, ast.BitOr, ast.BitXor)):
            if not sym:
                return {ast.BitAnd: int.__and__, ast.BitOr: int.__or__, ast.BitXor: int.__xor__}[type(op)](a, b)
            return bitop(I, op, a, b, node)
        raise SymError("numeric operator %s" % type(op).__name__)
    # sequences ------------------------------------------------------------
    if isinstance(op, ast.Add):
        if isinstance(a, (str,)) and isinstance(b, str):
            return a + b
        if isinstance(a, tuple) and isinstance(b, tuple):
            return a + b
        if isinstance(a, list) and isinstance(b, (list,)):
            if inplace:
                I.note_write(a)
                a.extend(b)
                return a
            return a + b
        from .absval import BT as _BT2
        if isinstance(a, _BT2) or isinstance(b, _BT2):
            return _BT2.cat(a, b)
        sa, sb = as_sbytes(a), as_sbytes(b)
        if sa is not None and sb is not None and not (isinstance(a, bytes) and isinstance(b, bytes)):
            return sbytes_concat(sa, sb)
        if isinstance(a, bytes) and isinstance(b, bytes):
            return a + b
        if isinstance(a, z3.ExprRef) and z3.is_string(a) or isinstance(b, z3.ExprRef) and z3.is_string(b):
            return z3.Concat(_zs(a), _zs(b))
    if isinstance(op, ast.Mult):
        if isinstance(a, (str, bytes, list, tuple)) and isinstance(b, int):
            return a * b
        if isinstance(b, (str, bytes, list, tuple)) and isinstance(a, int):
            return a * b
        if isinstance(a, (bytes, list)) and L.is_z3(b) and len(a) == 1:
            # b"\x00" * n  /  [x] * n : constant sequence of symbolic length
            x = a[0]
            n = z3.If(b > 0, b, 0)
            I.ctx.notes.add("seq * symbolic n")
            return SBytes(z3.simplify(n), lambda k, x=x: L.to_z3(L.num(x)), (0, 256) if isinstance(a, bytes) else None,
                          "bytes" if isinstance(a, bytes) else "list")
    if isinstance(op, ast.Mult) and isinstance(a, SBytes) and isinstance(a.n, int) and a.n == 1 and L.is_z3(b):
        x = a.at(0)
        n = z3.simplify(z3.If(b > 0, b, 0))
        return SBytes(n, lambda k, x=x: L.to_z3(x), a.elem_range, a.kind)
    if isinstance(op, ast.Mod) and isinstance(a, (str, bytes)):
        return str_format(I, a, b, node)
    hook = getattr(a, "__sym_binop__", None)
    if hook:
        return hook(I, op, b, node)
    from .absval import BT as _BT
    if isinstance(b, _BT) and isinstance(op, ast.Add):
        return _BT.cat(a, b)
    raise SymError("binop %s on %s, %s (%s)" % (type(op).__name__, type(a).__name__, type(b).__name__, sx._txt(node)))


def _zs(x):
    return z3.StringVal(x) if isinstance(x, str) else x


def sbytes_concat(a, b):
    n1, n2 = a.n, b.n
    if isinstance(n1, int) and n1 == 0:
        return b
    if isinstance(n2, int) and n2 == 0:
        return a

    def at(k):
        if isinstance(k, int) and isinstance(n1, int):
            return a.at(k) if k < n1 else b.at(k - n1)
        return z3.If(L.to_z3(k) < n1, L.to_z3(a.at(k)), L.to_z3(b.at(k - n1)))

    er = a.elem_range if a.elem_range == b.elem_range else None
    n = n1 + n2
    if isinstance(n, z3.ExprRef):
        n = z3.simplify(n)
    return SBytes(n, at, er, a.kind)


def bitop(I, op, a, b, node):
    """Bit operations on ints with at least one symbolic operand."""
    sx = _sx()
    # x & (2^k - 1)  ==  x mod 2^k   (exact for all ints, two's complement)
    if isinstance(op, ast.BitAnd):
        for x, m in ((a, b), (b, a)):
            if isinstance(m, int) and m >= 0 and (m & (m + 1)) == 0:
                return L.mod(x, m + 1)
    # general case: both operands must be provably within [0, 2^w)
    w = None
    for cand in (8, 16, 32):
        lim = 1 << cand
        ok = True
        for x in (a, b):
            if isinstance(x, int):
                ok = ok and 0 <= x < lim
            elif x.get_id() in I.ctx.known_bytes:
                ok = ok and True
            else:
                I.ctx.solver.push()
                I.ctx.solver.add(z3.Not(z3.And(x >= 0, x < lim)))
                r = I.ctx._check()
                I.ctx.solver.pop()
                ok = ok and (r == z3.unsat)
        if ok:
            w = cand
            break
    if w is None:
        raise SymError("bit operation on unbounded ints: %s" % sx._txt(node))
    ba = z3.Int2BV(L.to_z3(a), w)
    bb = z3.Int2BV(L.to_z3(b), w)
    r = {ast.BitAnd: ba & bb, ast.BitOr: ba | bb, ast.BitXor: ba ^ bb}[type(op)]
    out = z3.BV2Int(r, False)
    if w <= 8:
        I.ctx.known_bytes.add(out.get_id())
    return out


# ---------------------------------------------------------------------------
def compare(I, op, a, b, node):
    sx = _sx()
    if isinstance(op, (ast.Is, ast.IsNot)):
        r = identical(a, b)
        return r if isinstance(op, ast.Is) else L.Not(r)
    if isinstance(op, (ast.In, ast.NotIn)):
        r = contains(I, b, a, node)
        return r if isinstance(op, ast.In) else L.Not(r)
    if isinstance(op, (ast.Eq, ast.NotEq)):
        r = equal(I, a, b, node)
        return r if isinstance(op, ast.Eq) else L.Not(r)
    if is_num(a) and is_num(b):
        a, b = I.numeric(a), I.numeric(b)
        if isinstance(op, ast.Lt):
            return L.lt(a, b)
        if isinstance(op, ast.LtE):
            return L.le(a, b)
        if isinstance(op, ast.Gt):
            return L.lt(b, a)
        if isinstance(op, ast.GtE):
            return L.le(b, a)
    if not L.any_z3(a, b) and type(a) == type(b) and isinstance(a, (str, bytes, tuple, list)):
        return {ast.Lt: a < b, ast.LtE: a <= b, ast.Gt: a > b, ast.GtE: a >= b}[type(op)]
    if a is None or b is None:
        raise sx.SymRaise(TypeError, "ordering with None: " + sx._txt(node))
    raise SymError("comparison %s on %s,%s" % (type(op).__name__, type(a).__name__, type(b).__name__))


def identical(a, b):
    if a is None or b is None:
        if a is None and b is None:
            return True
        other = b if a is None else a
        if hasattr(other, "__sym_is_none__"):
            return other.__sym_is_none__()
        return False
    if isinstance(a, (SObj, SList, list, dict, SOpaque)) or isinstance(b, (SObj, SList, list, dict, SOpaque)):
        return a is b
    if isinstance(a, bool) and isinstance(b, bool):
        return a == b
    if L.any_z3(a, b) and (is_num(a) and is_num(b)):
        if isinstance(a, bool) or isinstance(b, bool) or (L.is_z3(a) and z3.is_bool(a)) or (L.is_z3(b) and z3.is_bool(b)):
            if (isinstance(a, bool) or (L.is_z3(a) and z3.is_bool(a))) and (isinstance(b, bool) or (L.is_z3(b) and z3.is_bool(b))):
                return L.Iff(a, b)
            return False
        return L.eq(a, b)
    hook = getattr(a, "__sym_is__", None) or getattr(b, "__sym_is__", None)
    if hook:
        return hook(b if getattr(a, "__sym_is__", None) else a)
    return a is b


def equal(I, a, b, node=None):
    from .absval import BT as _BT, Undecided as _Und, bt_eq as _bt_eq
    if isinstance(a, _BT) or isinstance(b, _BT):
        r = _bt_eq(a, b)
        if isinstance(r, _Und):
            # a data-dependent comparison (e.g. a computed hash against a stored one): an uninterpreted outcome,
            # logged so that contracts can speak about it
            ok = I.ctx.choose([True, False], "bytes-equal?")
            I.ctx.choice_log.append(("bytes-eq", r.a, r.b, ok))
            return ok
        return r
    if is_num(a) and is_num(b):
        return L.eq(I.numeric(a), I.numeric(b))
    if a is None or b is None:
        return identical(a, b)
    sa, sb = as_sbytes(a), as_sbytes(b)
    if (isinstance(a, (SBytes, SList)) or isinstance(b, (SBytes, SList))) and sa is not None and sb is not None:
        return sbytes_eq(sa, sb)
    if isinstance(a, (tuple, list)) and isinstance(b, (tuple, list)):
        if type(a) != type(b) or len(a) != len(b):
            return False
        return L.And(*[equal(I, x, y, node) for x, y in zip(a, b)])
    if isinstance(a, (SObj, SOpaque)) or isinstance(b, (SObj, SOpaque)):
        return a is b
    if L.is_z3(a) and z3.is_string(a) or L.is_z3(b) and z3.is_string(b):
        if isinstance(a, str) or isinstance(b, str) or (L.is_z3(a) and L.is_z3(b)):
            return _zs(a) == _zs(b)
        return False
    hook = getattr(a, "__sym_eq__", None)
    if hook:
        return hook(I, b)
    hook = getattr(b, "__sym_eq__", None)
    if hook:
        return hook(I, a)
    if L.any_z3(a, b):
        return False if (is_num(a) != is_num(b)) else L.eq(a, b)
    return a == b


def sbytes_eq(a, b):
    if isinstance(a.n, int) and isinstance(b.n, int):
        if a.n != b.n:
            return False
        return L.And(*[L.eq(a.at(k), b.at(k)) for k in range(a.n)])
    if isinstance(b.n, int):
        return L.And(L.eq(a.n, b.n), *[L.eq(a.at(k), b.at(k)) for k in range(b.n)])
    if isinstance(a.n, int):
        return sbytes_eq(b, a)
    mx = getattr(a, "maxn", None)
    if mx is None:
        mx = getattr(b, "maxn", None)
    if mx is not None:
        return L.And(a.n == b.n, *[z3.Implies(a.n > k, L.to_z3(L.eq(a.at(k), b.at(k)))) for k in range(mx)])
    return L.And(a.n == b.n, L.ForAllInt(0, a.n, lambda k: L.eq(a.at(k), b.at(k))))


def contains(I, container, x, node):
    if isinstance(container, (tuple, list, set, frozenset)):
        return L.Or(*[equal(I, x, y, node) for y in container])
    if isinstance(container, dict):
        if isinstance(x, (SBytes,)):
            return L.Or(*[equal(I, x, k, node) for k in container])
        if L.is_z3(x):
            return L.Or(*[equal(I, x, k, node) for k in container if is_num(k)])
        try:
            return x in container
        except TypeError:
            return False
    if isinstance(container, (bytes, SBytes)) and isinstance(x, (bytes, SBytes)):
        sx_ = as_sbytes(x)
        c = as_sbytes(container)
        if isinstance(sx_.n, int) and sx_.n == 0:
            return True
        if isinstance(c.n, int):
            # sub-bytes of length 0/1 in a concrete container
            one = L.And(L.eq(sx_.n, 1), L.Or(*[L.eq(sx_.at(0), c.at(k)) for k in range(c.n)]))
            if isinstance(sx_.n, int) and sx_.n == 1:
                return one
            # length known to be 0 or 1 only through the path condition
            return L.Or(L.eq(sx_.n, 0), one)
        raise SymError("bytes containment with symbolic container")
    if isinstance(container, (bytes, SBytes)) and is_num(x):
        c = as_sbytes(container)
        if isinstance(c.n, int):
            return L.Or(*[L.eq(x, c.at(k)) for k in range(c.n)])
        return L.ExistsInt(0, c.n, lambda k: L.eq(x, c.at(k)))
    if isinstance(container, str) and isinstance(x, str):
        return x in container
    if isinstance(container, SIter) and isinstance(container.length, int):
        return L.Or(*[equal(I, x, container.item(k), node) for k in range(container.length)])
    hook = getattr(container, "__sym_contains__", None)
    if hook:
        return hook(I, x, node)
    if isinstance(container, SObj) and container.cls is not None and hasattr(container.cls, "__contains__"):
        return L.truth(I.call(class_attr(I, container, container.cls, "__contains__"), [x], {}, node))
    raise SymError("`in` on %s" % type(container).__name__)


# ---------------------------------------------------------------------------
def getattr_(I, obj, name, node):
    sx = _sx()
    if isinstance(obj, SObj):
        if name in obj.f:
            return obj.f[name]
        cls = obj.cls
        if cls is not None and hasattr(cls, name):
            return class_attr(I, obj, cls, name)
        raise sx.SymRaise(AttributeError, "%s.%s" % (obj.name, name))
    hook = getattr(obj, "__sym_getattr__", None)
    if hook:
        return hook(I, name, node)
    if isinstance(obj, sx.SExc):
        if name == "args":
            return obj.args
        raise SymError("exception attribute %s" % name)
    from .values import SMap as _SMap
    if isinstance(obj, (SBytes, SList, list, tuple, dict, set, bytes, str, sx.SMatch, SIterator, _SMap)) or L.is_z3(obj):
        return sx.SBoundBuiltin(obj, name)
    if isinstance(obj, (int, Fraction)) and not isinstance(obj, bool):
        return sx.SBoundBuiltin(obj, name)
    if isinstance(obj, SOpaque):
        raise SymError("attribute %s of opaque %s" % (name, obj.name))
    # real python object (module, class, pattern, ...)
    try:
        return getattr(obj, name)
    except AttributeError:
        raise sx.SymRaise(AttributeError, "%r.%s" % (obj, name))




def class_attr(I, obj, cls, name):
    import inspect

    raw = inspect.getattr_static(cls, name)
    if isinstance(raw, property):
        fi = _sx().function_of_object(raw.fget)
        if fi is None:
            raise SymError("property %s without source" % name)
        return I.call_function(fi, [obj])
    if isinstance(raw, staticmethod):
        return raw.__func__
    if isinstance(raw, classmethod):
        return SMethod(cls, raw.__func__, name)
    if inspect.isfunction(raw):
        return SMethod(obj, raw, name)
    return builtins.getattr(cls, name)


# ---------------------------------------------------------------------------
def subscript(I, obj, idx, node):
    sx = _sx()
    if isinstance(obj, (SBytes, SList)):
        s = obj if isinstance(obj, SBytes) else obj
        if isinstance(idx, slice):
            return sbytes_slice(I, as_sbytes(obj) if isinstance(obj, SBytes) else obj.snapshot(), idx, node)
        i = I.norm_index(obj.n, idx, node)
        return I.elem(obj, i)
    if isinstance(obj, (bytes,)) and (L.is_z3(idx) or (isinstance(idx, slice) and L.any_z3(idx.start, idx.stop))):
        return subscript(I, SBytes.from_concrete(obj), idx, node)
    if isinstance(obj, (list, tuple, str, bytes)):
        if isinstance(idx, slice):
            if L.any_z3(idx.start, idx.stop, idx.step):
                raise SymError("symbolic slice of concrete-length sequence: %s" % sx._txt(node))
            return obj[idx]
        if L.is_z3(idx):
            n = len(obj)
            i = I.norm_index(n, idx, node)
            if n == 0:
                raise sx.SymRaise(IndexError, sx._txt(node))
            if not all(is_num(x) or isinstance(x, tuple) for x in obj):
                # elements that cannot be merged by if-then-else (byte strings, objects): fork per index
                for j in range(n - 1):
                    if I.ctx.branch(i == j):
                        return obj[j]
                return obj[n - 1]
            r = obj[n - 1]
            for j in reversed(range(n - 1)):
                r = L.If(i == j, obj[j], r)
            return r
        try:
            return obj[idx]
        except IndexError:
            raise sx.SymRaise(IndexError, sx._txt(node))
        except TypeError:
            raise sx.SymRaise(TypeError, sx._txt(node))
    if isinstance(obj, dict):
        if isinstance(idx, SBytes) or L.is_z3(idx):
            for k, v in obj.items():
                if I.ctx.branch(equal(I, idx, k, node)):
                    return v
            raise sx.SymRaise(KeyError, sx._txt(node))
        try:
            return obj[idx]
        except KeyError:
            raise sx.SymRaise(KeyError, sx._txt(node))
        except TypeError:
            raise sx.SymRaise(KeyError, sx._txt(node))
    hook = getattr(obj, "__sym_getitem__", None)
    if hook:
        return hook(I, idx, node)
    if isinstance(obj, SObj) and obj.cls is not None and hasattr(obj.cls, "__getitem__"):
        return I.call(class_attr(I, obj, obj.cls, "__getitem__"), [idx], {}, node)
    if isinstance(obj, SIter) and isinstance(obj.length, int) and isinstance(idx, int):
        return obj.item(idx if idx >= 0 else obj.length + idx)
    if obj is None:
        raise sx.SymRaise(TypeError, "None is not subscriptable: " + sx._txt(node))
    import types as _types
    if isinstance(obj, _types.MappingProxyType) and isinstance(idx, str):
        # a class's __dict__: the raw attribute (used by harness code to reach a classmethod's function)
        try:
            return obj[idx]
        except KeyError:
            raise sx.SymRaise(KeyError, sx._txt(node))
    raise SymError("subscript on %s (%s)" % (type(obj).__name__, sx._txt(node)))


def clip_index(v, n, default):
    """Python slice bound normalisation: None -> default, negative -> +n, clipped to [0,n]."""
    if v is None:
        return default
    if not L.any_z3(v, n):
        if v < 0:
            v += n
        return min(max(v, 0), n)
    v = L.to_z3(v)
    nn = L.to_z3(n)
    v2 = z3.If(v < 0, v + nn, v)
    return z3.simplify(z3.If(v2 < 0, 0, z3.If(v2 > nn, nn, v2)))


def sbytes_slice(I, s, sl, node):
    if sl.step is not None and not (isinstance(sl.step, int) and sl.step == 1):
        raise SymError("slice step")
    n = s.n
    lo = clip_index(sl.start, n, 0)
    hi = clip_index(sl.stop, n, n)
    if not L.any_z3(lo, hi):
        ln = max(0, hi - lo)
    else:
        d = L.to_z3(hi) - L.to_z3(lo)
        ln = z3.simplify(z3.If(d > 0, d, 0))
    if isinstance(lo, int) and lo == 0:
        at = s.at
    else:
        at = lambda k, lo=lo: s.at(lo + k)
    out = SBytes(ln, at, s.elem_range, s.kind)
    # remember the underlying buffer and offset: quantified facts about a slice are stated over the buffer's own
    # indices, which gives the solver usable triggers (select(arr, p) instead of select(arr, lo + q))
    out.root = getattr(s, "root", None) or s
    out.off = getattr(s, "off", 0) + lo
    # a slice s[a:a+w] with concrete w has at most w elements (used to avoid quantifiers for 1-byte peeks)
    if sl.start is not None and sl.stop is not None and L.any_z3(sl.start, sl.stop):
        w = z3.simplify(L.to_z3(sl.stop) - L.to_z3(sl.start))
        if z3.is_int_value(w) and 0 <= w.as_long() <= 8:
            out.maxn = w.as_long()
    return out


# ---------------------------------------------------------------------------
def make_iter(I, v, node):
    if isinstance(v, SIter):
        return v
    if isinstance(v, (list, tuple)):
        return SIter(len(v), lambda k, v=v: v[k], "seq")
    if isinstance(v, (bytes, bytearray)):
        return SIter(len(v), lambda k, v=v: v[k], "bytes")
    if isinstance(v, str):
        return SIter(len(v), lambda k, v=v: v[k], "str")
    if isinstance(v, dict):
        ks = list(v.keys())
        return SIter(len(ks), lambda k: ks[k], "dictkeys")
    if isinstance(v, (set, frozenset)):
        ks = list(v)
        if 2 <= len(ks) <= 4 and not all(isinstance(x, (int, str, bytes)) for x in ks):
            # the order in which a set of objects is walked is not determined by the program (hash = address): every order is a path of its own,
            # so a result that depends on it cannot satisfy a postcondition that fixes the order
            import itertools
            perms = list(itertools.permutations(range(len(ks))))
            perm = I.ctx.choose(perms, "set-iteration-order")
            ks = [ks[i] for i in perm]
            I.ctx.notes.add("iteration over a set of objects: every order explored")
        else:
            I.ctx.notes.add("iteration over a set uses the engine's arbitrary order")
        return SIter(len(ks), lambda k: ks[k], "set")
    if isinstance(v, (SBytes, SList)):
        src = v
        return SIter(v.n, lambda k: I.elem(src, k), "sbytes")
    if isinstance(v, range):
        return SIter(len(v), lambda k, v=v: v[k], "range")
    if isinstance(v, SIterator):
        it = v.it
        p0 = v.pos
        rem = it.length - p0
        if isinstance(rem, z3.ExprRef):
            rem = z3.simplify(rem)
        out = SIter(rem, lambda k: it.item(p0 + k), "rest-of-iterator")
        return out
    hook = getattr(v, "__sym_iter__", None)
    if hook:
        return hook(I)
    if isinstance(v, SObj) and v.cls is not None and "__iter__" in {n_ for k_ in v.cls.__mro__ for n_ in k_.__dict__} \
            and (getattr(v.cls, "__module__", "") or "").startswith("pdfminer"):
        # a repository class with its own __iter__ (LTContainer): iterate what the real method returns
        return make_iter(I, I.call(class_attr(I, v, v.cls, "__iter__"), [], {}, node), node)
    import collections.abc as _abc
    if isinstance(v, _abc.Iterator) and type(v).__module__ in ("builtins", "re", "itertools"):
        items = list(v)
        return SIter(len(items), lambda k: items[k], "native-iterator")
    raise SymError("cannot iterate %s (%s)" % (type(v).__name__, _sx()._txt(node) if node is not None else ""))


def sym_range(I, args):
    if len(args) == 1:
        lo, hi, st = 0, args[0], 1
    elif len(args) == 2:
        lo, hi, st = args[0], args[1], 1
    else:
        lo, hi, st = args
    lo, hi, st = I.numeric(lo), I.numeric(hi), I.numeric(st)
    for x in (lo, hi, st):
        if not is_intlike(x):
            raise _sx().SymRaise(TypeError, "range() with non-int")
    if not L.any_z3(lo, hi, st):
        return range(lo, hi, st)
    if L.is_z3(st):
        ctx = I.ctx
        ctx.solver.push()
        ctx.solver.add(st <= 0)
        r = ctx._check()
        ctx.solver.pop()
        if r != z3.unsat:
            raise SymError("range with a symbolic step that is not provably positive")
        d = L.to_z3(hi) - L.to_z3(lo)
        ln = z3.If(d > 0, (d + st - 1) / st, 0)
        cont = lambda v: L.And(L.le(lo, v), L.lt(v, hi), L.eq(L.mod(v - lo, st), 0))
        return SIter(ln, lambda k: lo + k * st, "range", contains=cont)
    if st == 0:
        raise _sx().SymRaise(ValueError, "range step 0")
    if st > 0:
        d = L.to_z3(hi) - L.to_z3(lo)
        ln = z3.If(d > 0, (d + (st - 1)) / st, 0)
    else:
        d = L.to_z3(lo) - L.to_z3(hi)
        ln = z3.If(d > 0, (d + (-st - 1)) / (-st), 0)
    ln = z3.simplify(ln)
    if st > 0:
        cont = lambda v: L.And(L.le(lo, v), L.lt(v, hi), True if st == 1 else L.eq(L.mod(v - lo, st), 0))
    else:
        cont = lambda v: L.And(L.le(v, lo), L.lt(hi, v), True if st == -1 else L.eq(L.mod(lo - v, -st), 0))
    return SIter(ln, lambda k: lo + k * st, "range", contains=cont)


# ---------------------------------------------------------------------------
MARKUP_CHARS = '<&"\'>'


def markup_mode(I):
    return bool(getattr(I.current_contract, "markup_strings", False))


def numeral_piece(I, what="num"):
    """text of a formatted number (%d, %.3f, f-string float spec): a fresh string without any markup-significant character
    [library assumption A-NUMFMT: number formatting yields digits, sign, '.', 'e', 'inf', 'nan' only]"""
    r = z3.String(I.ctx.fresh_name(what))
    I.ctx.assume(z3.And(*[z3.Not(z3.Contains(r, z3.StringVal(ch))) for ch in MARKUP_CHARS]))
    return r


def markup_piece(I, x, conv, spec=""):
    """one interpolated operand in markup mode -> a z3 string term (literal, the string itself, a numeral, or an unconstrained
    'opaque' text for anything else rendered with %s / {})"""
    if isinstance(x, str):
        return z3.StringVal(x) if conv in ("s", "") and not spec else z3.StringVal(format(x, spec) if spec else x)
    if L.is_z3(x) and z3.is_string(x):
        if conv in ("s", ""):
            return x
        raise SymError("markup: string formatted with %%%s" % conv)
    if isinstance(x, bool):
        return z3.StringVal(str(x))
    if isinstance(x, (int, float, Fraction)) or (L.is_z3(x) and (z3.is_int(x) or z3.is_real(x))):
        if L.is_z3(x) or isinstance(x, Fraction):
            return numeral_piece(I)
        try:
            return z3.StringVal(("%" + (spec or conv or "s")) % x if conv else format(x, spec))
        except Exception:
            return numeral_piece(I)
    if conv in ("d", "f", "i", "x", "e", "g"):
        return numeral_piece(I)
    # anything else rendered through str(): unknown text
    return z3.String(I.ctx.fresh_name("opaque_text"))


def zconcat(pieces):
    ps = []
    for p_ in pieces:
        if z3.is_string_value(p_) and p_.as_string() == "":
            continue
        if ps and z3.is_string_value(p_) and z3.is_string_value(ps[-1]):
            ps[-1] = z3.StringVal(ps[-1].as_string() + p_.as_string())
        else:
            ps.append(p_)
    if not ps:
        return ""
    if len(ps) == 1:
        return ps[0] if not z3.is_string_value(ps[0]) else ps[0].as_string()
    return z3.Concat(*ps)


def joined_str(I, e, fr):
    if markup_mode(I):
        pieces = []
        for v in e.values:
            if isinstance(v, ast.Constant):
                pieces.append(z3.StringVal(v.value))
            else:
                x = I.eval(v.value, fr)
                spec = ""
                if v.format_spec is not None:
                    spec = "".join(c.value for c in v.format_spec.values if isinstance(c, ast.Constant))
                pieces.append(markup_piece(I, x, spec[-1:] if spec else "", spec))
        return zconcat(pieces)
    parts = []
    for v in e.values:
        if isinstance(v, ast.Constant):
            parts.append(v.value)
        else:
            x = I.eval(v.value, fr)
            if L.any_z3(x) or isinstance(x, (SBytes, SObj, SList)):
                parts.append("<sym>")
            else:
                spec = ""
                if v.format_spec is not None:
                    spec = "".join(c.value for c in v.format_spec.values if isinstance(c, ast.Constant))
                try:
                    if v.conversion == ord("r"):
                        x = repr(x)
                    parts.append(format(float(x) if isinstance(x, Fraction) and spec else x, spec))
                except Exception:
                    parts.append("<fmt>")
    return "".join(parts)


class SFmtRepeat:
    """a struct format '<prefix><n><code>' whose repeat count n is symbolic"""

    def __init__(self, prefix, count, code):
        self.prefix, self.count, self.code = prefix, count, code


def str_format(I, a, b, node):
    import re as _re2
    if markup_mode(I) and isinstance(a, str):
        args = list(b) if isinstance(b, tuple) else [b]
        toks = _re2.split(r"(%(?:\.\d+)?[sdfixeg%])", a)
        pieces, it = [], iter(args)
        for t in toks:
            if t == "%%":
                pieces.append(z3.StringVal("%"))
            elif t.startswith("%") and len(t) >= 2 and t[-1] in "sdfixeg":
                try:
                    x = next(it)
                except StopIteration:
                    raise _sx().SymRaise(TypeError, "not enough arguments for format string")
                pieces.append(markup_piece(I, x, t[-1], t[1:] if t[-1] != "s" else ""))
            elif t:
                if "%" in t:
                    raise SymError("markup: unsupported conversion in %r" % a)
                pieces.append(z3.StringVal(t))
        return zconcat(pieces)
    if isinstance(a, str) and L.is_z3(b) and z3.is_string(b) and a.count("%") == 1 and "%s" in a:
        pre, post = a.split("%s")
        return z3.Concat(z3.StringVal(pre), b, z3.StringVal(post)) if post else z3.Concat(z3.StringVal(pre), b)
    if isinstance(a, str) and isinstance(b, tuple) and any(L.is_z3(x) and z3.is_string(x) for x in b):
        # "%s.%d%s" % (name, index, ext) with a symbolic string: %s -> the string, %d -> a non-empty run of digits
        parts = _re2.split(r"(%s|%d)", a)
        out, it = [], iter(b)
        for part in parts:
            if part == "%s":
                v = next(it)
                out.append(z3.StringVal(v) if isinstance(v, str) else v)
            elif part == "%d":
                v = next(it)
                if isinstance(v, int):
                    out.append(z3.StringVal(str(v)))
                else:
                    d = z3.String(I.ctx.fresh_name("digits"))
                    # a decimal numeral: non-empty, no path separator, no dot (kept quantifier-free: no regular expression)
                    I.ctx.assume(z3.And(z3.Length(d) >= 1, z3.Not(z3.Contains(d, z3.StringVal("/"))), z3.Not(z3.Contains(d, z3.StringVal(".")))))
                    out.append(d)
            elif part:
                out.append(z3.StringVal(part))
        return z3.Concat(*out) if len(out) > 1 else out[0]
    if isinstance(a, str) and L.is_z3(b):
        m = _re2.fullmatch(r"([<>!=@]?)%d([BHLIQ])", a)
        if m:
            return SFmtRepeat(m.group(1), b, m.group(2))
    if not L.any_z3(b) and not isinstance(b, (SBytes, SObj, SList)):
        try:
            return a % b
        except Exception:
            return "<fmt>"
    return "<fmt>" if isinstance(a, str) else b"<fmt>"


# ---------------------------------------------------------------------------
def call(I, f, args, kwargs, node, fr):
    sx = _sx()
    if isinstance(f, SClosure):
        return call_closure(I, f, args, kwargs)
    if isinstance(f, SMethod):
        return call_repo_function(I, f.func, [f.obj] + list(args), kwargs, node, fr)
    if isinstance(f, sx.SBoundBuiltin):
        from . import methods

        return methods.call_method(I, f.recv, f.name, args, kwargs, node)
    hook = getattr(f, "__sym_call__", None)
    if hook:
        return hook(I, args, kwargs, node)
    if isinstance(f, type):
        return call_type(I, f, args, kwargs, node, fr)
    import types

    if isinstance(f, types.FunctionType):
        if (f.__module__ or "").startswith("pdfminer"):
            return call_repo_function(I, f, args, kwargs, node, fr)
        from . import builtins_model

        h = builtins_model.FUNCS.get(f)
        if h:
            return h(I, args, kwargs, node)
    if isinstance(f, types.MethodType):
        # bound method of a real object (e.g. PSSymbolTable.intern bound as LIT)
        fn = f.__func__
        if (getattr(fn, "__module__", "") or "").startswith("pdfminer"):
            key = "%s:%s" % (fn.__module__, fn.__qualname__)
            c = I.registry.get(key) if I.registry else None
            stubs = getattr(I.current_contract, "stubs", None)
            if stubs and key in stubs:
                c = stubs[key]
            from .methods import concrete as _conc
            if c is not None and not (key == "pdfminer.psparser:PSSymbolTable.intern" and _conc(args, kwargs) and not (stubs and key in stubs)):
                return apply_contract(I, c, [f.__self__] + list(args), kwargs, node)
            if key == "pdfminer.psparser:PSSymbolTable.intern" and _conc(args, kwargs):
                # interning a constant name in a real (process-wide) table: the real object (idempotent; scenario 'interning-is-idempotent')
                return f(*args, **kwargs)
            raise SymError("bound repository method %s needs a contract" % key)
    from . import builtins_model

    h = builtins_model.lookup(f)
    if h:
        return h(I, args, kwargs, node)
    # pure library functions / methods of immutable real objects on concrete arguments: native semantics
    from .methods import concrete
    import re as _re

    mod = getattr(f, "__module__", None) or ""
    recv = getattr(f, "__self__", None)
    if isinstance(recv, _re.Pattern) and not concrete(args, kwargs):
        from . import methods
        return methods.call_method(I, recv, f.__name__, args, kwargs, node)
    pure_fn = isinstance(f, (types.FunctionType, types.BuiltinFunctionType)) and mod.split(".")[0] in PURE_MODULES
    pure_meth = isinstance(f, (types.BuiltinMethodType, types.MethodType)) and isinstance(
        recv, (str, bytes, int, float, tuple, frozenset, _re.Pattern, _re.Match))
    if (pure_fn or pure_meth) and concrete(args, kwargs):
        try:
            return f(*args, **kwargs)
        except Exception as e:  # native semantics, native exception
            raise sx.SymRaise(type(e), sx._txt(node))
    raise SymError("call to %r not modelled (%s)" % (f, sx._txt(node)))


def call_closure(I, f, args, kwargs):
    sx = _sx()
    node = f.node
    if isinstance(node, ast.Lambda):
        env = {}
        params = [p.arg for p in node.args.args]
        for p, a in zip(params, args):
            env[p] = a
        ndef = len(node.args.defaults)
        for i, p in enumerate(params):
            if p not in env:
                di = i - (len(params) - ndef)
                if di >= 0:
                    env[p] = I.eval(node.args.defaults[di], f.env)
        fr = sx.Frame(f.env.fi, env, f.mod, outer=f.env, loopspecs=f.env.loopspecs)
        fr.loops = f.env.loops
        return I.eval(node.body, fr)
    from .extract import FuncInfo, module_ast

    fi = getattr(node, "_fi", None)
    if fi is None:
        _, src = module_ast(f.env.fi.modname)
        fi = FuncInfo(f.env.fi.modname, f.env.fi.qualname + "." + node.name, node, src)
        node._fi = fi
    key = fi.key
    specs = None
    c = I.registry.get(key) if I.registry else None
    if c is not None and I.current_contract is not None and c is not I.current_contract and not c.inline:
        return apply_contract(I, c, list(args), kwargs, None)
    if c is not None:
        specs = c.loops
    return I.call_function(fi, args, kwargs, loopspecs=specs, closure_env=f.env)


def call_repo_function(I, fobj, args, kwargs, node, fr):
    sx = _sx()
    key = "%s:%s" % (fobj.__module__, fobj.__qualname__.replace(".<locals>", ""))
    c = I.registry.get(key) if I.registry else None
    stubs = getattr(I.current_contract, "stubs", None)
    if stubs and key in stubs:
        I.contract_calls.add(key + " (stub)")
        return apply_contract(I, stubs[key], args, kwargs, node)
    if c is not None and not c.inline and not (I.current_contract is c and I.depth == 0) \
            and not getattr(I.current_contract, "inline_callees", False):
        I.contract_calls.add(key)
        return apply_contract(I, c, args, kwargs, node)
    fi = sx.function_of_object(fobj)
    if fi is None:
        raise SymError("no source for %s" % key)
    I.inlined.add(key)
    return I.call_function(fi, args, kwargs, loopspecs=(c.loops if c is not None else None))


def call_type(I, f, args, kwargs, node, fr):
    sx = _sx()
    if issubclass(f, BaseException):
        return sx.SExc(f, args)
    from . import builtins_model

    h = builtins_model.TYPES.get(f) or builtins_model.LIB.get(f)
    if h:
        return h(I, args, kwargs, node)
    if (f.__module__ or "").startswith("pdfminer"):
        key = "%s:%s" % (f.__module__, f.__qualname__)
        c = I.registry.get(key + ".__init__") if I.registry else None
        obj = SObj(f, {}, I.ctx.fresh_name(f.__name__))
        init = None
        for k in f.__mro__:
            if "__init__" in k.__dict__:
                init = k.__dict__["__init__"]
                break
        if init is not None and init is not object.__init__:
            call_repo_function(I, init, [obj] + list(args), kwargs, node, fr)
        return obj
    raise SymError("constructor %s not modelled" % f.__name__)


def apply_contract(I, c, args, kwargs, node):
    """Modular call: check requires, havoc modifies, assume ensures."""
    sx = _sx()
    ctx = I.ctx
    names = list(c.params.keys())
    bound = {}
    args = list(args)
    for i, n in enumerate(names):
        if i < len(args):
            bound[n] = args[i]
        elif n in kwargs:
            bound[n] = kwargs[n]
        elif n in c.defaults:
            bound[n] = c.defaults[n]
        else:
            raise SymError("contract call %s: missing argument %s" % (c.key, n))
    where = sx._txt(node) if node is not None else c.key
    for cname, fn in c.requires:
        ctx.oblige("call-pre:%s:%s" % (c.short, cname), c.apply(fn, bound), where)
    old = c.snapshot(bound)
    if getattr(c, "traced", False):
        I.trace.append((c.short, dict(bound)))
    # exceptional exits
    for exc_cls, cond in c.raises.items():
        if cond is None:
            if ctx.choose([True, False], "raises?"):
                raise sx.SymRaise(exc_cls, "from " + c.short)
        else:
            cv = c.apply(cond, dict(bound, old=old))
            if ctx.branch(cv):
                raise sx.SymRaise(exc_cls, "from " + c.short)
    # havoc
    c.havoc(I, bound)
    if getattr(c, "effect", None):
        c.effect(I, bound)
    if c.result_fn is not None:
        result = c.apply(c.result_fn[1], dict(bound, old=old))
    else:
        result = c.result.fresh(ctx, "ret_" + c.short.split(".")[-1]) if c.result is not None else None
    env = dict(bound, old=old, result=result)
    if result is None and c.result is None and c.result_fn is None:
        import inspect
        for cname, fn in c.ensures:
            f = getattr(fn, "fn", fn)
            if "result" in inspect.signature(f).parameters:
                raise SymError("contract %s speaks about `result` but declares no result sort (returns)" % c.key)
    for cname, fn in c.ensures:
        ctx.assume(c.apply(fn, env))
    ctx.last_result = result
    if getattr(c, "traced", False):
        I.trace[-1][1]["__result__"] = result
    return result
