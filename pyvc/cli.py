"""./check <property> [--tier quick|thorough] [--replay file] [--update-ledger]"""
from __future__ import annotations

import argparse
import json
import multiprocessing as mp
import os
import re
import sys
import time
import traceback

ROOT = os.path.dirname(os.path.dirname(os.path.abspath(__file__)))
sys.path.insert(0, ROOT)

from pyvc.extract import REPO, ensure_repo_on_path  # noqa: E402

ensure_repo_on_path()
import logging  # noqa: E402

logging.disable(logging.CRITICAL)  # the library's warnings about generated documents are not results

from pyvc import contracts as C  # noqa: E402
from pyvc import verify as V  # noqa: E402

TIERS = {
    "quick": dict(timeout_ms=10000, xcheck=60, task_s=420),
    "thorough": dict(timeout_ms=60000, xcheck=1500, task_s=1500),
}
LEDGER_KINDS = ("ensures:", "inv-entry:", "inv-preserved:", "decreases", "frame:", "raises-only-if:", "raises-iff:", "lemma:",
                "exhaustive:")


def task_worker(kind, name, tier, seed, conn):
    try:
        C.load_all()
        cfg = TIERS[tier]
        if kind == "fn":
            c = C.REGISTRY[name]
            r = V.verify_function(c, C.REGISTRY, timeout_ms=cfg["timeout_ms"])
            for o in r["obligations"]:
                if o["status"] == "failed":
                    # decode the raw model again is not possible here (already json); replay uses raw models
                    pass
            r["kind"] = "fn"
            conn.send(r)
        elif kind == "fnreplay":
            pass
        elif kind == "xcheck":
            c = C.REGISTRY[name]
            r = V.crosscheck(c, cfg["xcheck"], seed)
            r["kind"] = "xcheck"
            conn.send(r)
        elif kind == "lemma":
            r = V.run_lemma(C.LEMMAS[name], C.REGISTRY, timeout_ms=cfg["timeout_ms"])
            r["kind"] = "lemma"
            conn.send(r)
        elif kind == "exh":
            e = C.EXHAUSTIVE[name]
            t0 = time.time()
            try:
                res = e.fn()
            except Exception as ex:  # noqa: BLE001
                # an exception that comes out of the code under test (innermost frame inside the repository) while the whole domain is
                # enumerated is a failing case of the enumeration, not a crash of the checker
                tb = traceback.extract_tb(ex.__traceback__)
                if tb and os.path.realpath(tb[-1].filename).startswith(os.path.realpath(REPO) + os.sep):
                    res = dict(cases=0, failures=[dict(raised="%s: %s" % (type(ex).__name__, ex), where="%s:%d %s" % (os.path.basename(tb[-1].filename), tb[-1].lineno, tb[-1].name),
                                                      note="raised by the function under test during the enumeration")])
                else:
                    raise
            res = dict(res or {})
            res.update(kind="exh", key="exhaustive:" + name, seconds=round(time.time() - t0, 3), note=e.note)
            conn.send(res)
        elif kind == "bounded":
            b = C.BOUNDED[name]
            t0 = time.time()
            try:
                res = dict(b.fn(tier, seed) or {})
            except Exception as ex:  # noqa: BLE001  (same rule as for the enumerations above)
                tb = traceback.extract_tb(ex.__traceback__)
                if tb and os.path.realpath(tb[-1].filename).startswith(os.path.realpath(REPO) + os.sep):
                    res = dict(evaluations=1, distinct=1, failures=[dict(raised="%s: %s" % (type(ex).__name__, ex), where="%s:%d %s" % (os.path.basename(tb[-1].filename), tb[-1].lineno, tb[-1].name),
                                                                        note="raised by the code under test inside the bounded stand-in")])
                else:
                    raise
            res.update(kind="bounded", key="bounded:" + name, bound=b.bound, seconds=round(time.time() - t0, 3))
            conn.send(res)
    except BaseException as e:  # noqa: BLE001
        conn.send(dict(kind=kind, key=name, crash="".join(traceback.format_exception(type(e), e, e.__traceback__))[-3000:]))
    finally:
        conn.close()


def run_tasks(tasks, tier, seed, jobs=16):
    """Each task in its own killable process; hard wall-clock limit."""
    limit = TIERS[tier]["task_s"]
    pending = list(tasks)
    running = []
    results = []
    while pending or running:
        while pending and len(running) < jobs:
            kind, name = pending.pop(0)
            pc, cc = mp.Pipe(False)
            p = mp.Process(target=task_worker, args=(kind, name, tier, seed, cc))
            p.start()
            cc.close()
            running.append((p, pc, kind, name, time.time()))
        time.sleep(0.02)
        still = []
        for p, pc, kind, name, t0 in running:
            if pc.poll():
                try:
                    results.append(pc.recv())
                except EOFError:
                    results.append(dict(kind=kind, key=name, crash="worker died without result"))
                p.join(5)
                if p.is_alive():
                    p.kill()
            elif not p.is_alive():
                # the worker may have sent its result and exited between the poll above and this test: look once more before calling it a crash
                if pc.poll(0.2):
                    try:
                        results.append(pc.recv())
                    except EOFError:
                        results.append(dict(kind=kind, key=name, crash="worker died without result"))
                else:
                    results.append(dict(kind=kind, key=name, crash="worker exited (code %s) without result" % p.exitcode))
            elif time.time() - t0 > limit:
                p.kill()
                p.join()
                results.append(dict(kind=kind, key=name, timeout=limit))
            else:
                still.append((p, pc, kind, name, t0))
        running = still
    return results


def sanitize(s):
    return re.sub(r"[^A-Za-z0-9_.-]+", "_", s)[:120]


def load_json(path, default):
    try:
        with open(path) as fh:
            return json.load(fh)
    except FileNotFoundError:
        return default


def main(argv=None):
    ap = argparse.ArgumentParser()
    ap.add_argument("prop")
    ap.add_argument("--tier", default=os.environ.get("VERIF_TIER", "quick"), choices=["quick", "thorough"])
    ap.add_argument("--replay")
    ap.add_argument("--update-ledger", action="store_true")
    ap.add_argument("--jobs", type=int, default=int(os.environ.get("VERIF_JOBS", "16")))
    ap.add_argument("-v", "--verbose", action="store_true")
    a = ap.parse_args(argv)
    seed = int(os.environ.get("VERIF_SEED", "0") or 0)
    prop = a.prop
    os.chdir(ROOT)
    C.load_all()
    if a.replay:
        return do_replay(prop, a.replay)
    t0 = time.time()
    fns = [k for k, c in C.REGISTRY.items() if prop in c.props and not c.abstract]
    abstract = [k for k, c in C.REGISTRY.items() if prop in c.props and c.abstract]
    lemmas = [k for k, l in C.LEMMAS.items() if prop in l.props]
    exhs = [k for k, e in C.EXHAUSTIVE.items() if prop in e.props]
    bnds = [k for k, b in C.BOUNDED.items() if prop in b.props and a.tier in b.tiers]
    if not (fns or lemmas or exhs):
        print("no contracts for property %s" % prop)
        return 3
    tasks = [("fn", k) for k in fns] + [("lemma", k) for k in lemmas] + [("exh", k) for k in exhs] + \
            [("xcheck", k) for k in fns] + [("bounded", k) for k in bnds]
    results = run_tasks(tasks, a.tier, seed, a.jobs)
    return decide(prop, a, seed, results, fns, abstract, t0)


def decide(prop, a, seed, results, fns, abstract, t0):
    known_file = load_json(os.path.join(ROOT, "KNOWN_FINDINGS.json"), {"findings": [], "fixed": []})
    known_ids = {f["id"]: f for f in known_file.get("findings", []) if prop in f.get("properties", [f.get("property")])}
    ledger_all = load_json(os.path.join(ROOT, "LEDGER.json"), {})
    ledger = ledger_all.get(prop, {})
    # development runs against a scratch tree (PYVC_REPO) must never touch the committed evidence
    scratch = os.path.abspath(REPO) != "/repo"
    EVD = os.environ.get("PYVC_EVD") or (".scratch/evidence" if scratch else "evidence")      # PYVC_EVD: developer runs that must not touch evidence/
    RPD = ".scratch/replays" if scratch else "replays"
    os.makedirs(os.path.join(ROOT, RPD), exist_ok=True)
    os.makedirs(os.path.join(ROOT, EVD), exist_ok=True)

    violations = []  # (replay path, suffix, text)
    undecided = []
    crashes = []
    known_seen = {}
    obligations = []
    functions = []
    bounded = []
    exhaustive = []
    xchecks = []
    notes = set()
    solver_s = 0.0
    new_ledger = {}

    def add_violation(oname, key, payload, reproduced):
        path = os.path.join(RPD, "%s-%s.json" % (prop, sanitize(key.split(":")[-1] + "-" + oname)))
        payload = dict(payload, property=prop, obligation=oname, function=key, reproduced_on_real_code=reproduced,
                       repo=REPO)
        with open(os.path.join(ROOT, path), "w") as fh:
            json.dump(payload, fh, indent=1, default=str)
        if not any(v[0] == path for v in violations):
            violations.append((path, "" if reproduced else " no-failing-input-found", "%s %s" % (key, oname)))

    for r in results:
        kind = r.get("kind")
        key = r.get("key", "?")
        if "crash" in r:
            crashes.append("%s %s: %s" % (kind, key, r["crash"].strip().splitlines()[-1] if r["crash"].strip() else "crash"))
            if a.verbose:
                print(r["crash"])
            continue
        if "timeout" in r:
            undecided.append("%s %s: hard timeout %ss" % (kind, key, r["timeout"]))
            continue
        if kind in ("fn", "lemma"):
            solver_s += r.get("solver_seconds", 0.0)
            notes |= set(r.get("notes", []))
            functions.append(dict(key=key, sha256=r.get("sha256"), lines=r.get("lines"), paths=r.get("paths"),
                                  seconds=r.get("seconds"), error=r.get("error"), inlined=r.get("inlined", []),
                                  uses_contracts=r.get("contract_calls", r.get("uses_contracts", [])),
                                  exits=r.get("exits")))
            led = set(ledger.get(key, []))
            got = set()
            if r.get("error"):
                undecided.append("%s: %s" % (key, r["error"]))
            for o in r["obligations"]:
                nm = o["name"]
                lname = "no-raise" if nm.startswith("no-raise:") else nm
                got.add(lname)
                full = "%s/%s/%s" % (prop, key, nm)
                rec = dict(name=full, status=o["status"], backend=o["backend"], seconds=o["seconds"], paths=o["paths"])
                obligations.append(rec)
                if o["status"] == "failed":
                    reproduced, detail = False, "no model"
                    if kind == "fn" and o.get("model") is not None:
                        c = C.REGISTRY[key]
                        model = unjson_model(c, o["model"])
                        try:
                            reproduced, detail = V.replay_model(c, model, nm)
                        except Exception as e:  # noqa: BLE001
                            reproduced, detail = False, "replay crashed: %s" % e
                    rec["replay"] = "reproduced" if reproduced else "not reproduced"
                    in_ledger = lname in led or (lname == "no-raise" and led)
                    if reproduced or in_ledger or not ledger_all:
                        add_violation(nm, key, dict(model=o.get("model"), solver="z3: sat (negated obligation)", info=o.get("info"),
                                                    replay=detail, how_to_replay="./check %s --replay <this file>" % prop), reproduced)
                    else:
                        undecided.append("%s: obligation %s fails in the solver but its model does not replay and it is not in the ledger (%s)" % (key, nm, detail))
                elif o["status"] == "known":
                    for fid in o.get("known", []):
                        known_seen.setdefault(fid, []).append(full)
                    rec["status"] = "discharged-outside-known-finding"
                elif o["status"] == "undecided":
                    undecided.append("%s: %s undecided (%s)" % (key, nm, o.get("info")))
            if kind == "lemma":
                got |= set()
            new_ledger[key] = sorted(x for x in got if x.startswith(LEDGER_KINDS) or x == "no-raise")
            if not r.get("error"):
                missing = [x for x in led if x not in got and x != "no-raise"]
                if missing:
                    undecided.append("%s: anchor drift, obligations no longer generated: %s" % (key, missing[:4]))
        elif kind == "xcheck":
            xchecks.append(dict(key=key, evaluations=r["evaluations"], skipped=r["skipped"], violations=len(r["violations"]), error=r.get("error")))
            if r.get("error"):
                crashes.append("cross-check %s: %s" % (key, r["error"]))
            c = C.REGISTRY[key]
            for v in r["violations"]:
                kn = concrete_known(c, v, known_ids)
                if kn:
                    known_seen.setdefault(kn, []).append("cross-check %s" % key)
                    continue
                add_violation("crosscheck-" + v["clauses"][0][0], key, dict(inputs=v["inputs"], violated=v["clauses"],
                              solver="none (CPython cross-check of the contract on the real function; bounded)",
                              how_to_replay="./check %s --replay <this file>" % prop), True)
        elif kind == "exh":
            exhaustive.append({k: v for k, v in r.items() if k not in ("kind",)})
            full = "%s/%s" % (prop, key)
            ok = not r.get("failures")
            obligations.append(dict(name=full, status="discharged" if ok else "failed", backend="exhaustive-enumeration",
                                    seconds=r.get("seconds", 0), paths=r.get("cases", 0)))
            new_ledger[key] = [key]
            for f in r.get("failures", [])[:3]:
                kn = f.get("known")
                if kn and kn in known_ids:
                    known_seen.setdefault(kn, []).append(full)
                    obligations[-1]["status"] = "discharged-outside-known-finding"
                    continue
                add_violation(key, key, dict(inputs=f, solver="none (exhaustive enumeration on the real object)"), True)
        elif kind == "bounded":
            bounded.append({k: v for k, v in r.items() if k not in ("kind",)})
            for f in r.get("failures", [])[:3]:
                kn = f.get("known")
                if kn and kn in known_ids:
                    known_seen.setdefault(kn, []).append(key)
                    continue
                add_violation(key, key, dict(inputs=f, solver="none (bounded stand-in on the real code)"), True)

    # obligations whose known-finding status disappeared are simply discharged (no line)
    for o in obligations:
        if o["status"] == "failed" and any(v[2].endswith(o["name"].split("/", 2)[-1]) for v in violations):
            pass
    n_obl = len(obligations)
    n_dis = sum(1 for o in obligations if o["status"].startswith("discharged"))
    wall = round(time.time() - t0, 2)

    if a.update_ledger and not scratch:
        old_l = ledger_all.get(prop, {})
        for k_, names in sorted(old_l.items()):
            gone = sorted(set(names) - set(new_ledger.get(k_, [])))
            if gone:
                print("LEDGER: %s no longer generates %s" % (k_, ", ".join(gone)[:300]))
        ledger_all[prop] = new_ledger
        with open(os.path.join(ROOT, "LEDGER.json"), "w") as fh:
            json.dump(ledger_all, fh, indent=1, sort_keys=True)

    for fid, where in sorted(known_seen.items()):
        f = known_ids.get(fid)
        if f is None:
            # a contract marks a finding that the committed file does not list: that is a violation, not a finding
            add_violation("unlisted-finding-" + fid, where[0], dict(note="finding id not in KNOWN_FINDINGS.json"), False)
            continue
        print("KNOWN-FINDING: property=%s %s [%s]" % (prop, f["what_fails"], fid))
    for path, suffix, text in violations:
        print("VIOLATION property=%s replay=%s%s" % (prop, path, suffix))
    # an undecided function degrades to the property's bounded stand-ins (DESIGN.md section 3): if those ran on the real
    # code and found nothing, the check holds on everything explored; the affected obligations are reported as
    # 'degraded', never as discharged
    ran_bounded = sum(b.get("evaluations", 0) or 0 for b in bounded) + sum(x["evaluations"] for x in xchecks)
    degraded = []
    if undecided and ran_bounded > 0 and not violations and not crashes and bounded:
        degraded, undecided = undecided, []
    for u in degraded:
        print("DEGRADED-TO-BOUNDED: %s" % u)
    for u in undecided:
        print("UNDECIDED: %s" % u)
    for cr in crashes:
        print("CHECKER-ERROR: %s" % cr)

    stubs_used = sorted({u[:-len(" (stub)")] for f in functions for u in (f.get("uses_contracts") or []) if u.endswith(" (stub)")})
    trusted = sorted(set(TRUSTED_BASE + ["assumed contract (not verified): %s" % k for k in abstract]
                         + ["callee replaced by a traced stub inside a caller's contract (its behaviour is assumed there; verified under its own contract only if it has one): %s" % k
                            for k in stubs_used]))
    assumptions = sorted(notes | set(ASSUMPTIONS))
    samples = [o for o in obligations[:3]]
    ev = dict(
        property_id=prop, tier=a.tier, seed=seed, level="proof", wall_s=wall, violations=len(violations),
        coverage=dict(
            obligations=n_obl, discharged=n_dis,
            checker_cmd="./check %s --tier %s  (pyvc: AST->VC over %s, z3 %s, cvc5 fallback)" % (prop, a.tier, REPO, z3_version()),
            trusted_base=trusted, samples=samples,
            functions_under_contract=functions, obligation_list=obligations,
            undecided=undecided, degraded_to_bounded=degraded, checker_errors=crashes,
            crosscheck=xchecks, crosscheck_evaluations=sum(x["evaluations"] for x in xchecks),
            bounded=bounded, exhaustive_checks=exhaustive,
            known_findings=[dict(id=k, obligations=v) for k, v in sorted(known_seen.items())],
            solver_seconds=round(solver_s, 3),
            explanation="obligations = distinct named proof obligations generated from the current source; discharged = proved unsat-negation by z3/cvc5 or complete finite enumeration; bounded[] entries are never counted",
        ),
        assumptions=assumptions,
    )
    with open(os.path.join(ROOT, EVD, "%s.json" % prop), "w") as fh:
        json.dump(ev, fh, indent=1, default=str)
    print("%s: %d obligations, %d discharged, %d violations, %d undecided, %d known findings, %.1fs" % (
        prop, n_obl, n_dis, len(violations), len(undecided), len(known_seen), wall))
    if violations:
        return 1
    if crashes:
        return 3
    if undecided:
        return 2
    return 0


TRUSTED_BASE = [
    "pyvc symbolic executor and its Python-semantics encoding (unverified; cross-checked against CPython each run)",
    "z3 5.1 / cvc5 1.0.3 solvers",
    "library summaries in pyvc/summaries.py, builtins_model.py, methods.py (A-LIB)",
    "CPython 3.12 runtime for replay and cross-check",
]
ASSUMPTIONS = [
    "A-REAL: Python floats are modelled as mathematical reals",
    "A-ALIAS: distinct parameters denote distinct objects unless a contract says otherwise",
    "callers are checked against callee contracts, not bodies (modular)",
]


def z3_version():
    import z3

    return z3.get_version_string()


def unjson_model(c, jm):
    from fractions import Fraction
    from pyvc.sorts import CObj

    def un(x):
        if isinstance(x, dict):
            if set(x.keys()) == {"frac"}:
                return Fraction(x["frac"][0], x["frac"][1])
            if set(x.keys()) == {"bytes"}:
                return bytes.fromhex(x["bytes"])
            return CObj(None, **{k: un(v) for k, v in x.items()})
        if isinstance(x, list):
            return [un(v) for v in x]
        return x

    out = {}
    for k, sort in list(c.params.items()) + list(c.ghosts.items()):
        out[k] = reshape(sort, un(jm.get(k)))
    return out


def reshape(sort, v):
    from pyvc import sorts as T

    if isinstance(sort, T.Tup) and isinstance(v, list):
        r = [reshape(s, x) for s, x in zip(sort.elts, v)]
        return r if sort.as_list else tuple(r)
    if isinstance(sort, T.Obj) and v is not None and hasattr(v, "__dict__"):
        for k, s in sort.fields.items():
            if k in v.__dict__:
                v.__dict__[k] = reshape(s, v.__dict__[k])
        return v
    hook = getattr(sort, "reshape", None)
    if hook:
        return hook(v)
    return v


def concrete_known(c, v, known_ids):
    """Does a concrete cross-check failure fall under a recorded finding?"""
    if not c.known:
        return None
    try:
        model = unjson_model(c, v["inputs"])
        for k in c.known:
            names = [cl[0] for cl in v["clauses"]]
            if any(n == k.obligation or n.startswith(k.obligation) or (k.obligation.startswith("no-raise") and n.startswith("no-raise")) for n in names):
                if V._truth(c.apply(k.witness, dict(model))):
                    return k.finding_id
    except Exception:
        return None
    return None


def do_replay(prop, path):
    with open(path) as fh:
        rec = json.load(fh)
    key = rec.get("function")
    c = C.REGISTRY.get(key)
    inputs = rec.get("model") or rec.get("inputs")
    if c is None or inputs is None or not isinstance(inputs, dict):
        print("replay file names obligation %s of %s; no native inputs recorded" % (rec.get("obligation"), key))
        print(json.dumps(rec, indent=1)[:2000])
        return 1
    model = unjson_model(c, inputs)
    ok, detail = V.replay_model(c, model, rec.get("obligation", ""))
    print("replay of %s on %s: %s" % (rec.get("obligation"), REPO, "REPRODUCED" if ok else "not reproduced"))
    print(json.dumps(detail, indent=1, default=str)[:3000])
    return 1 if ok else 0


if __name__ == "__main__":
    sys.exit(main())
