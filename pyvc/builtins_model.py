"""Summaries of builtin functions / types and a few library functions."""
from __future__ import annotations

import builtins
import math
import struct
from fractions import Fraction

import z3

from . import logic as L
from .summaries import (as_sbytes, equal, is_intlike, is_num, sym_range, SymError)
from .values import SBytes, SClosure, SIter, SIterator, SList, SObj, SOpaque


def _sx():
    from . import symexec

    return symexec


def b_len(I, args, kw, node):
    (v,) = args
    if isinstance(v, (SBytes, SList)):
        return v.n
    if isinstance(v, SIter):
        return v.length
    if isinstance(v, (list, tuple, dict, set, str, bytes, frozenset)):
        return len(v)
    hook = getattr(v, "__sym_len__", None)
    if hook:
        return hook(I)
    if isinstance(v, SObj) and v.cls is not None and hasattr(v.cls, "__len__"):
        return I.call(I.getattr(v, "__len__"), [], {}, node)
    raise _sx().SymRaise(TypeError, "len() of %s" % type(v).__name__)


def b_min(I, args, kw, node):
    if len(args) == 1:
        args = I.iter_concrete(args[0], node)
        if not args:
            raise _sx().SymRaise(ValueError, "min() of empty")
    return L.Min(*[I.numeric(a) for a in args])


def b_max(I, args, kw, node):
    if len(args) == 1:
        args = I.iter_concrete(args[0], node)
        if not args:
            raise _sx().SymRaise(ValueError, "max() of empty")
    return L.Max(*[I.numeric(a) for a in args])


def b_abs(I, args, kw, node):
    return L.Abs(I.numeric(args[0]))


def b_sum(I, args, kw, node):
    xs = I.iter_concrete(args[0], node)
    r = args[1] if len(args) > 1 else 0
    for x in xs:
        r = r + I.numeric(x)
    return r


def b_isinstance(I, args, kw, node):
    v, t = args
    ts = t if isinstance(t, tuple) else (t,)
    return L.Or(*[isinstance_one(I, v, c) for c in ts])


def isinstance_one(I, v, c):
    hook = getattr(v, "__sym_isinstance__", None)
    if hook:
        return hook(I, c)
    if isinstance(v, z3.ExprRef):
        if z3.is_bool(v):
            return c in (bool, int, object)
        if z3.is_int(v):
            return c in (int, object)
        if z3.is_real(v):
            # A-REAL: a Real-sorted value stands for a Python float
            return c in (float, object)
        if z3.is_string(v):
            return c in (str, object)
        raise SymError("isinstance on term of sort %s" % v.sort())
    if isinstance(v, Fraction):
        return c in (float, object)
    if isinstance(v, SBytes):
        return c in ((bytes, object) if v.kind == "bytes" else (list, object))
    if isinstance(v, SList):
        return c in (list, object)
    if isinstance(v, SObj):
        if v.cls is None:
            raise SymError("isinstance on untyped object")
        return issubclass(v.cls, c)
    if isinstance(v, SOpaque):
        raise SymError("isinstance on opaque value")
    if isinstance(v, _sx().SExc):
        return issubclass(v.cls, c)
    return isinstance(v, c)


def b_range(I, args, kw, node):
    return sym_range(I, args)


def b_enumerate(I, args, kw, node):
    it = I.make_iter(args[0], node)
    start = args[1] if len(args) > 1 else kw.get("start", 0)
    return SIter(it.length, lambda k: (start + k, it.item(k)), "enumerate")


def b_zip(I, args, kw, node):
    its = [I.make_iter(a, node) for a in args]
    ln = L.Min(*[i.length for i in its]) if its else 0
    if isinstance(ln, z3.ExprRef):
        ln = z3.simplify(ln)
    return SIter(ln, lambda k: tuple(i.item(k) for i in its), "zip")


def b_reversed(I, args, kw, node):
    it = I.make_iter(args[0], node)
    n = it.length
    return SIter(n, lambda k: it.item(n - 1 - k), "reversed")


def b_iter(I, args, kw, node):
    return SIterator(I.make_iter(args[0], node))


def b_next(I, args, kw, node):
    it = args[0]
    if not isinstance(it, SIterator):
        raise SymError("next() on %s" % type(it).__name__)
    if not I.ctx.branch(L.lt(it.pos, it.it.length)):
        if len(args) > 1:
            return args[1]
        raise _sx().SymRaise(StopIteration, "next()")
    v = it.it.item(it.pos)
    it.pos = it.pos + 1
    return v


def b_divmod(I, args, kw, node):
    import ast

    a, b = args
    return (I.binop(ast.FloorDiv(), a, b, node), I.binop(ast.Mod(), a, b, node))


def b_ord(I, args, kw, node):
    (v,) = args
    if isinstance(v, (str, bytes)):
        return ord(v)
    s = as_sbytes(v)
    if s is not None:
        if not I.ctx.branch(L.eq(s.n, 1)):
            raise _sx().SymRaise(TypeError, "ord() expects length 1")
        return I.elem(s, 0)
    raise SymError("ord")


def b_chr(I, args, kw, node):
    (v,) = args
    if isinstance(v, int):
        return chr(v)
    raise SymError("chr of symbolic")


def b_any(I, args, kw, node):
    return L.Or(*[L.truth(x) for x in I.iter_concrete(args[0], node)])


def b_all(I, args, kw, node):
    return L.And(*[L.truth(x) for x in I.iter_concrete(args[0], node)])


def b_sorted(I, args, kw, node):
    xs = I.iter_concrete(args[0], node)
    if L.any_z3(xs):
        raise SymError("sorted on symbolic elements")
    return sorted(xs)


def b_hasattr(I, args, kw, node):
    o, n = args
    if isinstance(o, SObj):
        return n in o.f or (o.cls is not None and hasattr(o.cls, n))
    return hasattr(o, n)


def b_getattr(I, args, kw, node):
    o, n = args[0], args[1]
    try:
        return I.getattr(o, n, node)
    except _sx().SymRaise:
        if len(args) > 2:
            return args[2]
        raise


def b_setattr(I, args, kw, node):
    o, n, v = args
    if not isinstance(n, str):
        raise SymError("setattr with a symbolic attribute name")
    if isinstance(o, SObj):
        I.note_write(o, n)
        o.f[n] = v
        return None
    raise SymError("setattr on %s" % type(o).__name__)


def b_repr(I, args, kw, node):
    return "<repr>"


def b_round(I, args, kw, node):
    raise SymError("round")


def b_id(I, args, kw, node):
    I.ctx.notes.add("id() used")
    return I.ctx.fresh_int("id")


def b_floor(I, args, kw, node):
    return L.floor(I.numeric(args[0]))


def b_ceil(I, args, kw, node):
    x = I.numeric(args[0])
    return -L.floor(-x)


def b_callable(I, args, kw, node):
    return isinstance(args[0], (SClosure,)) or callable(args[0])


def b_open(I, args, kw, node):
    """open(path, mode): an abstract file.  Every write(data) is recorded in the call trace as ("open.write", {path, mode, data}) so that a contract can say
    exactly which bytes reach which file; reading is not modelled.  Nothing touches the file system."""
    from .values import SymFn
    path = args[0] if args else kw.get("file")
    mode = args[1] if len(args) > 1 else kw.get("mode", "r")
    if not isinstance(mode, str) or not ("w" in mode or "a" in mode or "x" in mode):
        raise SymError("open() for reading is not in the subset")
    f = SObj(None, {}, I.ctx.fresh_name("file"))

    def write(I2, data):
        I2.trace.append(("open.write", {"path": path, "mode": mode, "data": data}))
        return None
    f.f.update(write=SymFn(write, "write"), close=SymFn(lambda I2: None, "close"), flush=SymFn(lambda I2: None, "flush"),
               __enter__=SymFn(lambda I2: f, "__enter__"), __exit__=SymFn(lambda I2, *a: None, "__exit__"))
    return f


FUNCS = {}
BUILTINS = {
    open: b_open,
    len: b_len, min: b_min, max: b_max, abs: b_abs, sum: b_sum, isinstance: b_isinstance,
    divmod: b_divmod, ord: b_ord, chr: b_chr, any: b_any, all: b_all, sorted: b_sorted,
    hasattr: b_hasattr, getattr: b_getattr, setattr: b_setattr, repr: b_repr, round: b_round, id: b_id,
    iter: b_iter, next: b_next, math.floor: b_floor, math.ceil: b_ceil, callable: b_callable,
}


def _noop(I, args, kw, node):
    return None


def lookup(f):
    if f is object.__init__ or getattr(f, "__objclass__", None) is object and getattr(f, "__name__", "") == "__init__":
        return _noop
    try:
        return BUILTINS.get(f) or LIB.get(f)
    except TypeError:
        return None


# -- types -------------------------------------------------------------------
def t_int(I, args, kw, node):
    if not args:
        return 0
    v = args[0]
    if isinstance(v, bool):
        return int(v)
    if isinstance(v, int):
        return v
    if isinstance(v, Fraction):
        return int(v)
    if isinstance(v, z3.ExprRef):
        if z3.is_bool(v):
            return z3.If(v, 1, 0)
        return L.trunc(v)
    s = as_sbytes(v)
    if s is not None or isinstance(v, str):
        base = args[1] if len(args) > 1 else kw.get("base", 10)
        if s is not None and not isinstance(s.n, int) and getattr(I.current_contract, "abstract_numbers", False) and len(args) == 1:
            # the numeric value of a lexeme is a function of its bytes (A-LIB); int() may reject it
            from .absval import SFun
            ok = I.ctx.choose([True, False], "int()-accepts")
            I.ctx.choice_log.append(("int", ok))
            if ok:
                return SFun("int", [s], int)
            raise _sx().SymRaise(ValueError, "int() literal")
        return int_of_digits(I, v, base, node)
    hook = getattr(v, "__sym_int__", None)
    if hook:
        return hook(I, node)
    raise _sx().SymRaise(TypeError, "int() of %s" % type(v).__name__)


def digit_value(c, base):
    """(is_digit, value) of byte c in the given base."""
    dec = z3.And(c >= 48, c <= min(57, 48 + base - 1))
    val = c - 48
    isd = dec
    if base > 10:
        lo = z3.And(c >= 97, c < 97 + base - 10)
        up = z3.And(c >= 65, c < 65 + base - 10)
        isd = z3.Or(dec, lo, up)
        val = z3.If(dec, c - 48, z3.If(lo, c - 87, c - 55))
    return isd, val


def int_of_digits(I, v, base, node):
    """int(b, base) for byte strings of *concrete small length* made of digits
    (no sign/whitespace/underscore handling: those forms raise ValueError here
    only if the bytes are not digits - callers in the kernels pass digit runs)."""
    if isinstance(v, (str, bytes)):
        try:
            return int(v, base)
        except ValueError:
            raise _sx().SymRaise(ValueError, "int() literal")
    s = as_sbytes(v)
    if not isinstance(s.n, int):
        # split on small lengths, otherwise out of subset
        for n in range(0, 4):
            if I.ctx.branch(L.eq(s.n, n)):
                s = SBytes(n, s.at, s.elem_range, s.kind)
                break
        else:
            raise SymError("int() of byte string of unbounded symbolic length")
    if s.n == 0:
        raise _sx().SymRaise(ValueError, "int() of empty")
    val = 0
    for k in range(s.n):
        c = I.elem(s, k)
        isd, dv = digit_value(c, base)
        if not I.ctx.branch(isd):
            I.ctx.notes.add("int(): non-digit bytes (sign, blank, underscore) treated as ValueError")
            raise _sx().SymRaise(ValueError, "int() literal")
        val = val * base + dv
    return val


def t_float(I, args, kw, node):
    if not args:
        return Fraction(0)
    v = args[0]
    if isinstance(v, bool):
        return Fraction(int(v))
    if isinstance(v, (int, Fraction)):
        return Fraction(v)
    if isinstance(v, z3.ExprRef):
        if z3.is_int(v):
            return z3.ToReal(v)
        if z3.is_real(v):
            return v
        if z3.is_bool(v):
            return z3.ToReal(z3.If(v, 1, 0))
    if isinstance(v, (str, bytes)):
        try:
            return Fraction(repr(float(v)))
        except ValueError:
            raise _sx().SymRaise(ValueError, "float() literal")
    hook = getattr(v, "__sym_float__", None)
    if hook:
        return hook(I, node)
    if isinstance(v, SBytes) and getattr(I.current_contract, "abstract_numbers", False):
        from .absval import SFun
        ok = I.ctx.choose([True, False], "float()-accepts")
        I.ctx.choice_log.append(("float", ok))
        if ok:
            return SFun("float", [v], float)
        raise _sx().SymRaise(ValueError, "float() literal")
    if v is None or isinstance(v, (list, tuple, dict, SObj, SOpaque)):
        raise _sx().SymRaise(TypeError, "float() of %s" % type(v).__name__)
    if not hasattr(type(v), "__float__") and not hasattr(type(v), "__index__"):
        # a real object without numeric conversion (PSLiteral, PSKeyword, ...): native semantics
        raise _sx().SymRaise(TypeError, "float() of %s" % type(v).__name__)
    raise SymError("float() of %s" % type(v).__name__)


def t_bool(I, args, kw, node):
    if not args:
        return False
    return L.truth(args[0])


def t_bytes(I, args, kw, node):
    if not args:
        return b""
    v = args[0]
    if isinstance(v, bytes):
        return v
    if isinstance(v, SBytes):
        if v.kind != "bytes":
            check_byte_range(I, v, node)
        return SBytes(v.n, v.at, (0, 256), "bytes")
    if isinstance(v, SList):
        s = v.snapshot()
        check_byte_range(I, s, node)
        return SBytes(s.n, s.at, (0, 256), "bytes")
    if isinstance(v, (tuple, list)):
        if not L.any_z3(v):
            try:
                return bytes(v)
            except ValueError:
                raise _sx().SymRaise(ValueError, "bytes() range")
        vals = [I.numeric(x) for x in v]
        for x in vals:
            if isinstance(x, z3.ExprRef) and x.get_id() in I.ctx.known_bytes:
                continue
            if not I.ctx.branch(L.And(L.le(0, x), L.lt(x, 256))):
                raise _sx().SymRaise(ValueError, "bytes must be in range(0, 256)")
        vv = list(vals)
        return SBytes(len(vv), lambda k: _pick(vv, k), (0, 256), "bytes")
    if isinstance(v, int):
        return bytes(v)
    raise SymError("bytes() of %s" % type(v).__name__)


def _pick(vals, k):
    if isinstance(k, int):
        return vals[k]
    r = L.to_z3(vals[-1])
    for i in reversed(range(len(vals) - 1)):
        r = z3.If(k == i, L.to_z3(vals[i]), r)
    return r


def check_byte_range(I, s, node):
    ok = L.ForAllInt(0, s.n, lambda k: L.And(L.le(0, s.at(k)), L.lt(s.at(k), 256)))
    if not I.ctx.branch(ok):
        raise _sx().SymRaise(ValueError, "bytes must be in range(0, 256)")


def t_list(I, args, kw, node):
    if not args:
        return []
    v = args[0]
    if isinstance(v, (SBytes,)):
        if isinstance(v.n, int):
            return [I.elem(v, k) for k in range(v.n)]
        arr = z3.Array(I.ctx.fresh_name("lst"), z3.IntSort(), z3.IntSort())
        j = z3.Int(I.ctx.fresh_name("j"))
        I.ctx.assume(z3.ForAll([j], z3.Implies(z3.And(j >= 0, j < v.n), z3.Select(arr, j) == v.at(j))))
        if v.elem_range:
            I.ctx.assume(z3.ForAll([j], z3.And(z3.Select(arr, j) >= v.elem_range[0], z3.Select(arr, j) < v.elem_range[1])))
        return SList(arr, v.n, v.elem_range)
    if isinstance(v, SList):
        return SList(v.arr, v.n, v.elem_range)
    return list(I.iter_concrete(v, node))


def t_tuple(I, args, kw, node):
    if not args:
        return ()
    return tuple(I.iter_concrete(args[0], node))


def t_set(I, args, kw, node):
    if not args:
        return set()
    xs = I.iter_concrete(args[0], node)
    if L.any_z3(xs):
        raise SymError("set of symbolic values")
    return set(xs)


def t_dict(I, args, kw, node):
    d = {}
    if args:
        if isinstance(args[0], dict):
            d.update(args[0])
        else:
            for k, v in I.iter_concrete(args[0], node):
                d[k] = v
    d.update(kw)
    return d


def t_str(I, args, kw, node):
    if not args:
        return ""
    v = args[0]
    if isinstance(v, str):
        return v
    if isinstance(v, bytes) and len(args) > 1:
        try:
            return str(v, *args[1:])
        except UnicodeDecodeError:
            raise _sx().SymRaise(UnicodeDecodeError, "str()")
    if isinstance(v, SBytes) and len(args) > 1:
        # str(b, "utf-8"): a function of the bytes; may raise UnicodeDecodeError
        from .absval import SFun
        if I.ctx.choose([True, False], "decodes"):
            return SFun("str", [v] + list(args[1:]), str)
        raise _sx().SymRaise(UnicodeDecodeError, "str()")
    if L.any_z3(v) or isinstance(v, (SBytes, SObj, SList, SOpaque)):
        from .summaries import markup_mode, markup_piece
        if markup_mode(I):
            return markup_piece(I, v, "s")
        return "<str>"
    return str(v)


def t_object(I, args, kw, node):
    return SObj(object, {}, I.ctx.fresh_name("object"))


def t_array(I, args, kw, node):
    """array.array(typecode, initializer): modelled as a mutable int list (typecode range checks not modelled
    beyond the element range of the initializer)"""
    if len(args) < 2:
        return SList(z3.K(z3.IntSort(), z3.IntVal(0)), 0, None)
    init = args[1]
    r = t_list(I, [init], {}, node)
    if isinstance(r, list):
        arr = z3.K(z3.IntSort(), z3.IntVal(0))
        for i, x in enumerate(r):
            arr = z3.Store(arr, i, L.to_z3(L.num(I.numeric(x))))
        return SList(arr, len(r), None)
    return r


import array as _array

def t_islice(I, args, kw, node):
    """itertools.islice(iterable, stop) / (iterable, start, stop) on a sequence of known length"""
    a0 = args[0]
    from .values import SIterator, SIter
    if isinstance(a0, SIterator) and len(args) == 2:
        # islice(iterator, n): the next min(n, remaining) items; the iterator is advanced past them
        it, p0, stop = a0.it, a0.pos, args[1]
        rem = it.length - p0
        if isinstance(stop, int) and 0 <= stop <= 4 and L.is_z3(L.to_z3(rem) if not isinstance(rem, int) else rem) is False and isinstance(rem, int):
            take = min(rem, stop)
        elif isinstance(stop, int) and 0 <= stop <= 4:
            take = None
            for k in range(stop):
                if I.ctx.branch(L.eq(rem, k)):
                    take = k
                    break
            if take is None:
                I.ctx.assume(L.to_z3(L.le(stop, rem)))
                take = stop
        else:
            take = L.Min(rem, stop)
            I.ctx.assume(L.to_z3(L.le(0, stop)))
        I.note_write(a0)
        a0.pos = p0 + take
        if isinstance(take, int):
            return [it.item(p0 + k) for k in range(take)]
        return SIter(take, lambda k: it.item(p0 + k), "islice")
    if a0 is None or isinstance(a0, (int, float, bool)) or (L.is_z3(a0) and not isinstance(a0, z3.SeqRef)) \
            or (not isinstance(a0, (SObj, SBytes, SList, str, bytes, list, tuple, dict, set, frozenset)) and not L.is_z3(a0) and not hasattr(a0, "__iter__")
                and type(a0).__module__.startswith("pdfminer")):
        raise _sx().SymRaise(TypeError, "object is not iterable")
    xs = I.iter_concrete(a0, node)
    rest = [a for a in args[1:]]
    if any(L.is_z3(a) for a in rest):
        raise SymError("islice with symbolic bounds")
    import itertools
    return list(itertools.islice(xs, *rest))


def t_bytesio(I, args, kw, node):
    """io.BytesIO(data): an opaque file object that remembers what it wraps (only handed on to stubs in the modelled code)"""
    return SObj(None, {"_wrapped": args[0] if args else b""}, I.ctx.fresh_name("BytesIO"))


def t_map(I, args, kw, node):
    """map(f, xs) evaluated eagerly into a list (CPython is lazy: the difference is only *when* an exception of f surfaces; the modelled code consumes
    the map at once - by unpacking or list() - inside the same try block)"""
    if len(args) != 2:
        raise SymError("map with several iterables")
    I.ctx.notes.add("map(f, xs) evaluated eagerly")
    return [I.call(args[0], [x], {}, node) for x in I.iter_concrete(args[1], node)]


def t_stringio(I, args, kw, node):
    """io.StringIO(): an abstract text sink: write(s) appends to the recorded pieces, getvalue() returns ("text-written-to", sink); usable in `with`"""
    from .values import SymFn
    o = SObj(None, {"_pieces": []}, I.ctx.fresh_name("StringIO"))
    o.f.update(write=SymFn(lambda I2, s_: o.f["_pieces"].append(s_), "write"), getvalue=SymFn(lambda I2: ("text-written-to", o), "getvalue"),
               close=SymFn(lambda I2: None, "close"), __enter__=SymFn(lambda I2: o, "__enter__"), __exit__=SymFn(lambda I2, *a: None, "__exit__"))
    return o


def t_frozenset(I, args, kw, node):
    return frozenset(t_set(I, args, kw, node))


import itertools as _itertools
import io as _io
TYPES = {map: t_map, _io.StringIO: t_stringio, _io.BytesIO: t_bytesio, _itertools.islice: t_islice, frozenset: t_frozenset, _array.array: t_array, int: t_int, float: t_float, bool: t_bool, bytes: t_bytes, list: t_list, tuple: t_tuple,
         set: t_set, dict: t_dict, str: t_str, range: b_range, enumerate: b_enumerate, zip: b_zip,
         reversed: b_reversed, object: t_object}


# -- library functions ---------------------------------------------------------
def l_struct_pack(I, args, kw, node):
    fmt = args[0]
    if not isinstance(fmt, str):
        raise SymError("struct.pack with symbolic format")
    vals = args[1:]
    if not L.any_z3(vals):
        try:
            return struct.pack(fmt, *vals)
        except struct.error:
            raise _sx().SymRaise(struct.error, "struct.pack")
    big = fmt.startswith(">") or fmt.startswith("!")
    little = fmt.startswith("<")
    codes = fmt.lstrip("<>!=@")
    sizes = {"B": 1, "H": 2, "L": 4, "I": 4, "Q": 8}
    if len(codes) != len(vals) or any(c not in sizes for c in codes) or not (big or little):
        raise SymError("struct.pack format %r" % fmt)
    out = []
    for c, v in zip(codes, vals):
        w = sizes[c]
        v = I.numeric(v)
        if not I.ctx.branch(L.And(L.le(0, v), L.lt(v, 1 << (8 * w)))):
            raise _sx().SymRaise(struct.error, "struct.pack range")
        bs = [L.mod(L.floordiv(v, 1 << (8 * i)), 256) for i in range(w)]
        if big:
            bs.reverse()
        out.extend(bs)
    return SBytes(len(out), lambda k: _pick(out, k), (0, 256), "bytes")


def l_struct_unpack(I, args, kw, node):
    fmt, data = args
    from .summaries import SFmtRepeat
    if isinstance(fmt, SFmtRepeat):
        sizes = {"B": 1, "H": 2, "L": 4, "I": 4, "Q": 8}
        w = sizes[fmt.code]
        big = fmt.prefix in (">", "!")
        if not (big or fmt.prefix == "<"):
            raise SymError("struct.unpack native byte order")
        s = as_sbytes(data)
        if not I.ctx.branch(L.eq(s.n, fmt.count * w)):
            raise _sx().SymRaise(struct.error, "unpack requires a buffer of n*%d bytes" % w)

        def item(k, s=s, w=w, big=big):
            v = 0
            idx = range(w) if big else reversed(range(w))
            for t in idx:
                v = v * 256 + s.at(k * w + t)
            return v

        return SBytes(fmt.count, item, (0, 1 << (8 * w)), "tuple")
    if not isinstance(fmt, str):
        raise SymError("struct.unpack with symbolic format")
    if isinstance(data, bytes):
        try:
            return struct.unpack(fmt, data)
        except struct.error:
            raise _sx().SymRaise(struct.error, "struct.unpack")
    big = fmt.startswith(">") or fmt.startswith("!")
    codes = fmt.lstrip("<>!=@")
    sizes = {"B": 1, "H": 2, "L": 4, "I": 4, "Q": 8}
    import re as _re

    toks = _re.findall(r"(\d*)([BHLIQ])", codes)
    items = []
    for cnt, c in toks:
        items.extend([c] * (int(cnt) if cnt else 1))
    total = sum(sizes[c] for c in items)
    s = as_sbytes(data)
    if not I.ctx.branch(L.eq(s.n, total)):
        raise _sx().SymRaise(struct.error, "unpack requires a buffer of %d bytes" % total)
    out = []
    pos = 0
    for c in items:
        w = sizes[c]
        bs = [I.elem(s, pos + i) for i in range(w)]
        if not big:
            bs.reverse()
        v = 0
        for b in bs:
            v = v * 256 + b
        out.append(v)
        pos += w
    return tuple(out)


def l_int_from_bytes(I, args, kw, node):
    data = args[0]
    order = args[1] if len(args) > 1 else kw.get("byteorder", "big")
    if kw.get("signed", False):
        raise SymError("int.from_bytes signed")
    if isinstance(data, bytes):
        return int.from_bytes(data, order)
    s = as_sbytes(data)
    if isinstance(s.n, int):
        v = 0
        ks = range(s.n) if order == "big" else reversed(range(s.n))
        for k in ks:
            v = v * 256 + I.elem(s, k)
        return v
    from .specs_core import be_value

    return be_value(I.ctx, s, order)


_ISSPACE = z3.Function("str.isspace", z3.StringSort(), z3.BoolSort())


def str_isspace_term(t):
    """str.isspace as an uninterpreted predicate of the string (same string, same answer)"""
    if isinstance(t, str):
        return t.isspace()
    return _ISSPACE(t)


def l_re_sub(I, args, kw, node):
    """re.sub(pattern, b"", s) for an end-anchored pattern over a few literal bytes (strip a suffix): the number of bytes
    removed depends only on the classes of the last few bytes; it is tabulated by running CPython's own re.sub on one
    representative per class combination, so the anchors' semantics ($ also matches before a final newline) are Python's."""
    import re, itertools
    from .methods import concrete
    from .values import SBytes
    if concrete(args, kw):
        return re.sub(*args, **kw)
    pat, repl, s = args[0], args[1], args[2]
    if kw or len(args) != 3 or not isinstance(pat, bytes) or repl != b"" or not isinstance(s, SBytes):
        raise SymError("re.sub: only re.sub(<bytes pattern>, b'', <bytes>) is modelled")
    if not (pat.endswith(b"$") or pat.endswith(b"\\Z")):
        raise SymError("re.sub: pattern is not anchored at the end")
    parsed = re._parser.parse(pat)
    lits = set()

    def walk(items):
        for op, av in items:
            name = str(op)
            if name == "LITERAL":
                lits.add(av)
            elif name == "IN":
                for o2, a2 in av:
                    if str(o2) != "LITERAL":
                        raise SymError("re.sub: character class beyond literals")
                    lits.add(a2)
            elif name == "BRANCH":
                for alt in av[1]:
                    walk(alt)
            elif name == "SUBPATTERN":
                walk(av[3])
            elif name == "AT":
                pass
            else:
                raise SymError("re.sub: pattern element %s" % name)
    walk(parsed)
    _lo, hi = parsed.getwidth()
    if hi > 3 or len(lits) > 3:
        raise SymError("re.sub: pattern too wide for the suffix table")
    lits = sorted(lits)
    other = next(b for b in range(97, 256) if b not in lits)
    K = hi + 1
    cls_reps = lits + [other]

    def removed(tail):
        out = re.sub(pat, repl, bytes(tail))
        if not bytes(tail).startswith(out):
            raise SymError("re.sub: not a suffix strip")
        return len(tail) - len(out)
    # short inputs: one case per length; long ones: the last K bytes decide
    for m in range(K):
        if I.ctx.branch(L.eq(s.n, m)):
            r = 0
            for combo in itertools.product(cls_reps, repeat=m):
                cond = L.And(*[(L.eq(s.at(k), combo[k]) if combo[k] != other else L.And(*[L.ne(s.at(k), v) for v in lits])) for k in range(m)])
                r = L.If(cond, removed(combo), r)
            return SBytes(m - r if not isinstance(r, int) else m - r, s.at, s.elem_range, s.kind)
    r = 0
    for combo in itertools.product(cls_reps, repeat=K):
        if removed((other,) * 2 + combo) != removed(combo):
            raise SymError("re.sub: strip depends on more than the last %d bytes" % K)
        cond = L.And(*[(L.eq(s.at(s.n - K + k), combo[k]) if combo[k] != other else L.And(*[L.ne(s.at(s.n - K + k), v) for v in lits])) for k in range(K)])
        r = L.If(cond, removed(combo), r)
    out = SBytes(s.n - r, s.at, s.elem_range, s.kind)
    out.root, out.off = getattr(s, "root", None) or s, getattr(s, "off", 0)
    return out


import re as _re_mod
LIB = {struct.pack: l_struct_pack, struct.unpack: l_struct_unpack, int.from_bytes: l_int_from_bytes, _re_mod.sub: l_re_sub}
