"""Core recursive spec functions shared by summaries."""
import z3
from . import logic as L


def be_value(ctx, s, order="big"):
    raise NotImplementedError("big-endian value of symbolic-length bytes: use specs.bytesnum")
