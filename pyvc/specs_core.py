"""Core spec helpers shared by summaries."""
import z3
from . import logic as L


def be_value(ctx, s, order="big"):
    """int.from_bytes for a byte string whose length is symbolic but small: case split on 0..8"""
    from .symexec import PathEnd
    from .values import SymError
    for v in range(0, 9):
        if ctx.branch(L.eq(s.n, v)):
            ks = range(v) if order == "big" else reversed(range(v))
            r = 0
            for k in ks:
                r = r * 256 + s.at(k)
            return r
    raise SymError("int.from_bytes on a byte string longer than 8 or of unbounded length")
