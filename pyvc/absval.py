"""Abstract (uninterpreted) values: the result of a library function the engine does not interpret, as a
function application whose identity is determined by its arguments (congruence)."""
from . import logic as L


class SFun:
    def __init__(self, name, args, pytype=object):
        self.name = name
        self.args = list(args)
        self.pytype = pytype

    def __sym_eq__(self, I, other):
        if not isinstance(other, SFun) or other.name != self.name or len(other.args) != len(self.args):
            return False
        from .summaries import equal
        return L.And(*[equal(I, a, b) for a, b in zip(self.args, other.args)])

    def __sym_isinstance__(self, I, c):
        return issubclass(self.pytype, c) if isinstance(self.pytype, type) else False

    def __sym_truth__(self):
        return True

    def __repr__(self):
        return "%s(%s)" % (self.name, ", ".join(map(repr, self.args)))


# ---------------------------------------------------------------------------------------------------------
# byte-string terms over uninterpreted primitives (hashes, ciphers): enough algebra for key derivation code
_cnt = [0]


class BT:
    """kinds: ('leaf', SBytes|bytes) ('fn', name, args) ('cat', parts) ('slice', src, lo, hi).  `n` = length (int) or None"""

    def __init__(self, kind, *payload, n=None):
        self.kind, self.payload, self.n = kind, payload, n

    # -- constructors ---------------------------------------------------------------------------------
    @staticmethod
    def of(x):
        from .values import SBytes
        if isinstance(x, BT):
            return x
        if isinstance(x, (bytes, bytearray)):
            return BT("leaf", bytes(x), n=len(x))
        if isinstance(x, SBytes):
            return BT("leaf", x, n=x.n if isinstance(x.n, int) else None)
        raise TypeError("not a byte string: %r" % (x,))

    @staticmethod
    def fn(name, args, n=None):
        return BT("fn", name, tuple(args), n=n)

    @staticmethod
    def cat(*parts):
        flat = []
        for p in parts:
            p = BT.of(p)
            if p.kind == "cat":
                flat.extend(p.payload[0])
            elif p.n == 0:
                continue
            else:
                flat.append(p)
        # merge adjacent concrete leaves
        out = []
        for p in flat:
            if out and out[-1].kind == "leaf" and p.kind == "leaf" and isinstance(out[-1].payload[0], bytes) and isinstance(p.payload[0], bytes):
                out[-1] = BT("leaf", out[-1].payload[0] + p.payload[0], n=out[-1].n + p.n)
            else:
                out.append(p)
        if not out:
            return BT("leaf", b"", n=0)
        if len(out) == 1:
            return out[0]
        n = sum(p.n for p in out) if all(p.n is not None for p in out) else None
        return BT("cat", tuple(out), n=n)

    def slice(self, lo, hi):
        from .values import SBytes
        if self.n is not None:
            lo = 0 if lo is None else (lo + self.n if lo < 0 else lo)
            hi = self.n if hi is None else (hi + self.n if hi < 0 else hi)
            lo, hi = max(0, min(lo, self.n)), max(0, min(hi, self.n))
            if hi <= lo:
                return BT("leaf", b"", n=0)
            if lo == 0 and hi == self.n:
                return self
            if self.kind == "leaf":
                v = self.payload[0]
                if isinstance(v, bytes):
                    return BT("leaf", v[lo:hi], n=hi - lo)
                return BT("leaf", SBytes(hi - lo, (lambda k, v=v, lo=lo: v.at(lo + k)), v.elem_range, v.kind), n=hi - lo)
            if self.kind == "cat":
                parts, pos = [], 0
                for p in self.payload[0]:
                    if p.n is None:
                        break
                    a, b = max(lo, pos), min(hi, pos + p.n)
                    if a < b:
                        parts.append(p.slice(a - pos, b - pos))
                    pos += p.n
                else:
                    return BT.cat(*parts)
            if self.kind == "slice":
                src, l0, _h0 = self.payload
                return src.slice(l0 + lo, l0 + hi)
            out = BT("slice", self, lo, hi, n=hi - lo)
            return out
        if lo in (None, 0) and hi is None:
            return self
        return BT("slice", self, lo, hi, n=None)

    # -- engine hooks -----------------------------------------------------------------------------------
    def __sym_binop__(self, I, op, other, node):
        import ast
        if isinstance(op, ast.Add):
            return BT.cat(self, other)
        from .values import SymError
        raise SymError("operator on byte-string term")

    def __sym_getitem__(self, I, idx, node):
        from .values import SymError
        if isinstance(idx, slice):
            if L.any_z3(idx.start, idx.stop) or idx.step is not None:
                raise SymError("symbolic slice of a byte-string term")
            return self.slice(idx.start, idx.stop)
        if self.n is not None and isinstance(idx, int):
            i = idx + self.n if idx < 0 else idx
            return BT.fn("byte", [self.slice(i, i + 1)], n=None).as_int()
        raise SymError("index into a byte-string term")

    def as_int(self):
        return self

    def view(self):
        """the bytes of an opaque term as symbolic ints (one uninterpreted array per term, memoised), so that code
        which iterates over e.g. a digest sees the same bytes every time"""
        from .values import SBytes
        import z3
        if self.kind == "leaf":
            v = self.payload[0]
            return SBytes.from_concrete(v) if isinstance(v, bytes) else v
        if self.n is None:
            from .values import SymError
            raise SymError("bytes of a term of unknown length")
        if not hasattr(self, "_view"):
            _cnt[0] += 1
            arr = z3.Array("bytes_of_term!%d" % _cnt[0], z3.IntSort(), z3.IntSort())
            self._view = SBytes(self.n, lambda k, arr=arr: z3.Select(arr, L.to_z3(k)), (0, 256), "bytes")
        return self._view

    def __sym_iter__(self, I):
        from .values import SIter
        v = self.view()
        return SIter(v.n, lambda k: I.elem(v, k), "term-bytes")

    def __sym_len__(self, I):
        from .values import SymError
        if self.n is None:
            raise SymError("length of an opaque byte-string term")
        return self.n

    def __sym_truth__(self):
        if self.n is None:
            raise TypeError("truth of an opaque byte-string term")
        return self.n != 0

    def __sym_isinstance__(self, I, c):
        return c in (bytes, object)

    def __sym_eq__(self, I, other):
        return bt_eq(self, other)

    def __repr__(self):
        if self.kind == "leaf":
            v = self.payload[0]
            return repr(v) if isinstance(v, bytes) else "<bytes n=%s>" % (self.n,)
        if self.kind == "fn":
            return "%s(%s)" % (self.payload[0], ", ".join(map(repr, self.payload[1])))
        if self.kind == "cat":
            return " + ".join(map(repr, self.payload[0]))
        return "%r[%s:%s]" % self.payload


def bt_eq(a, b):
    """structural equality of byte-string terms (sound: equal structure => equal bytes; unequal structure is
    reported as False only between concrete leaves)"""
    from .summaries import sbytes_eq, as_sbytes
    from .values import SBytes
    try:
        a, b = BT.of(a), BT.of(b)
    except TypeError:
        return False
    if a.kind == "leaf" and b.kind == "leaf":
        va, vb = a.payload[0], b.payload[0]
        if isinstance(va, bytes) and isinstance(vb, bytes):
            return va == vb
        return sbytes_eq(as_sbytes(va), as_sbytes(vb))
    if a.kind != b.kind:
        # a concatenation of leaves against one leaf of the same length: compare bytewise
        if a.n is not None and a.n == b.n and all(p.kind == "leaf" for p in (a.payload[0] if a.kind == "cat" else (a,))) \
                and all(p.kind == "leaf" for p in (b.payload[0] if b.kind == "cat" else (b,))):
            return L.And(*[L.eq(_byte_at(a, k), _byte_at(b, k)) for k in range(a.n)])
        return Undecided(a, b)
    if a.kind == "fn":
        if a.payload[0] != b.payload[0] or len(a.payload[1]) != len(b.payload[1]):
            return Undecided(a, b)
        rs = []
        for x, y in zip(a.payload[1], b.payload[1]):
            if isinstance(x, (BT, bytes, SBytes)) or isinstance(y, (BT, bytes, SBytes)):
                r = bt_eq(x, y)
            else:
                r = L.eq(x, y)
            if isinstance(r, Undecided):
                return r
            rs.append(r)
        return L.And(*rs)
    if a.kind == "cat":
        pa, pb = a.payload[0], b.payload[0]
        if len(pa) == len(pb) and all(x.n == y.n or x.n is None or y.n is None for x, y in zip(pa, pb)):
            rs = [bt_eq(x, y) for x, y in zip(pa, pb)]
            for r in rs:
                if isinstance(r, Undecided):
                    return r
            return L.And(*rs)
        if a.n is not None and a.n == b.n and all(p.kind == "leaf" for p in pa + pb):
            return L.And(*[L.eq(_byte_at(a, k), _byte_at(b, k)) for k in range(a.n)])
        return Undecided(a, b)
    if a.kind == "slice":
        if a.payload[1:] == b.payload[1:]:
            return bt_eq(a.payload[0], b.payload[0])
    return Undecided(a, b)


def _byte_at(t, k):
    if t.kind == "leaf":
        v = t.payload[0]
        return v[k] if isinstance(v, bytes) else v.at(k)
    pos = 0
    for p in t.payload[0]:
        if k < pos + p.n:
            return _byte_at(p, k - pos)
        pos += p.n
    raise IndexError(k)


class Undecided:
    """the equality of two byte-string terms that the algebra cannot decide"""

    def __init__(self, a, b):
        self.a, self.b = a, b

    def __bool__(self):
        raise TypeError("undecided equality of %r and %r" % (self.a, self.b))


def bt_eval(t):
    """concrete value of a byte-string term whose leaves are concrete (real primitives): used by replay / cross-check"""
    import hashlib
    from .values import SBytes
    if isinstance(t, (bytes, bytearray)):
        return bytes(t)
    if isinstance(t, SBytes):
        if not isinstance(t.n, int):
            raise ValueError("symbolic length")
        vals = [t.at(k) for k in range(t.n)]
        if not all(isinstance(v, int) for v in vals):
            raise ValueError("symbolic bytes")
        return bytes(vals)
    if t.kind == "leaf":
        return bt_eval(t.payload[0])
    if t.kind == "cat":
        return b"".join(bt_eval(p) for p in t.payload[0])
    if t.kind == "slice":
        return bt_eval(t.payload[0])[t.payload[1]:t.payload[2]]
    name, args = t.payload
    a = [bt_eval(x) if isinstance(x, (BT, bytes, SBytes)) else x for x in args]
    if name in ("md5", "sha256", "sha384", "sha512"):
        return getattr(hashlib, name)(a[0]).digest()
    if name == "rc4":
        from specs.pdfcrypt import rc4
        return rc4(a[0], a[1])
    if name == "aes-cbc-decrypt":
        from cryptography.hazmat.primitives.ciphers import Cipher, algorithms, modes
        return Cipher(algorithms.AES(a[0]), modes.CBC(a[1])).decryptor().update(a[2])
    if name == "pkcs7-unpad":
        p = a[0]
        if p and 1 <= p[-1] <= 16 and p[-1] <= len(p) and p[-p[-1]:] == bytes([p[-1]]) * p[-1]:
            return p[:-p[-1]]
        return p
    raise ValueError("no concrete meaning for %s" % name)
