"""Abstract (uninterpreted) values: the result of a library function the engine does not interpret, as a
function application whose identity is determined by its arguments (congruence)."""
from . import logic as L


class SFun:
    def __init__(self, name, args, pytype=object):
        self.name = name
        self.args = list(args)
        self.pytype = pytype

    def __sym_eq__(self, I, other):
        if not isinstance(other, SFun) or other.name != self.name or len(other.args) != len(self.args):
            return False
        from .summaries import equal
        return L.And(*[equal(I, a, b) for a, b in zip(self.args, other.args)])

    def __sym_isinstance__(self, I, c):
        return issubclass(self.pytype, c) if isinstance(self.pytype, type) else False

    def __sym_truth__(self):
        return True

    def __repr__(self):
        return "%s(%s)" % (self.name, ", ".join(map(repr, self.args)))
