#!/bin/sh
# Builds /verif/.venv offline: python 3.12 (from /venv) + z3-solver, cvc5, crosshair, deal, icontract, jsonschema
# from the wheelhouse, plus a .pth that exposes /venv's site-packages (pdfminer's own deps).
set -e
cd "$(dirname "$0")"
if [ -x .venv/bin/python ] && .venv/bin/python -c "import z3, jsonschema" 2>/dev/null; then
  exit 0
fi
rm -rf .venv
/venv/bin/python -m venv .venv
PIP_NO_INDEX=1 .venv/bin/pip install -q --no-index --find-links /opt/veriftools/wheels z3-solver cvc5 crosshair-tool deal icontract jsonschema hypothesis >/dev/null
SP=$(.venv/bin/python -c "import sysconfig; print(sysconfig.get_paths()['purelib'])")
echo "import site; site.addsitedir('/venv/lib/python3.12/site-packages')" > "$SP/repo.pth"
.venv/bin/python -c "import z3, jsonschema; print('venv ok', z3.get_version_string())"
