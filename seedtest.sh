#!/bin/sh
# usage: ./seedtest.sh <seed-dir> <PROP>   -- applies patch.diff to a scratch worktree of /repo HEAD, runs ./check there
SD=$1; P=$2; WT=/tmp/wt-seed-$$
git -C /repo worktree add -q $WT HEAD || exit 9
if ! git -C $WT apply --3way $SD/patch.diff 2>/tmp/apply.err && ! (cd $WT && patch -p1 --fuzz=3 -s < $SD/patch.diff); then echo "PATCH-FAILED $SD"; cat /tmp/apply.err; git -C /repo worktree remove --force $WT; exit 8; fi
git -C $WT diff --stat | tail -1
( cd /verif && PYVC_REPO=$WT ./check $P $3 $4 | grep -v "^KNOWN-FINDING" | cut -c1-220 | head -${LINES_MAX:-12} ; )
[ -f $SD/demo.py ] && { PDFMINER_ROOT=$WT /venv/bin/python $SD/demo.py >/dev/null 2>&1; echo "demo(modified) exit=$?"; PDFMINER_ROOT=/repo /venv/bin/python $SD/demo.py >/dev/null 2>&1; echo "demo(/repo) exit=$?"; }
git -C /repo worktree remove --force $WT
