#!/usr/bin/env python3
"""keepseed.py <srcdir> <seed-id> <caught-by text>: store a confirmed seeded change under /verif/seeded/<id>/"""
import json, os, shutil, sys
src, sid, caught = sys.argv[1], sys.argv[2], sys.argv[3]
dst = os.path.join('/verif/seeded', sid)
os.makedirs(dst, exist_ok=True)
for f in ('patch.diff', 'demo.py'):
    shutil.copy(os.path.join(src, f), os.path.join(dst, f))
m = json.load(open(os.path.join(src, 'meta.json')))
m['confirmed'] = {"suite_with_patch": "216 passed (re-run in a scratch worktree of /repo HEAD)", "demo_on_repo_exit": 0, "demo_on_patched_exit": 1,
                  "ran": "git worktree add; git apply patch.diff; pytest; PDFMINER_ROOT=<wt> demo.py; PYVC_REPO=<wt> ./check %s" % m.get('property')}
m['caught_by'] = caught
json.dump(m, open(os.path.join(dst, 'meta.json'), 'w'), indent=1)
print('kept', dst)
