"""Minimal independent PDF writer used by bounded stand-ins and replay drivers
(written from ISO 32000-1 7.3/7.5, not from pdfminer)."""
import io


class Name(str):
    pass


class Ref:
    def __init__(self, num, gen=0):
        self.num, self.gen = num, gen


class Stream:
    def __init__(self, d, data):
        self.d, self.data = dict(d), data


class Raw(bytes):
    """pre-serialised object text"""


def ser(o):
    if isinstance(o, Raw):
        return bytes(o)
    if o is None:
        return b"null"
    if isinstance(o, bool):
        return b"true" if o else b"false"
    if isinstance(o, Name):
        # ISO 32000-1 7.3.5: white space, delimiters, '#' and bytes outside 33..126 are written as #xx
        return b"/" + b"".join(bytes((b,)) if 33 <= b <= 126 and b not in b"()<>[]{}/%#" else b"#%02X" % b for b in o.encode("latin-1"))
    if isinstance(o, int):
        return str(o).encode()
    if isinstance(o, float):
        return ("%.6f" % o).rstrip("0").rstrip(".").encode() or b"0"
    if isinstance(o, bytes):
        return b"(" + o.replace(b"\\", b"\\\\").replace(b"(", b"\\(").replace(b")", b"\\)") + b")"
    if isinstance(o, str):
        return ser(o.encode("latin-1"))
    if isinstance(o, Ref):
        return b"%d %d R" % (o.num, o.gen)
    if isinstance(o, (list, tuple)):
        return b"[" + b" ".join(ser(x) for x in o) + b"]"
    if isinstance(o, dict):
        return b"<<" + b" ".join(ser(Name(k)) + b" " + ser(v) for k, v in o.items()) + b">>"
    if isinstance(o, Stream):
        d = dict(o.d)
        d.setdefault("Length", len(o.data))
        return ser(d) + b"\nstream\n" + o.data + b"\nendstream"
    raise TypeError(type(o))


def build(objs, root, info=None, extra_trailer=None):
    """objs: {num: value}.  Classic xref table, one revision."""
    out = io.BytesIO()
    out.write(b"%PDF-1.7\n%\xe2\xe3\xcf\xd3\n")
    offs = {}
    for num in sorted(objs):
        offs[num] = out.tell()
        out.write(b"%d 0 obj\n" % num + ser(objs[num]) + b"\nendobj\n")
    xpos = out.tell()
    size = max(objs) + 1
    out.write(b"xref\n0 %d\n" % size)
    out.write(b"0000000000 65535 f \n")
    for n in range(1, size):
        if n in offs:
            out.write(b"%010d 00000 n \n" % offs[n])
        else:
            out.write(b"0000000000 65535 f \n")
    tr = {"Size": size, "Root": Ref(root)}
    if info:
        tr["Info"] = Ref(info)
    if extra_trailer:
        tr.update(extra_trailer)
    out.write(b"trailer\n" + ser(tr) + b"\nstartxref\n%d\n%%%%EOF\n" % xpos)
    return out.getvalue()


def simple_font(widths=None, first=32, name="F1", base="Helvetica"):
    d = {"Type": Name("Font"), "Subtype": Name("Type1"), "BaseFont": Name(base)}
    if widths is not None:
        d.update({"FirstChar": first, "Widths": list(widths)})
        d["FontDescriptor"] = {"Type": Name("FontDescriptor"), "FontName": Name(base), "Flags": 32, "Ascent": 750, "Descent": -250,
                               "FontBBox": [0, -250, 1000, 750], "ItalicAngle": 0, "CapHeight": 700, "StemV": 80}
    return d


def one_page_doc(content, resources=None, mediabox=(0, 0, 612, 792), extra_page=None, extra_objs=None):
    """catalog 1, pages 2, page 3, contents 4 (+ font 5 unless resources given)"""
    objs = {}
    if resources is None:
        objs[5] = simple_font(widths=[500] * 95, base="Custom")
        resources = {"Font": {"F1": Ref(5)}}
    objs[1] = {"Type": Name("Catalog"), "Pages": Ref(2)}
    objs[2] = {"Type": Name("Pages"), "Kids": [Ref(3)], "Count": 1}
    page = {"Type": Name("Page"), "Parent": Ref(2), "MediaBox": list(mediabox), "Contents": Ref(4), "Resources": resources}
    if extra_page:
        page.update(extra_page)
    objs[3] = page
    objs[4] = Stream({}, content if isinstance(content, bytes) else content.encode("latin-1"))
    if extra_objs:
        objs.update(extra_objs)
    return build(objs, 1)
