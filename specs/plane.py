"""Spatial index specification (DESIGN.md appendix A.8)."""
from pyvc.logic import And, Or, Not, lt, le, Min, Max, floor, floordiv, Implies


def proper_overlap(a, b):
    """Open-interior overlap of two boxes (x0,y0,x1,y1)."""
    return And(lt(a[0], b[2]), lt(b[0], a[2]), lt(a[1], b[3]), lt(b[1], a[3]))


def lo(v, g):
    return floordiv(floor(v), g)


def hi(v, g):
    return floordiv(floor(v + g), g)


def clipped(b, B):
    return (Max(B[0], b[0]), Max(B[1], b[1]), Min(B[2], b[2]), Min(B[3], b[3]))


def in_cells(B, g, b, cx, cy):
    """(cx, cy) is a grid cell assigned to box b in an index with bounds B, grid size g."""
    c = clipped(b, B)
    return And(proper_overlap(b, B),
               le(lo(c[0], g), cx), lt(cx, hi(c[2], g)),
               le(lo(c[1], g), cy), lt(cy, hi(c[3], g)))


def brute_force(boxes, q):
    return [i for i, b in enumerate(boxes) if proper_overlap(b, q)]
