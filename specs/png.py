"""PNG 1.2 section 6 (filter algorithms) and TIFF 6.0 section 14 predictor 2, as spec functions."""
from pyvc.logic import And, Or, If, le, lt, eq, Abs, mod, floordiv, Max


def paeth(a, b, c):
    p = a + b - c
    pa, pb, pc = Abs(p - a), Abs(p - b), Abs(p - c)
    return If(And(le(pa, pb), le(pa, pc)), a, If(le(pb, pc), b, c))


def predictor(ft, a, b, c):
    """filter type 0..4 -> predicted value from left a, above b, upper-left c"""
    return If(eq(ft, 0), 0, If(eq(ft, 1), a, If(eq(ft, 2), b, If(eq(ft, 3), floordiv(a + b, 2), paeth(a, b, c)))))


def row_bytes(colors, columns, bits):
    return floordiv(colors * columns * bits + 7, 8)


def pixel_bytes(colors, bits):
    return Max(1, floordiv(colors * bits + 7, 8))


_UNF = [None]


def unfilter_byte(enc, ft, a, b, c):
    """(enc + Pred(ft, a, b, c)) mod 256 -- as a *defined function* on z3 terms, so that quantified
    invariants mention an opaque application and the definition is unfolded only where needed."""
    from pyvc.logic import any_z3, to_z3
    import z3
    if not any_z3(enc, ft, a, b, c):
        return (enc + predictor(ft, a, b, c)) % 256
    if _UNF[0] is None:
        f = z3.RecFunction("png_unfilter", z3.IntSort(), z3.IntSort(), z3.IntSort(), z3.IntSort(), z3.IntSort(), z3.IntSort())
        e_, f_, a_, b_, c_ = z3.Ints("e_ f_ a_ b_ c_")
        z3.RecAddDefinition(f, [e_, f_, a_, b_, c_], to_z3(mod(e_ + predictor(f_, a_, b_, c_), 256)))
        _UNF[0] = f
    return _UNF[0](to_z3(enc), to_z3(ft), to_z3(a), to_z3(b), to_z3(c))
