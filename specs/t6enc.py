"""ITU-T T.6 (Group 4, MMR) encoder written from the recommendation (2.2: coding modes), using the pinned
code tables (specs/t4_tables.json).  Pixels: 1 = white, 0 = black (the decoder's convention)."""
import json
import os

_T = json.load(open(os.path.join(os.path.dirname(__file__), "t4_tables.json")))
MODE = {v: b for b, v in _T["MODE"] if not isinstance(v, str) or v in ("h", "p", "e")}
WHITE = {v: b for b, v in _T["WHITE"]}
BLACK = {v: b for b, v in _T["BLACK"]}


def run_code(n, white):
    tab = WHITE if white else BLACK
    out = ""
    while n >= 2560:
        out += tab[2560]
        n -= 2560
    if n >= 64:
        out += tab[(n // 64) * 64]
        n %= 64
    return out + tab[n]


def changing(row, x):
    prev = 1 if x == 0 else row[x - 1]
    return row[x] != prev


def next_change(row, start, w):
    x = start
    while x < w and not changing(row, x):
        x += 1
    return x


def encode(rows, width, rng=None, bytealign=False, eofb=True, prefer="mix"):
    bits = []
    ref = [1] * width
    for row in rows:
        line = ""
        a0, color = -1, 1
        while a0 < width:
            # a1: next changing element on the coding line right of a0
            a1 = a0 + 1 if a0 >= 0 else 0
            if a0 < 0:
                a1 = 0
                while a1 < width and row[a1] == 1:
                    a1 += 1
            else:
                while a1 < width and row[a1] == color:
                    a1 += 1
            # b1: first changing element on ref right of a0 of opposite colour to a0's colour; b2 next
            b1 = a0 + 1
            while b1 < width and not (changing(ref, b1) and ref[b1] != color):
                b1 += 1
            b2 = b1 + 1
            while b2 < width and not changing(ref, b2):
                b2 += 1
            if b1 >= width:
                b2 = width
            if b2 < a1:
                line += MODE["p"]
                a0 = b2
                continue
            d = a1 - b1
            use_v = -3 <= d <= 3
            if use_v and rng is not None and prefer == "mix" and rng.random() < 0.25:
                use_v = False      # any admissible mix: horizontal mode is always allowed
            if use_v:
                line += MODE[d]
                a0, color = a1, 1 - color
            else:
                a2 = a1
                while a2 < width and row[a2] != color:
                    a2 += 1
                s = max(a0, 0)
                line += MODE["h"] + run_code(a1 - s, color == 1) + run_code(a2 - a1, color != 1)
                a0 = a2
        if bytealign:
            line += "0" * (-len(line) % 8)
        bits.append(line)
        ref = list(row)
    s = "".join(bits)
    if eofb:
        s += MODE["e"]
    s += "0" * (-len(s) % 8)
    return bytes(int(s[i:i + 8], 2) for i in range(0, len(s), 8))


def pack(rows, width, black_is_1=False):
    out = bytearray()
    for row in rows:
        v = [(1 - b) if black_is_1 else b for b in row]
        for i in range(0, width, 8):
            byte = 0
            for t in range(8):
                if i + t < width and v[i + t]:
                    byte |= 128 >> t
            out.append(byte)
    return bytes(out)
