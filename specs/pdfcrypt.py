"""Independent writer for the standard security handler (ISO 32000-1 7.6, ISO 32000-2 7.6.4): RC4 40/128 (R2, R3), AESV2 (R4),
AESV3 (R5, R6).  Written from the standards; uses hashlib and `cryptography` only."""
import hashlib
import os
import struct

PAD = bytes.fromhex("28BF4E5E4E758A4164004E56FFFA01082E2E00B6D0683E802F0CA9FE6453697A")


def rc4(key, data):
    s = list(range(256)); j = 0
    for i in range(256):
        j = (j + s[i] + key[i % len(key)]) % 256
        s[i], s[j] = s[j], s[i]
    out = bytearray(); i = j = 0
    for c in data:
        i = (i + 1) % 256; j = (j + s[i]) % 256
        s[i], s[j] = s[j], s[i]
        out.append(c ^ s[(s[i] + s[j]) % 256])
    return bytes(out)


def aes_cbc(key, iv, data, enc=True):
    from cryptography.hazmat.primitives.ciphers import Cipher, algorithms, modes
    c = Cipher(algorithms.AES(key), modes.CBC(iv))
    o = c.encryptor() if enc else c.decryptor()
    return o.update(data) + o.finalize()


def pkcs7(data):
    n = 16 - len(data) % 16
    return data + bytes([n]) * n


class Legacy:
    """R2/R3/R4"""
    def __init__(self, R, keybits, user, owner, P, docid, aes=False, encrypt_metadata=True, v1=False):
        # v1: write /V 1 (40-bit RC4, no /Length) together with revision 3 - legal: the revision follows the permission bits, not the algorithm version
        self.v1 = v1 and R == 3 and keybits == 40
        self.R, self.n, self.P, self.docid, self.aes, self.em = R, (5 if R == 2 else keybits // 8), P, docid, aes, encrypt_metadata
        up, op = (user + PAD)[:32], ((owner or user) + PAD)[:32]
        h = hashlib.md5(op).digest()
        if R >= 3:
            for _ in range(50):
                h = hashlib.md5(h).digest()
        okey = h[: self.n]
        O = rc4(okey, up)
        if R >= 3:
            for i in range(1, 20):
                O = rc4(bytes(b ^ i for b in okey), O)
        self.O = O
        h = hashlib.md5(up + O + struct.pack("<I", P & 0xFFFFFFFF) + docid + (b"\xff\xff\xff\xff" if (R >= 4 and not encrypt_metadata) else b"")).digest()
        if R >= 3:
            for _ in range(50):
                h = hashlib.md5(h[: self.n]).digest()
        self.key = h[: self.n]
        if R == 2:
            self.U = rc4(self.key, PAD)
        else:
            u = rc4(self.key, hashlib.md5(PAD + docid).digest())
            for i in range(1, 20):
                u = rc4(bytes(b ^ i for b in self.key), u)
            self.U = u + b"\0" * 16

    def encrypt(self, objnum, gen, data):
        k = self.key + struct.pack("<I", objnum)[:3] + struct.pack("<I", gen)[:2] + (b"sAlT" if self.aes else b"")
        k = hashlib.md5(k).digest()[: min(self.n + 5, 16)]
        if self.aes:
            iv = os.urandom(16)
            return iv + aes_cbc(k, iv, pkcs7(data))
        return rc4(k, data)

    def dict(self):
        from specs.pdfgen import Name
        Ps = self.P if self.P < 2 ** 31 else self.P - 2 ** 32
        d = {"Filter": Name("Standard"), "R": self.R, "O": self.O, "U": self.U, "P": Ps}
        if self.R == 2:
            d["V"] = 1
        elif self.R == 3 and self.v1:
            d["V"] = 1
        elif self.R == 3:
            d.update({"V": 2, "Length": self.n * 8})
        else:
            d.update({"V": 4, "Length": 128, "CF": {"StdCF": {"CFM": Name("AESV2" if self.aes else "V2"), "AuthEvent": Name("DocOpen"), "Length": 16}},
                      "StmF": Name("StdCF"), "StrF": Name("StdCF")})
            if not self.em:
                d["EncryptMetadata"] = False
        return d


def hash_2b(password, salt, udata, R):
    k = hashlib.sha256(password + salt + udata).digest()
    if R == 5:
        return k
    i = 0
    while True:
        k1 = (password + k + udata) * 64
        e = aes_cbc(k[:16], k[16:32], k1)
        k = (hashlib.sha256, hashlib.sha384, hashlib.sha512)[int.from_bytes(e[:16], "big") % 3](e).digest()
        i += 1
        if i >= 64 and e[-1] <= i - 32:
            break
    return k[:32]


class V5:
    def __init__(self, R, user, owner, P, seed=b""):
        import random
        rnd = random.Random(seed + user + owner)
        rb = lambda n: bytes(rnd.randrange(256) for _ in range(n))
        self.R, self.P = R, P
        self.key = rb(32)
        up, op = user[:127], (owner or user)[:127]
        uvs, uks = rb(8), rb(8)
        self.U = hash_2b(up, uvs, b"", R) + uvs + uks
        self.UE = aes_cbc(hash_2b(up, uks, b"", R), b"\0" * 16, self.key)[:32]
        ovs, oks = rb(8), rb(8)
        self.O = hash_2b(op, ovs, self.U, R) + ovs + oks
        self.OE = aes_cbc(hash_2b(op, oks, self.U, R), b"\0" * 16, self.key)[:32]

    def encrypt(self, objnum, gen, data):
        iv = os.urandom(16)
        return iv + aes_cbc(self.key, iv, pkcs7(data))

    def dict(self):
        from specs.pdfgen import Name
        Ps = self.P if self.P < 2 ** 31 else self.P - 2 ** 32
        from cryptography.hazmat.primitives.ciphers import Cipher, algorithms, modes
        perms = struct.pack("<I", self.P & 0xFFFFFFFF) + b"\xff\xff\xff\xffTadb" + b"rnd!"
        enc = Cipher(algorithms.AES(self.key), modes.ECB()).encryptor()
        return {"Filter": Name("Standard"), "V": 5, "R": self.R, "Length": 256, "O": self.O, "U": self.U, "OE": self.OE, "UE": self.UE, "P": Ps,
                "Perms": enc.update(perms) + enc.finalize(),
                "CF": {"StdCF": {"CFM": Name("AESV3"), "AuthEvent": Name("DocOpen"), "Length": 32}}, "StmF": Name("StdCF"), "StrF": Name("StdCF")}
