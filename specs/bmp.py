"""Reader for Windows BMP files (BITMAPFILEHEADER + BITMAPINFOHEADER, uncompressed, 1/8/24 bits per pixel), written from the
public format description; the 'standard reader' of property C18 in a sandbox without any imaging library."""
import struct


def read_bmp(b):
    if b[:2] != b"BM":
        raise ValueError("not a BMP")
    fsize, _r1, _r2, off = struct.unpack("<IHHI", b[2:14])
    (hsize, w, h, planes, bpp, comp, isize, _xp, _yp, ncol, _imp) = struct.unpack("<IiiHHIIiiII", b[14:54])
    if hsize != 40 or planes != 1 or comp != 0 or fsize != len(b):
        raise ValueError("unsupported or inconsistent header: %r" % ((hsize, planes, comp, fsize, len(b)),))
    pal = []
    if bpp <= 8:
        n = ncol or (1 << bpp)
        for i in range(n):
            bl, g, r, _ = b[54 + 4 * i: 58 + 4 * i]
            pal.append((r, g, bl))
        if off != 54 + 4 * n:
            raise ValueError("pixel data offset")
    stride = ((w * bpp + 31) // 32) * 4
    if off + stride * abs(h) != len(b):
        raise ValueError("data size")
    rows = []
    for y in range(abs(h)):
        # bottom-up when height > 0
        ry = (abs(h) - 1 - y) if h > 0 else y
        line = b[off + ry * stride: off + (ry + 1) * stride]
        row = []
        for x in range(w):
            if bpp == 24:
                bl, g, r = line[3 * x: 3 * x + 3]
                row.append((r, g, bl))
            elif bpp == 8:
                row.append(pal[line[x]])
            elif bpp == 1:
                row.append(pal[(line[x // 8] >> (7 - x % 8)) & 1])
            else:
                raise ValueError("bpp")
        rows.append(row)
    return w, abs(h), rows
