"""ISO 32000-1 9.3/9.4 text model as an executable oracle over exact rationals.
Independent of pdfminer: used by the bounded end-to-end stand-in for C05."""
from fractions import Fraction as F
from specs.affine import compose, translation

ID = (F(1), F(0), F(0), F(1), F(0), F(0))


class State:
    def __init__(self, ctm):
        self.ctm = ctm
        self.Tc = self.Tw = self.TL = self.Trise = F(0)
        self.Th = F(1)
        self.Tfs = F(0)
        self.font = None
        self.Tm = self.Tlm = ID

    def copy(self):
        s = State(self.ctm)
        s.__dict__.update(self.__dict__)
        return s


def run(program, widths, ctm0):
    """program: list of (operator, operands).  widths: {fontname: {code: w0 in glyph units}}.
    Returns [(code, fontname, Tfs, text rendering matrix without rise/scale, adv)] in showing order."""
    st = State(ctm0)
    stack = []
    out = []

    def show(s):
        for code in s:
            w0 = F(widths[st.font].get(code, 0), 1000)
            trm = compose(st.Tm, st.ctm)
            out.append((code, st.font, st.Tfs, trm, w0 * st.Tfs * st.Th))
            tx = (w0 * st.Tfs + st.Tc + (st.Tw if code == 32 else 0)) * st.Th
            st.Tm = compose(translation((tx, 0)), st.Tm)

    for op, a in program:
        if op == "q":
            stack.append(st.copy())
        elif op == "Q":
            if stack:
                st = stack.pop()
        elif op == "cm":
            st.ctm = compose(tuple(a), st.ctm)
        elif op == "BT":
            st.Tm = st.Tlm = ID
        elif op == "ET":
            pass
        elif op == "Tc":
            st.Tc = a[0]
        elif op == "Tw":
            st.Tw = a[0]
        elif op == "Tz":
            st.Th = a[0] / 100
        elif op == "TL":
            st.TL = a[0]
        elif op == "Ts":
            st.Trise = a[0]
        elif op == "Tf":
            st.font, st.Tfs = a[0], a[1]
        elif op in ("Td", "TD"):
            if op == "TD":
                st.TL = -a[1]
            st.Tlm = compose(translation((a[0], a[1])), st.Tlm)
            st.Tm = st.Tlm
        elif op == "Tm":
            st.Tm = st.Tlm = tuple(a)
        elif op == "T*":
            st.Tlm = compose(translation((0, -st.TL)), st.Tlm)
            st.Tm = st.Tlm
        elif op == "Tj":
            show(a[0])
        elif op == "'":
            st.Tlm = compose(translation((0, -st.TL)), st.Tlm)
            st.Tm = st.Tlm
            show(a[0])
        elif op == '"':
            st.Tw, st.Tc = a[0], a[1]
            st.Tlm = compose(translation((0, -st.TL)), st.Tlm)
            st.Tm = st.Tlm
            show(a[2])
        elif op == "TJ":
            for e in a[0]:
                if isinstance(e, bytes):
                    show(e)
                else:
                    tx = -F(e) / 1000 * st.Tfs * st.Th
                    st.Tm = compose(translation((tx, 0)), st.Tm)
        # NOTE on Td after text: pdfminer keeps Tm = Tlm translated by the pen in `linematrix`;
        # ISO resets Tm to the new Tlm on every positioning operator, which the oracle does.
    return out


def num(x):
    x = F(x)
    if x.denominator == 1:
        return str(x.numerator)
    return ("%.6f" % float(x)).rstrip("0").rstrip(".")


def serialise(program):
    parts = []
    for op, a in program:
        toks = []
        for v in a:
            if isinstance(v, bytes):
                toks.append("(" + v.decode("latin-1") + ")")
            elif isinstance(v, str):
                toks.append("/" + v)
            elif isinstance(v, list):
                toks.append("[" + " ".join("(" + e.decode("latin-1") + ")" if isinstance(e, bytes) else num(e) for e in v) + "]")
            else:
                toks.append(num(v))
        parts.append(" ".join(toks + [op]))
    return parts
