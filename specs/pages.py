"""Page geometry from ISO 32000-1 7.7.3.3 (Rotate: clockwise, multiple of 90) and the
property's normalisation: the MediaBox lands on a box with origin (0,0)."""
from specs import affine
from pyvc.logic import If, eq, And, Or

# clockwise rotation about the origin, row-vector convention: (x, y) -> (x', y')
ROT_CW = {
    0: (1, 0, 0, 1, 0, 0),
    90: (0, -1, 1, 0, 0, 0),     # (x, y) -> (y, -x)
    180: (-1, 0, 0, -1, 0, 0),   # (x, y) -> (-x, -y)
    270: (0, 1, -1, 0, 0, 0),    # (x, y) -> (-y, x)
}


def page_ctm(rotate, box):
    """translate the box's lower-left to the origin, turn clockwise, shift the turned
    box back into the first quadrant."""
    x0, y0, x1, y1 = box
    w, h = x1 - x0, y1 - y0
    shift = {0: (0, 0), 90: (0, w), 180: (w, h), 270: (h, 0)}[rotate]
    m = affine.compose(affine.translation((-x0, -y0)), ROT_CW[rotate])
    return affine.compose(m, affine.translation(shift))


def page_size(rotate, box):
    x0, y0, x1, y1 = box
    w, h = x1 - x0, y1 - y0
    return (h, w) if rotate in (90, 270) else (w, h)
