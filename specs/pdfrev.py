"""Writer for multi-revision PDF files (ISO 32000-1 7.5.4-7.5.8): classic tables, cross-reference streams,
hybrid files, object streams, incremental updates.  Independent of pdfminer; used by bounded stand-ins."""
import io
import zlib
from specs.pdfgen import ser, Name, Ref, Stream, Raw


def _pack(v, w):
    return int(v).to_bytes(w, "big") if w else b""


class Writer:
    def __init__(self, eol=b"\n"):
        self.out = io.BytesIO()
        self.eol = eol
        self.out.write(b"%PDF-1.7" + eol + b"%\xe2\xe3\xcf\xd3" + eol)
        self.offsets = {}        # objnum -> ('n', offset) | ('s', stmnum, index)   (current view, for bookkeeping only)
        self.prev = None
        self.size = 1

    def _write_obj(self, num, value):
        off = self.out.tell()
        self.out.write(b"%d 0 obj" % num + self.eol + ser(value) + self.eol + b"endobj" + self.eol)
        return off

    def revision(self, objs, root, form="table", pack=(), w=(1, 2, 1), info=None, compress=False, extra_trailer=None):
        """objs: {num: value} defined in this revision; pack: object numbers stored in an object stream
        (only with form 'stream' or 'hybrid'); returns nothing, appends to the file."""
        entries = {}       # num -> (type, f2, f3)
        pack = [n for n in pack if n in objs and form != "table"]
        nextnum = max([self.size - 1, 49] + list(objs)) + 1      # helper objects (streams) live at 50+
        for num, val in objs.items():
            if num in pack:
                continue
            entries[num] = (1, self._write_obj(num, val), 0)
        if pack:
            stmnum = nextnum
            nextnum += 1
            body, head = b"", []
            for i, num in enumerate(pack):
                head.append(b"%d %d" % (num, len(body)))
                body += ser(objs[num]) + b" "
                entries[num] = (2, stmnum, i)
            first = b" ".join(head) + b" "
            data = first + body
            d = {"Type": Name("ObjStm"), "N": len(pack), "First": len(first)}
            if compress:
                data = zlib.compress(data)
                d["Filter"] = Name("FlateDecode")
            entries[stmnum] = (1, self._write_obj(stmnum, Stream(d, data)), 0)
        self.size = max(self.size, nextnum)
        trailer = {"Root": Ref(root)}
        if info:
            trailer["Info"] = Ref(info)
        if self.prev is not None:
            trailer["Prev"] = self.prev
        if extra_trailer:
            trailer.update(extra_trailer)          # e.g. /Encrypt and /ID
        if form == "table":
            self.size = max(self.size, max(entries) + 1)
            trailer["Size"] = self.size
            xpos = self._table(entries, with_free_head=self.prev is None)
            self.out.write(b"trailer" + self.eol + ser(trailer) + self.eol)
        elif form == "stream":
            xnum = nextnum
            self.size = max(self.size, xnum + 1)
            xpos = self.out.tell()
            entries[xnum] = (1, xpos, 0)
            self._xref_stream(xnum, entries, trailer, w, compress)
        else:  # hybrid: type-2 entries only in the stream, everything else in the table
            tab = {n: e for n, e in entries.items() if e[0] == 1}
            stm = {n: e for n, e in entries.items() if e[0] == 2}
            xnum = nextnum
            self.size = max(self.size, xnum + 1)
            spos = self.out.tell()
            self._xref_stream(xnum, stm, {"Root": Ref(root)}, w, compress, prev=None)
            trailer["Size"] = self.size
            trailer["XRefStm"] = spos
            xpos = self._table(tab, with_free_head=self.prev is None)
            self.out.write(b"trailer" + self.eol + ser(trailer) + self.eol)
        self.out.write(b"startxref" + self.eol + b"%d" % xpos + self.eol + b"%%EOF" + self.eol)
        self.prev = xpos

    def _table(self, entries, with_free_head):
        xpos = self.out.tell()
        self.out.write(b"xref" + self.eol)
        nums = sorted(entries)
        if with_free_head:
            nums = [0] + nums
        i = 0
        eol2 = b"\r\n" if self.eol == b"\r\n" else b" " + self.eol[:1]
        while i < len(nums):
            j = i
            while j + 1 < len(nums) and nums[j + 1] == nums[j] + 1:
                j += 1
            self.out.write(b"%d %d" % (nums[i], j - i + 1) + self.eol)
            for n in nums[i:j + 1]:
                if n == 0 and with_free_head and n not in entries:
                    self.out.write(b"0000000000 65535 f" + eol2)
                else:
                    self.out.write(b"%010d %05d n" % (entries[n][1], 0) + eol2)
            i = j + 1
        return xpos

    def _xref_stream(self, xnum, entries, trailer, w, compress, prev="use"):
        nums = sorted(entries)
        index, data, i = [], b"", 0
        while i < len(nums):
            j = i
            while j + 1 < len(nums) and nums[j + 1] == nums[j] + 1:
                j += 1
            index += [nums[i], j - i + 1]
            for n in nums[i:j + 1]:
                t, f2, f3 = entries[n]
                w0, w1, w2 = w
                data += (_pack(t, w0) if w0 else b"") + _pack(f2, w1) + _pack(f3, w2)
            i = j + 1
        w1 = w[1]
        d = {"Type": Name("XRef"), "Size": self.size, "W": list(w), "Index": index}
        d.update(trailer)
        if compress:
            data = zlib.compress(data)
            d["Filter"] = Name("FlateDecode")
        self._write_obj(xnum, Stream(d, data))

    def getvalue(self):
        return self.out.getvalue()
