"""ISO 32000-1 7.6 (Algorithms 1, 2, 4, 5, 6, 7) and ISO 32000-2 / Adobe Supplement (Algorithms 2.A, 2.B) as term
builders over uninterpreted primitives md5 / sha256 / rc4 / aes-cbc.  Written from the standards, not from the code."""
from pyvc.absval import BT

PAD = (b"(\xbfN^Nu\x8aAd\x00NV\xff\xfa\x01\x08..\x00\xb6\xd0h>\x80/\x0c\xa9\xfedSiz")   # ISO 32000-1 Algorithm 2 step (a)


def md5(x):
    return BT.fn("md5", [BT.of(x)], n=16)


def sha256(x):
    return BT.fn("sha256", [BT.of(x)], n=32)


def rc4(key, data):
    d = BT.of(data)
    return BT.fn("rc4", [BT.of(key), d], n=d.n)


def aes_cbc_dec_nopad(key, iv, data):
    d = BT.of(data)
    return BT.fn("aes-cbc-decrypt", [BT.of(key), BT.of(iv), d], n=d.n)


def le32(v):
    """4-byte little-endian of an unsigned 32-bit value (bytes as arithmetic terms)"""
    from pyvc.values import SBytes
    from pyvc.logic import mod, floordiv
    bs = [mod(floordiv(v, 256 ** i), 256) for i in range(4)]
    if all(isinstance(b, int) for b in bs):
        return bytes(bs)
    import z3
    from pyvc.logic import to_z3
    def at(k):
        if isinstance(k, int):
            return bs[k]
        r = to_z3(bs[3])
        for i in (2, 1, 0):
            r = z3.If(k == i, to_z3(bs[i]), r)
        return r
    return SBytes(4, at, (0, 256), "bytes")


def pad_password(pw):
    """first 32 bytes of  password || padding string  (always exactly 32 bytes)"""
    from pyvc.values import SBytes
    from pyvc.logic import to_z3
    import z3
    if isinstance(pw, (bytes, bytearray)):
        return (bytes(pw) + PAD)[:32]
    pad = SBytes.from_concrete(PAD)
    def at(k, pw=pw):
        return z3.If(to_z3(k) < pw.n, to_z3(pw.at(k)), to_z3(pad.at(to_z3(k) - pw.n)))
    return SBytes(32, at, (0, 256), "bytes")


def alg2_key(pw, O, P, id0, R, length_bits, encrypt_metadata=True):
    """Algorithm 2: encryption key"""
    h = BT.cat(pad_password(pw), O, le32(P), id0)
    if R >= 4 and not encrypt_metadata:
        h = BT.cat(h, b"\xff\xff\xff\xff")
    k = md5(h)
    n = 5 if R == 2 else length_bits // 8
    if R >= 3:
        for _ in range(50):
            k = md5(k.slice(0, n))
    return k.slice(0, n)


def xor_key(key, i):
    """key with every byte xor i (key: SBytes of concrete length)"""
    from pyvc.values import SBytes
    import z3
    from pyvc.logic import to_z3
    def at(k, key=key, i=i):
        b = key.at(k)
        if isinstance(b, int):
            return b ^ i
        return z3.BV2Int(z3.Int2BV(to_z3(b), 8) ^ z3.BitVecVal(i, 8), False)
    return SBytes(key.n, at, (0, 256), "bytes")


def alg45_u(key, id0, R):
    """Algorithm 4 (R2) / 5 (R>=3): the U value"""
    if R == 2:
        return rc4(key, PAD)
    r = rc4(key, md5(BT.cat(PAD, id0)))
    for i in range(1, 20):
        r = rc4(xor_key(key, i), r)
    return BT.cat(r, r)      # padded with arbitrary bytes to 32; only the first 16 are compared


def object_key(file_key, objid, genno, aes):
    """Algorithm 1: per-object key = md5(key || objnum[0:3] || gen[0:2] (|| 'sAlT'))[: min(n + 5, 16)]"""
    k = BT.cat(file_key, BT.of(le32(objid)).slice(0, 3), BT.of(le32(genno)).slice(0, 2))
    if aes:
        k = BT.cat(k, b"sAlT")
    n = BT.of(file_key).n
    return md5(k).slice(0, min(n + 5, 16))
