"""Painted paths -> shapes, from the property statement (C16) and ISO 32000-1 8.5."""
from pyvc.logic import And, Or, Not, eq, If, Min, Max
from specs.affine import apply_pt

# ISO Table 60: operator -> (stroke, fill, even-odd, closes first)
PAINT = {"S": (True, False, False, False), "s": (True, False, False, True),
         "f": (False, True, False, False), "f*": (False, True, True, False),
         "B": (True, True, False, False), "B*": (True, True, True, False),
         "b": (True, True, False, True), "b*": (True, True, True, True)}


def endpoints(path):
    """user-space end point of every segment; h returns to the subpath start"""
    start = tuple(path[0][-2:])
    return [start if seg[0] == "h" else tuple(seg[-2:]) for seg in path]


def transformed_operands(ctm, path):
    out = []
    for seg in path:
        ops = seg[1:]
        pts = [apply_pt(ctm, (ops[i], ops[i + 1])) for i in range(0, len(ops) - 1, 2)]
        out.append((seg[0],) + tuple(pts))
    return out


def axis_aligned_closed_quad(p):
    """p: five device-space points, the last closing back to the first"""
    (x0, y0), (x1, y1), (x2, y2), (x3, y3), (x4, y4) = p
    closed = And(eq(x0, x4), eq(y0, y4))
    a = And(eq(x0, x1), eq(y1, y2), eq(x2, x3), eq(y3, y0))
    b = And(eq(y0, y1), eq(x1, x2), eq(y2, y3), eq(x3, x0))
    return And(closed, Or(a, b))


def bound(pts):
    xs = [p[0] for p in pts]
    ys = [p[1] for p in pts]
    return (Min(*xs), Min(*ys), Max(*xs), Max(*ys))


# ---------------------------------------------------------------------------------------------
# executable oracle for whole programs (bounded stand-in), exact rationals
def run_program(program, ctm0):
    from fractions import Fraction as F
    from specs.affine import compose
    st = dict(ctm=ctm0, lw=F(0), dash=None, sc=None, nc=None)
    stack, cur, out = [], [], []

    def paint(stroke, fill, evenodd):
        nonlocal cur
        path, cur = cur, []
        shape = "".join(s[0] for s in path)
        if not shape.startswith("m"):
            return
        subs, i = [], 0
        if shape.count("m") == 1:
            subs = [path]
        else:
            while i < len(path):
                j = i + 1
                while j < len(path) and path[j][0] != "m":
                    j += 1
                if j - i >= 2:
                    subs.append(path[i:j])
                i = j
        for sp in subs:
            if len(sp) < 2:
                continue     # property: only subpaths with at least one segment
            pts = [apply_pt(st["ctm"], p) for p in endpoints(sp)]
            sh = "".join(s[0] for s in sp)
            if len(sh) > 3 and sh.endswith("lh") and pts[-2] == pts[0]:
                sh, pts = sh[:-2] + "h", pts[:-2] + [pts[-1]]
            while sh.endswith("hh"):
                sh, pts = sh[:-1], pts[:-1]
            if sh in ("ml", "mlh"):
                kind, pts = "LTLine", pts[:2]
            elif len(pts) == 5 and sh[1:4] == "lll" and sh[4] in "lh" and axis_aligned_closed_quad(pts):
                kind = "LTRect"
            else:
                kind = "LTCurve"
            out.append(dict(kind=kind, pts=pts, stroke=stroke, fill=fill, evenodd=evenodd, linewidth=st["lw"], dash=st["dash"],
                            sc=st["sc"], nc=st["nc"]))

    for op, a in program:
        if op in ("m", "l", "c", "v", "y"):
            cur.append((op,) + tuple(a))
        elif op == "h":
            cur.append(("h",))
        elif op == "re":
            x, y, w, h = a
            cur += [("m", x, y), ("l", x + w, y), ("l", x + w, y + h), ("l", x, y + h), ("h",)]
        elif op in PAINT:
            s_, f_, e_, close = PAINT[op]
            if close:
                cur.append(("h",))
            paint(s_, f_, e_)
        elif op == "n":
            cur = []
        elif op == "w":
            st["lw"] = a[0]
        elif op == "d":
            st["dash"] = (list(a[0]), a[1])
        elif op == "g":
            st["nc"] = a[0]
        elif op == "G":
            st["sc"] = a[0]
        elif op == "rg":
            st["nc"] = tuple(a)
        elif op == "RG":
            st["sc"] = tuple(a)
        elif op == "k":
            st["nc"] = tuple(a)
        elif op == "K":
            st["sc"] = tuple(a)
        elif op == "q":
            stack.append(dict(st))
        elif op == "Q":
            if stack:
                st = stack.pop()
        elif op == "cm":
            st["ctm"] = compose(tuple(a), st["ctm"])
    return out
