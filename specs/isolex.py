"""ISO 32000-1 7.2-7.3: every conformant way of writing an object value (random choice among them).
Independent of pdfminer.  Values: None, bool, int, float (exactly representable), PName, bytes, list, dict, PRef."""
import random


class PName(bytes):
    pass


class PRef(tuple):
    pass


WS = [b" ", b"\n", b"\r", b"\r\n", b"\t", b"\x0c", b"\x00"]


def ws(rng, need=False):
    n = rng.randint(1 if need else 0, 2)
    out = b"".join(rng.choice(WS) for _ in range(n))
    if rng.random() < 0.15:
        out += b"%" + bytes(rng.choice(b"abc ()<>/[]") for _ in range(rng.randint(0, 5))) + rng.choice([b"\n", b"\r", b"\r\n"])
    return out


def sp_name(v, rng):
    out = b"/"
    for b in v:
        regular = 33 <= b <= 126 and b not in b"()<>[]{}/%#"
        if regular and rng.random() < 0.85:
            out += bytes([b])
        else:
            out += b"#%02x" % b if rng.random() < 0.5 else b"#%02X" % b
    return out


def sp_string(v, rng, allow_odd_hex=False):
    if rng.random() < 0.35:
        h = v.hex()
        if allow_odd_hex and h.endswith("0") and rng.random() < 0.5:
            h = h[:-1]
        out = b"<"
        for ch in h:
            ch = ch.upper() if rng.random() < 0.5 else ch
            out += ch.encode()
            if rng.random() < 0.2:
                out += rng.choice([b" ", b"\n", b"\r\n", b"\t"])
        return out + b">"
    out = b"("
    # balanced parentheses may be written raw, but then all of them (a mix of raw and escaped ones is not balanced as written)
    depth_ok = _balanced(v) and rng.random() < 0.5
    for i, b in enumerate(v):
        r = rng.random()
        named = {10: b"\\n", 13: b"\\r", 9: b"\\t", 8: b"\\b", 12: b"\\f", 40: b"\\(", 41: b"\\)", 92: b"\\\\"}
        if b in (40, 41):
            out += bytes([b]) if depth_ok else named[b]
        elif b == 92:
            out += named[b] if r < 0.7 else b"\\134"
        elif b in (13,):
            out += named[b] if r < 0.6 else b"\\015"      # a raw CR would be read back as LF
        elif b in named and r < 0.4:
            out += named[b]
        elif r < 0.15 or b < 32 and b not in (10,) or b > 126:
            nxt_digit = i + 1 < len(v) and 48 <= v[i + 1] <= 57
            if nxt_digit or rng.random() < 0.5:
                out += b"\\%03o" % b
            else:
                out += b"\\%o" % b
        else:
            out += bytes([b])
        if rng.random() < 0.08:
            # line continuation: ignored.  A continuation ending in CR must not be followed by a raw LF of the value
            # (backslash CR LF is ONE continuation): then the continuation is spelled with LF
            raw_lf_next = i + 1 < len(v) and v[i + 1] == 10
            out += b"\\" + rng.choice([b"\n"] if raw_lf_next else [b"\n", b"\r", b"\r\n"])
    return out + b")"


def _balanced(v):
    d = 0
    for b in v:
        if b == 40:
            d += 1
        elif b == 41:
            d -= 1
            if d < 0:
                return False
    return d == 0


def sp_num(v, rng):
    if isinstance(v, int):
        s = str(abs(v))
        if rng.random() < 0.3:
            s = "0" * rng.randint(1, 2) + s
        sign = "-" if v < 0 else ("+" if rng.random() < 0.3 else "")
        return (sign + s).encode()
    s = ("%f" % abs(v)).rstrip("0")
    if s.startswith("0.") and rng.random() < 0.4:
        s = s[1:]
    sign = "-" if v < 0 else ("+" if rng.random() < 0.2 else "")
    return (sign + s).encode()


def spell(v, rng, top=True):
    if v is None:
        return b"null"
    if v is True:
        return b"true"
    if v is False:
        return b"false"
    if isinstance(v, PRef):
        return b"%d" % v[0] + ws(rng, True) + b"%d" % v[1] + ws(rng, True) + b"R"
    if isinstance(v, (int, float)):
        return sp_num(v, rng)
    if isinstance(v, PName):
        return sp_name(v, rng)
    if isinstance(v, bytes):
        return sp_string(v, rng)
    if isinstance(v, list):
        return b"[" + _seq([spell(x, rng, False) for x in v], rng) + b"]"
    if isinstance(v, dict):
        parts = []
        for k, x in v.items():
            parts += [sp_name(k, rng), spell(x, rng, False)]
        return b"<<" + _seq(parts, rng) + b">>"
    raise TypeError(v)


def needs_sep(a, b):
    """two adjacent tokens need white space unless one of them is/starts with a delimiter"""
    return not (a[-1:] in b"()<>[]{}/%" or b[:1] in b"()<>[]{}/%")


def _seq(parts, rng):
    out = ws(rng)
    for i, p in enumerate(parts):
        out += p
        nxt = parts[i + 1] if i + 1 < len(parts) else b"]"
        out += ws(rng, need=needs_sep(p, nxt))
    return out


def gen_value(rng, depth=0):
    r = rng.random()
    if depth < 3 and r < 0.18:
        return [gen_value(rng, depth + 1) for _ in range(rng.randint(0, 4))]
    if depth < 3 and r < 0.34:
        return {PName(bytes(rng.choice(b"AbC1#/ (\xe9") for _ in range(rng.randint(1, 4))) + b"%d" % i): _nonnull(rng, depth + 1) for i in range(rng.randint(0, 3))}
    if r < 0.42:
        return rng.choice([True, False])
    if r < 0.47:
        return None
    if r < 0.6:
        return rng.choice([0, 1, -1, 7, 42, -273, 65535, 2 ** 31])
    if r < 0.7:
        return rng.choice([0.5, -0.25, 12.125, 3.0, -0.0625])
    if r < 0.82:
        return PName(bytes(rng.choice(b"AbCxyz019.-_#/( )\x00\xe9\xff") for _ in range(rng.randint(1, 6))))
    if r < 0.93:
        return bytes(rng.choice(b"ab()\\\n\r\t 019\x00\x80\xff") for _ in range(rng.randint(0, 8)))
    return PRef((rng.randint(1, 99), 0))


def _nonnull(rng, depth):
    v = gen_value(rng, depth)
    return 0 if v is None else v
