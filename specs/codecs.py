"""Independent encoders / reference decoders for the PDF stream filters (ISO 32000-1 7.4),
written from the standard; used by bounded stand-ins and replay drivers."""
import zlib


def rl_decode_ref(data):
    out, i = bytearray(), 0
    while i < len(data):
        L = data[i]
        if L == 128:
            break
        if L < 128:
            out += data[i + 1:i + 2 + L]
            i += 2 + L
        else:
            out += bytes([data[i + 1]]) * (257 - L)
            i += 2
    return bytes(out)


def rl_encode(data, rng=None):
    out, i = bytearray(), 0
    while i < len(data):
        run = 1
        while i + run < len(data) and data[i + run] == data[i] and run < 128:
            run += 1
        if run >= 2 and (rng is None or rng.random() < 0.8):
            out += bytes([257 - run, data[i]])
            i += run
        else:
            n = 1 if rng is None else rng.randint(1, min(128, len(data) - i))
            out += bytes([n - 1]) + data[i:i + n]
            i += n
    out.append(128)
    return bytes(out)


def ahx_encode(data, rng=None):
    s = data.hex().upper() if (rng is None or rng.random() < 0.5) else data.hex()
    if rng is not None:
        parts = []
        for ch in s:
            parts.append(ch)
            if rng.random() < 0.2:
                parts.append(rng.choice([" ", "\n", "\r\n", "\t"]))
        s = "".join(parts)
    return s.encode() + b">"


def ahx_decode_ref(data):
    digits = bytearray()
    for b in data:
        if b in b" \t\r\n\f\x00\x0b":
            continue
        if b == ord(">"):
            break
        digits.append(b)
    if len(digits) % 2:
        digits.append(ord("0"))
    return bytes.fromhex(digits.decode())


def a85_encode(data, wrap=True):
    out = []
    for i in range(0, len(data), 4):
        chunk = data[i:i + 4]
        n = len(chunk)
        v = int.from_bytes(chunk + b"\0" * (4 - n), "big")
        if v == 0 and n == 4:
            out.append("z")
            continue
        digs = []
        for _ in range(5):
            digs.append(chr(v % 85 + 33))
            v //= 85
        out.append("".join(reversed(digs))[: n + 1])
    s = "".join(out)
    return (s + "~>").encode()


def lzw_encode(data, early=1):
    """PDF LZW: 9..12 bit codes, 256 = clear, 257 = EOD, early change."""
    out_bits = []

    def emit(code, nbits):
        out_bits.append((code, nbits))

    table = {bytes([i]): i for i in range(256)}
    nxt, nbits = 258, 9
    emit(256, nbits)
    w = b""
    for b in data:
        wb = w + bytes([b])
        if wb in table:
            w = wb
            continue
        emit(table[w], nbits)
        table[wb] = nxt
        nxt += 1
        # early change: the width grows when the *next free* code reaches 2^n - 1 + 1 (decoder lags one entry)
        if nxt + early == 513:
            nbits = 10
        elif nxt + early == 1025:
            nbits = 11
        elif nxt + early == 2049:
            nbits = 12
        if nxt == 4094:
            emit(256, nbits)
            table = {bytes([i]): i for i in range(256)}
            nxt, nbits = 258, 9
        w = bytes([b])
    if w:
        emit(table[w], nbits)
        nxt += 1
        if nxt + early == 513:
            nbits = 10
        elif nxt + early == 1025:
            nbits = 11
        elif nxt + early == 2049:
            nbits = 12
    emit(257, nbits)
    acc, n, out = 0, 0, bytearray()
    for code, nb in out_bits:
        acc = (acc << nb) | code
        n += nb
        while n >= 8:
            out.append((acc >> (n - 8)) & 255)
            n -= 8
    if n:
        out.append((acc << (8 - n)) & 255)
    return bytes(out)


def png_filter_encode(raw, colors, columns, bits, filters):
    """apply PNG filters row by row (filters[r] in 0..4)"""
    rb = (colors * columns * bits + 7) // 8
    bpp = max(1, (colors * bits + 7) // 8)
    out = bytearray()
    prev = bytes(rb)
    rows = [raw[i:i + rb] for i in range(0, len(raw), rb)]
    for r, row in enumerate(rows):
        ft = filters[r % len(filters)]
        out.append(ft)
        for j in range(len(row)):
            a = row[j - bpp] if j >= bpp else 0
            b = prev[j]
            c = prev[j - bpp] if j >= bpp else 0
            if ft == 0:
                p = 0
            elif ft == 1:
                p = a
            elif ft == 2:
                p = b
            elif ft == 3:
                p = (a + b) // 2
            else:
                pp = a + b - c
                pa, pb, pc = abs(pp - a), abs(pp - b), abs(pp - c)
                p = a if (pa <= pb and pa <= pc) else (b if pb <= pc else c)
            out.append((row[j] - p) % 256)
        prev = row
    return bytes(out)


def tiff_pred_encode(raw, colors, columns):
    rb = colors * columns
    out = bytearray()
    for i in range(0, len(raw), rb):
        row = raw[i:i + rb]
        for j in range(len(row)):
            out.append((row[j] - (row[j - colors] if j >= colors else 0)) % 256)
    return bytes(out)


ENCODERS = {
    "ASCIIHexDecode": ("AHx", lambda d, rng: ahx_encode(d, rng)),
    "ASCII85Decode": ("A85", lambda d, rng: a85_encode(d)),
    "LZWDecode": ("LZW", lambda d, rng: lzw_encode(d)),
    "FlateDecode": ("Fl", lambda d, rng: zlib.compress(d)),
    "RunLengthDecode": ("RL", lambda d, rng: rl_encode(d, rng)),
}
