"""Affine maps in pdfminer's row-vector convention  [x y 1] . M,
M = (a, b, c, d, e, f)  <->  x' = a x + c y + e,  y' = b x + d y + f.
Written from ISO 32000-1 section 8.3.3/8.3.4, not from the code."""
from pyvc.logic import Min, Max

IDENTITY = (1, 0, 0, 1, 0, 0)


def apply_pt(m, p):
    a, b, c, d, e, f = m
    x, y = p
    return (a * x + c * y + e, b * x + d * y + f)


def apply_norm(m, p):
    a, b, c, d, e, f = m
    x, y = p
    return (a * x + c * y, b * x + d * y)


def compose(m1, m0):
    """The matrix of  'first m1, then m0'  (ISO: M' = M1 x M0)."""
    a1, b1, c1, d1, e1, f1 = m1
    a0, b0, c0, d0, e0, f0 = m0
    return (a1 * a0 + b1 * c0, a1 * b0 + b1 * d0,
            c1 * a0 + d1 * c0, c1 * b0 + d1 * d0,
            e1 * a0 + f1 * c0 + e0, e1 * b0 + f1 * d0 + f0)


def translation(v):
    return (1, 0, 0, 1, v[0], v[1])


def corners(rect):
    x0, y0, x1, y1 = rect
    return [(x0, y0), (x1, y0), (x1, y1), (x0, y1)]


def hull4(m, rect):
    ps = [apply_pt(m, c) for c in corners(rect)]
    xs = [p[0] for p in ps]
    ys = [p[1] for p in ps]
    return (Min(*xs), Min(*ys), Max(*xs), Max(*ys))
