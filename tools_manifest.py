#!/usr/bin/env python3
"""Regenerates MANIFEST.json from claims.json (the per-property claim texts)."""
import json, os
ROOT = os.path.dirname(os.path.abspath(__file__))
props = [json.loads(l) for l in open(os.path.join(ROOT, 'properties.jsonl'))]
claims = json.load(open(os.path.join(ROOT, 'claims.json')))
checks, na = [], []
for p in props:
    pid = p['id']
    c = claims.get(pid)
    if c and c.get('claimed'):
        checks.append({
            "property_id": pid,
            "quick_cmd": "./check %s --tier quick" % pid,
            "thorough_cmd": "./check %s --tier thorough" % pid,
            "evidence_file": "evidence/%s.json" % pid,
            "replay_cmd_template": "./check %s --replay {path}" % pid,
            "engine": "pyvc",
            "level_claimed": {"category": "proof", "text": c['text'], "design_ref": c.get('design_ref', 'DESIGN.md section 5, ' + pid)},
            "level_note": c['note'],
            "technique": c.get('technique', "contract-based deductive verification: sidecar contracts on the real functions, VCs generated from the working-tree AST by pyvc, discharged by z3/cvc5; bounded stand-ins labelled"),
        })
    else:
        na.append({"property_id": pid, "reason": (c or {}).get('reason', "kernel not yet brought within the verifier's reach (build in progress)")})
m = {"version": 1, "setup_cmd": "./setup.sh",
     "hooks": {"guard": "PDFMINER_SIX_VERIF", "enable": "none needed: contracts are sidecar files under /verif; /repo is only read (ast) and imported",
               "baseline_off_cmd": "cd /repo && /venv/bin/python -m pytest -ra -q -p no:cacheprovider --timeout=900 --continue-on-collection-errors",
               "source_commits": [], "add_only": True},
     "engines": [{"name": "pyvc", "path": "pyvc/", "serves_properties": [c['property_id'] for c in checks],
                  "kind_free_text": "AST->SMT verification-condition generator over the real source (re-read every run), sidecar contracts in contracts/, spec functions in specs/, z3 + cvc5 back ends, CPython replay/cross-check"}],
     "checks": checks, "not_applicable": na,
     "notes": "Exit codes of ./check: 0 held (KNOWN-FINDING lines possible), 1 violation (VIOLATION line), 2 undecided, 3 checker error."}
json.dump(m, open(os.path.join(ROOT, 'MANIFEST.json'), 'w'), indent=1)
print(len(checks), 'claimed;', len(na), 'not applicable')
