#!/usr/bin/env python
"""Developer runner: ./dev.py <key-substring> ... prints obligations."""
import sys, json
sys.path.insert(0, '/verif')
from pyvc.extract import ensure_repo_on_path
ensure_repo_on_path()
from pyvc import contracts as C, verify as V
import logging; logging.disable(logging.CRITICAL)
C.load_all()
pat = sys.argv[1:] or ['']
for key, c in C.REGISTRY.items():
    if any(p in key for p in pat) and not c.abstract:
        r = V.verify_function(c, C.REGISTRY)
        print('==', key, 'paths', r['paths'], 'err', r['error'], 't', r.get('seconds'), r.get('exits'))
        for o in r['obligations']:
            print('   ', o['status'], o['name'], o['paths'], o['backend'], o['seconds'], o['info'], o['model'] if o['status']!='discharged' else '')
        x = V.crosscheck(c, 200, 1)
        print('   crosscheck', x['evaluations'], 'skipped', x['skipped'], x['violations'][:1], x['error'])
for name, lem in C.LEMMAS.items():
    if any(p in name or p in 'lemma' for p in pat):
        r = V.run_lemma(lem, C.REGISTRY)
        print('== lemma', name, r['error'], r['seconds'])
        for o in r['obligations']:
            print('   ', o['status'], o['name'], o['backend'], o['seconds'], o['model'] if o['status']!='discharged' else '')
