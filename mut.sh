#!/bin/sh
# dev helper: mut.sh <relative file> <python-replace old> <new> <dev.py filter>  -- applies a textual mutation to a scratch copy of /repo and runs dev.py on it
set -e
D=$(mktemp -d /tmp/mut.XXXXXX)
git -C /repo worktree add -q --detach "$D/w" HEAD
python3 - "$D/w/$1" "$2" "$3" <<'PY'
import sys
p, old, new = sys.argv[1:4]
s = open(p).read()
assert s.count(old) >= 1, "pattern not found"
open(p, "w").write(s.replace(old, new, 1))
PY
cd /verif
PYVC_REPO="$D/w" timeout 900 .venv/bin/python dev.py "$4" 2>&1 | grep -v "^    discharged\|conda" | cut -c1-400 | tail -${5:-25}
git -C /repo worktree remove --force "$D/w"; rm -rf "$D"
