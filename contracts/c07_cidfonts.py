"""C07 - composite fonts: code segmentation, W/DW arrays, ToUnicode range arithmetic."""
import ast
import z3
from pyvc.contracts import contract, fragment, lemma, bounded, exhaustive, scenario, stub, REGISTRY
from pyvc.logic import And, Or, Not, Implies, Iff, eq, le, lt, If, ne, ForAllInt, any_z3, to_z3, floordiv, mod, Max, Min
from pyvc import sorts as T
from pyvc.values import SObj, SBytes, SList, SMap, SymFn
from pyvc.extract import real_module

cm = real_module("pdfminer.cmapdb")


def ln(x):
    return x.n if isinstance(x, (SBytes, SList)) else len(x)


def at(x, k):
    return x.at(k) if hasattr(x, "at") else x[k]


# -- Identity CMaps: fixed-width big-endian codes -----------------------------------------------------------------------
c = contract("pdfminer.cmapdb:IdentityCMap.decode", props=["C07", "C13"])
c.param("self", T.Obj("pdfminer.cmapdb:IdentityCMap")).param("code", T.Bytes(maxlen=9))
c.ens("floor-len-over-2-big-endian-16-bit-codes", lambda code, result: And(
    eq(ln(result), floordiv(ln(code), 2)),
    ForAllInt(0, ln(result), lambda k: eq(at(result, k), 256 * at(code, 2 * k) + at(code, 2 * k + 1)), "k")))

c = contract("pdfminer.cmapdb:IdentityCMapByte.decode", props=["C07"])
c.param("self", T.Obj("pdfminer.cmapdb:IdentityCMapByte")).param("code", T.Bytes(maxlen=9))
c.ens("one-code-per-byte", lambda code, result: And(eq(ln(result), ln(code)), ForAllInt(0, ln(result), lambda k: eq(at(result, k), at(code, k)), "k")))


# -- CMap.decode: one step of the trie walk ---------------------------------------------------------------------------------
def _decode_body(fn):
    for n in ast.walk(fn):
        if isinstance(n, ast.For):
            return n.body
    return None


class _Trie(T.Sort):
    """self.code2cid = {0x20: c0, 0x81: {0x40: c1, 0x41: {0x30: c2}}}; d is one of its nodes"""
    def fresh(self, ctx, name):
        c0, c1, c2 = (ctx.fresh_int("cid%d" % i) for i in range(3))
        inner2 = {0x30: c2}
        inner = {0x40: c1, 0x41: inner2}
        root = {0x20: c0, 0x81: inner}
        o = SObj(cm.CMap, {"code2cid": root, "_nodes": [root, inner, inner2], "_cids": [c0, c1, c2]}, name)
        return o
    def sample(self, rng):
        return None
    def from_model(self, ev, v):
        return {"cids": [int(ev(x)) for x in v.f["_cids"]]}


c = fragment("pdfminer.cmapdb:CMap.decode", "trie-step", _decode_body, props=["C07"], mode="stmts")
c.param("self", _Trie()).param("d", T.OneOf(0, 1, 2)).param("i", T.Int(0, 255, samples=[0x20, 0x81, 0x40, 0x41, 0x30, 7]))
c.skip_cross = True
c.wire = lambda bound, ghosts: bound.__setitem__("d", bound["self"].f["_nodes"][bound["d"]])
c.ens("emit-at-a-leaf-descend-at-a-node-restart-after-leaf-or-miss", lambda self, old, i, d, __exit__: _trie_spec(self, old, i, d))


def _live_node(self, old):
    """the live trie node that `d` pointed at on entry (old.d is a snapshot copy)"""
    idx = [set(n.keys()) for n in self._nodes].index(set(old.d.keys()))
    return self._nodes[idx]


def _trie_spec(self, old, i, d):
    node = _live_node(self, old)
    root = self.code2cid
    ys = getattr(self, "_ys", None)
    clauses = []
    for k, v in node.items():
        if isinstance(v, dict):
            clauses.append(Implies(eq(i, k), d is v))
        else:
            clauses.append(Implies(eq(i, k), d is root))
    clauses.append(Implies(And(*[ne(i, k) for k in node]), d is root))
    return And(*clauses)


c.ens("yields-exactly-the-leaf-cid", lambda self, old, i, result: _trie_yield(self, old, i, result))


def _trie_yield(self, old, i, result):
    node = _live_node(self, old)
    cl = []
    for k, v in node.items():
        if not isinstance(v, dict):
            cl.append(Implies(eq(i, k), And(len(result) == 1, eq(result[0], v) if len(result) == 1 else False)))
        else:
            cl.append(Implies(eq(i, k), len(result) == 0))
    cl.append(Implies(And(*[ne(i, k) for k in node]), len(result) == 0))
    return And(*cl)


# -- W arrays (ISO 32000-1 9.7.4.3): one element of the array ------------------------------------------------------------------
def _widths_body(fn):
    for st in fn.body:
        if isinstance(st, ast.For):
            return st.body
    return None


def mhas(m, k):
    return m.has(k) if isinstance(m, SMap) else (k in m)


def mget(m, k):
    return m.get(k) if isinstance(m, SMap) else m.get(k, 0)


class _Pending(T.Sort):
    """r: 0..2 pending numbers (ints for CIDs; the third - the width - arrives as v)"""
    def __init__(self, maxn=2):
        self.maxn = maxn
    def fresh(self, ctx, name):
        n = ctx.choose(list(range(self.maxn + 1)), name + "-pending")
        return [ctx.fresh_int("%s%d" % (name, i)) for i in range(n)]
    def sample(self, rng):
        return [rng.randint(0, 9) for _ in range(rng.randint(0, self.maxn))]
    def from_model(self, ev, v):
        return [int(ev(x)) for x in v]


class _Elem(T.Sort):
    """an element of the W array: a list of 0..3 widths, an int, a real, or something else"""
    def fresh(self, ctx, name):
        k = ctx.choose(["list0", "list1", "list3", "int", "real", "other"], name + "-kind")
        if k.startswith("list"):
            return [ctx.fresh_real("w%d" % i) for i in range(int(k[4:]))]
        if k == "int":
            return ctx.fresh_int(name)
        if k == "real":
            return ctx.fresh_real(name)
        return None
    def sample(self, rng):
        from fractions import Fraction
        k = rng.choice(["list", "int", "int", "real", "other"])
        if k == "list":
            return [Fraction(rng.randint(0, 1000)) for _ in range(rng.randint(0, 3))]
        if k == "int":
            return rng.randint(0, 12)
        if k == "real":
            return Fraction(rng.randint(0, 2000), 2) + Fraction(1, 4)
        return None
    def from_model(self, ev, v):
        from fractions import Fraction
        if isinstance(v, list):
            return [Fraction(ev(x)) for x in v]
        if isinstance(v, z3.ExprRef):
            return int(ev(v)) if z3.is_int(v) else Fraction(ev(v))
        return v
    def to_native(self, c):
        from fractions import Fraction
        if isinstance(c, Fraction):
            return float(c)
        return c


def _w_step_spec(widths, old_w, r, old_r, v, q):
    """ISO: 'c [w1 .. wn]' gives CIDs c.. the listed widths; 'c_first c_last w' gives the closed range w.
    q: an arbitrary CID (ghost)."""
    from pyvc.sorts import is_number
    keep = And(Iff(mhas(widths, q), mhas(old_w, q)), Implies(mhas(old_w, q), eq(mget(widths, q), mget(old_w, q))))
    if isinstance(v, list):
        if old_r:
            c0 = old_r[-1]
            cl = [len(r) == 0]
            inside = Or(*[eq(q, c0 + t) for t in range(len(v))]) if v else False
            for t in range(len(v)):
                cl.append(Implies(eq(q, c0 + t), And(mhas(widths, q), eq(mget(widths, q), v[t]))))
            cl.append(Implies(Not(inside), keep))
            return And(*cl)
        return And(len(r) == 0, keep)
    if v is None:
        return And(_same_list(r, old_r), keep)
    # a number
    if len(old_r) < 2:
        return And(len(r) == len(old_r) + 1, keep)
    c1, c2 = old_r
    # CIDs are 16-bit numbers: the range applies to the CIDs that exist
    return And(len(r) == 0, If(And(le(c1, q), le(q, c2), le(0, q), le(q, 65535)), And(mhas(widths, q), eq(mget(widths, q), v)), keep))


def _same_list(a, b):
    return len(a) == len(b) and And(*[eq(x, y) for x, y in zip(a, b)])


c = fragment("pdfminer.pdffont:get_widths", "one-array-element", _widths_body, props=["C07", "C06"], mode="stmts")
c.param("widths", T.IntMap()).param("r", _Pending()).param("v", _Elem())
c.ghost("q", T.Int(-2, 30))
c.mod("widths").mod("r")
c.loop(2, kind="for i", inv=lambda widths, old, k, char1, char2, w, q: (lambda lo: And(
    Iff(mhas(widths, q), Or(mhas(old.widths, q), And(le(lo, q), lt(q, lo + k)))),
    Implies(And(le(lo, q), lt(q, lo + k)), eq(mget(widths, q), w)),
    Implies(Not(And(le(lo, q), lt(q, lo + k))), eq(mget(widths, q), mget(old.widths, q)))))(Max(char1, 0)))
c.ens("ISO-W-array-step", lambda widths, old, r, v, q: _w_step_spec(widths, old.widths, r, old.r, v, q))
c.samples_hint = lambda rng, conc: conc


def _w2_body(fn):
    return _widths_body(fn)


# -- ToUnicode bfrange / cidrange: big-endian increment with carry over the last min(4, len) bytes -----------------------------------
def _bf_incr_expr(fn, which):
    """the expression  prefix + struct.pack(">L", base + i)[-vlen:]  of the ENDBFRANGE (which=1) / ENDCIDRANGE (which=0) branch"""
    found = []
    for n in ast.walk(fn):
        if isinstance(n, ast.Assign) and isinstance(n.targets[0], ast.Name) and n.targets[0].id == "x" and "struct.pack" in ast.unparse(n.value):
            found.append(n.value)
    found.sort(key=lambda n: n.lineno)
    return found[which] if len(found) > which else None


def _be(bs, n):
    v = 0
    for t in range(n):
        v = v * 256 + at(bs, t)
    return v


for _which, _names in ((1, ("prefix", "base", "i", "vlen")), (0, ("start_prefix", "start", "i", "vlen"))):
    c = fragment("pdfminer.cmapdb:CMapParser.do_keyword", "range-increment-%s" % ("bfrange" if _which else "cidrange"),
                 (lambda w: lambda fn: _bf_incr_expr(fn, w))(_which), props=["C07"])
    pn, bn, iname, vn = _names
    c.param(pn, T.Bytes(maxlen=2)).param(bn, T.Int(0, 2 ** 32 - 1, samples=[0, 255, 256, 0x30FD, 65535, 65536])).param(iname, T.Int(0, 300)).param(vn, T.OneOf(1, 2, 3, 4))
    c.req("value-fits-the-variable-part", (lambda bn, iname, vn: lambda **kw: lt(kw[bn] + kw[iname], 256 ** kw[vn]))(bn, iname, vn))
    c.ens("prefix-kept-last-bytes-incremented-with-carry", eval(
        "lambda %s, %s, %s, %s, result: _incr_spec(%s, %s + %s, %s, result)" % (pn, bn, iname, vn, pn, bn, iname, vn), {"_incr_spec": lambda prefix, value, vlen, result: And(
            eq(ln(result), ln(prefix) + vlen),
            ForAllInt(0, ln(prefix), lambda t: eq(at(result, t), at(prefix, t)), "t"),
            eq(_be_at(result, ln(prefix), vlen), value))}))
    c.requires[-1] = ("value-fits-the-variable-part", eval("lambda %s, %s, %s: lt(%s + %s, 256 ** %s)" % (bn, iname, vn, bn, iname, vn), {"lt": lt}))


def _be_at(bs, start, n):
    v = 0
    for t in range(n):
        v = v * 256 + at(bs, start + t)
    return v


def _bf_var_split(fn):
    """var = code[-4:]; base = nunpack(var); prefix = code[:-4]; vlen = len(var)   (ENDBFRANGE, increment form)"""
    for n in ast.walk(fn):
        if isinstance(n, ast.If) and isinstance(n.test, ast.Call) and "isinstance(code, list)" in ast.unparse(n.test):
            out = []
            stmts = n.orelse
            if len(stmts) == 1 and isinstance(stmts[0], ast.If) and "isinstance(code, bytes)" in ast.unparse(stmts[0].test):
                stmts = stmts[0].body           # `elif isinstance(code, bytes):` - anything that is neither an array nor a string is skipped with a warning
            for st in stmts:
                if isinstance(st, ast.For):
                    break
                out.append(st)
            return out
    return None


c = fragment("pdfminer.cmapdb:CMapParser.do_keyword", "bfrange-destination-split", _bf_var_split, props=["C07"], mode="stmts")
c.param("code", T.Bytes(maxlen=6, minlen=1))
c.req("short-enough-to-enumerate", lambda code: le(ln(code), 8))
c.ens("last-min-4-len-bytes-are-the-counter", lambda code, var, base, prefix, vlen: And(
    eq(vlen, If(lt(ln(code), 4), ln(code), 4)), eq(ln(prefix), ln(code) - vlen),
    ForAllInt(0, ln(prefix), lambda t: eq(at(prefix, t), at(code, t)), "t"),
    *[Implies(eq(vlen, n), (lambda n: lambda: eq(base, _be_at(code, ln(code) - n, n)))(n)) for n in (1, 2, 3, 4)]))


# -- name dispatch for the identity CMaps ----------------------------------------------------------------------------------------------
@exhaustive("identity-cmap-names", props=["C07"], note="CMapDB.get_cmap on the four identity names: class and writing mode")
def _():
    fails = []
    for name, cls, vert in (("Identity-H", cm.IdentityCMap, False), ("Identity-V", cm.IdentityCMap, True),
                            ("OneByteIdentityH", cm.IdentityCMapByte, False), ("OneByteIdentityV", cm.IdentityCMapByte, True)):
        m = cm.CMapDB.get_cmap(name)
        if type(m) is not cls or m.is_vertical() != vert:
            fails.append(dict(name=name, got=type(m).__name__, vertical=m.is_vertical()))
    pf = real_module("pdfminer.pdffont")
    for alias, target in (("DLIdent-H", "Identity-H"), ("DLIdent-V", "Identity-V")):
        if pf.IDENTITY_ENCODER.get(alias) != target:
            fails.append(dict(alias=alias, got=pf.IDENTITY_ENCODER.get(alias)))
    return dict(cases=6, failures=fails)


# -- PDFCIDFont.__init__: W/DW for horizontal, W2/DW2 for vertical writing ---------------------------------------------------------------
def _wmode_block(fn):
    for st in fn.body:
        if isinstance(st, ast.If) and ast.unparse(st.test) == "self.vertical":
            return [st]
    return None


class _Spec(T.Sort):
    def fresh(self, ctx, name):
        d = {}
        if ctx.choose([True, False], "has-W"):
            d["W"] = ["W-array"]
        if ctx.choose([True, False], "has-DW"):
            d["DW"] = ctx.fresh_int("DW")
        if ctx.choose([True, False], "has-W2"):
            d["W2"] = ["W2-array"]
        if ctx.choose([True, False], "has-DW2"):
            d["DW2"] = [ctx.fresh_int("DW2vy"), ctx.fresh_int("DW2w")]
        return d
    def sample(self, rng):
        return None
    def from_model(self, ev, v):
        return {k: (x if not isinstance(x, z3.ExprRef) else int(ev(x))) if not isinstance(x, list) else [y if not isinstance(y, z3.ExprRef) else int(ev(y)) for y in x] for k, x in v.items()}


c = fragment("pdfminer.pdffont:PDFCIDFont.__init__", "widths-by-writing-mode", _wmode_block, props=["C07"], mode="stmts")
c.param("self", T.Obj("pdfminer.pdffont:PDFCIDFont", vertical=T.OneOf(False, True))).param("spec", _Spec())
c.skip_cross = True
c.mod("self.disps").mod("self.default_disp")
_gw = stub("pdfminer.pdffont:get_widths", ["seq"]); _gw.result_fn = ("w", lambda seq: {"from": tuple(seq)})
_gw2 = stub("pdfminer.pdffont:get_widths2", ["seq"]); _gw2.result_fn = ("w2", lambda seq: {7: (("w-of", tuple(seq)), ("vx", "vy"))} if seq else {})
c.stubs = {"pdfminer.pdffont:get_widths": _gw, "pdfminer.pdffont:get_widths2": _gw2}
c.ens("horizontal-uses-W-and-DW-default-1000", lambda self, spec, widths, default_width: (
    And(widths == {"from": tuple(spec.get("W", []))}, eq(default_width, spec["DW"]) if "DW" in spec else default_width == 1000,
        self.disps == {}, self.default_disp == 0)) if not self.vertical else True)
c.ens("vertical-uses-W2-and-DW2-default-880-minus-1000", lambda self, spec, widths, default_width: (
    And(eq(default_width, spec["DW2"][1]) if "DW2" in spec else default_width == -1000,
        self.default_disp[0] is None, eq(self.default_disp[1], spec["DW2"][0]) if "DW2" in spec else self.default_disp[1] == 880,
        (widths == {7: ("w-of", ("W2-array",))} and self.disps == {7: ("vx", "vy")}) if "W2" in spec else (widths == {} and self.disps == {})))
    if self.vertical else True)


@bounded("type0-documents-vs-oracle", props=["C07"],
         bound="quick: 120 generated documents with an Identity-H font: ToUnicode (bfchar, bfrange increment form crossing byte carries, array form, multi-character and astral targets), W in both syntaxes with overrides, DW present/0/absent; every glyph's text and advance compared; thorough: 20000")
def _(tier, seed):
    import io, random
    from specs.pdfgen import build, Name, Ref, Stream
    rng = random.Random(seed + 7)
    n = 120 if tier == "quick" else 20000
    interp = real_module("pdfminer.pdfinterp"); conv = real_module("pdfminer.converter"); layout = real_module("pdfminer.layout")
    PDFParser = real_module("pdfminer.pdfparser").PDFParser; PDFDocument = real_module("pdfminer.pdfdocument").PDFDocument
    PDFPage = real_module("pdfminer.pdfpage").PDFPage
    failures, evals, distinct = [], 0, set()
    for _ in range(n):
        tou = {}
        lines = ["/CIDInit /ProcSet findresource begin 12 dict begin begincmap", "1 begincodespacerange <0000> <FFFF> endcodespacerange"]
        # bfchar
        chars = []
        for _k in range(rng.randint(0, 3)):
            code = rng.randint(1, 0x40)
            tgt = rng.choice(["A", "é", "あ", "ff", "\U0001F600"])
            chars.append((code, tgt)); tou[code] = tgt
        if chars:
            lines.append("%d beginbfchar" % len(chars))
            for code, tgt in chars:
                lines.append("<%04X> <%s>" % (code, tgt.encode("utf-16-be").hex().upper()))
            lines.append("endbfchar")
        # bfrange, increment form incl. carry, and array form
        ranges = []
        for _k in range(rng.randint(0, 2)):
            s0 = rng.randint(0x100, 0x180); cnt = rng.randint(1, 6)
            base = rng.choice([0x30FD, 0x4E00, 0xABFE, 0x0041, 0x00FE])
            if rng.random() < 0.5:
                ranges.append("<%04X> <%04X> <%04X>" % (s0, s0 + cnt - 1, base))
                for i in range(cnt):
                    tou[s0 + i] = chr(base + i)
            else:
                arr = [rng.choice(["x", "あい", "Z"]) for _i in range(cnt)]
                ranges.append("<%04X> <%04X> [%s]" % (s0, s0 + cnt - 1, " ".join("<%s>" % a.encode("utf-16-be").hex() for a in arr)))
                for i, a in enumerate(arr):
                    tou[s0 + i] = a
        if ranges:
            lines.append("%d beginbfrange" % len(ranges)); lines += ranges; lines.append("endbfrange")
        lines.append("endcmap CMapName currentdict /CMap defineresource pop end end")
        # widths
        W, wmap, indirect = [], {}, {}
        for _k in range(rng.randint(0, 3)):
            if rng.random() < 0.5:
                c0 = rng.choice(list(tou) or [1]); ws = [rng.choice([0, 250, 500, 1000]) for _i in range(rng.randint(1, 3))]
                # a width may be written as an indirect object (object 20+): only the outer array is resolved element by element by get_widths,
                # the numbers inside the inner list reach the font as they are and are resolved when the font stores its table
                wl = list(ws)
                if rng.random() < 0.4:
                    j = rng.randrange(len(wl)); indirect[20 + len(indirect)] = wl[j]; wl[j] = Ref(20 + len(indirect) - 1)
                W += [c0, wl]
                for i, w in enumerate(ws):
                    wmap[c0 + i] = w
            else:
                c0 = rng.choice(list(tou) or [1]); c1 = c0 + rng.randint(0, 3); w = rng.choice([0, 300, 600])
                W += [c0, c1, w]
                for cc in range(c0, c1 + 1):
                    wmap[cc] = w
        dwk = rng.choice(["absent", "zero", "val"])
        dw = {"absent": 1000, "zero": 0, "val": 700}[dwk]
        codes = [rng.choice(list(tou) or [1]) for _i in range(rng.randint(1, 6))]
        if not tou:
            continue
        text = "".join("%04X" % cc for cc in codes)
        content = "BT /F1 10 Tf 0 0 Td <%s> Tj ET" % text
        cidfont = {"Type": Name("Font"), "Subtype": Name("CIDFontType2"), "BaseFont": Name("Test"), "CIDSystemInfo": {"Registry": "Adobe", "Ordering": "Identity", "Supplement": 0},
                   "FontDescriptor": Ref(8), "W": W}
        if dwk != "absent":
            cidfont["DW"] = dw
        objs = {1: {"Type": Name("Catalog"), "Pages": Ref(2)}, 2: {"Type": Name("Pages"), "Kids": [Ref(3)], "Count": 1},
                3: {"Type": Name("Page"), "Parent": Ref(2), "MediaBox": [0, 0, 600, 600], "Contents": Ref(4), "Resources": {"Font": {"F1": Ref(5)}}},
                4: Stream({}, content.encode()), 5: {"Type": Name("Font"), "Subtype": Name("Type0"), "BaseFont": Name("Test"), "Encoding": Name("Identity-H"),
                                                      "DescendantFonts": [Ref(6)], "ToUnicode": Ref(7)},
                6: cidfont, 7: Stream({}, "\n".join(lines).encode()),
                8: {"Type": Name("FontDescriptor"), "FontName": Name("Test"), "Flags": 4, "FontBBox": [0, -200, 1000, 800], "ItalicAngle": 0, "Ascent": 800, "Descent": -200, "CapHeight": 700, "StemV": 80}}
        objs.update(indirect)
        data = build(objs, 1)
        evals += 1
        distinct.add((len(chars), len(ranges), dwk, len(W)))
        try:
            rm = interp.PDFResourceManager(); dev = conv.PDFPageAggregator(rm, laparams=None); it = interp.PDFPageInterpreter(rm, dev)
            doc = PDFDocument(PDFParser(io.BytesIO(data)))
            page = next(iter(PDFPage.create_pages(doc)))
            it.process_page(page)
            got = [(o.get_text(), round(o.adv, 6), round(o.matrix[4], 6)) for o in dev.get_result() if isinstance(o, layout.LTChar)]
        except Exception as e:  # noqa: BLE001
            got = "%s: %s" % (type(e).__name__, e)
        want, x = [], 0.0
        for cc in codes:
            adv = wmap.get(cc, dw) / 1000 * 10
            want.append((tou[cc], round(adv, 6), round(x, 6)))
            x += adv
        if got != want:
            failures.append(dict(cmap=lines, W=str(W), DW=dwk, codes=codes, got=str(got)[:400], want=str(want)[:400]))
            if len(failures) >= 3:
                break
    return dict(evaluations=evals, distinct=len(distinct), failures=failures)


@bounded("predefined-cmaps-vs-platform-codecs", props=["C07"], tiers=("quick", "thorough"),
         bound="data check, not a proof: for 5 legacy/Unicode CJK CMaps, 400 (quick) / all (thorough) two-byte codes of kana, hangul and unified ideographs go code -> CID -> Unicode through the shipped tables and are compared with Python's codecs; the property's codec clause is otherwise not claimed")
def _(tier, seed):
    import random
    rng = random.Random(seed + 77)
    cases = [("90ms-RKSJ-H", "Adobe-Japan1", "cp932", [0x3042, 0x30A2, 0x4E9C, 0x65E5]),
             ("KSCms-UHC-H", "Adobe-Korea1", "cp949", [0xAC00, 0xD55C, 0x4E00]),
             ("GBK-EUC-H", "Adobe-GB1", "gbk", [0x4E00, 0x4E2D, 0x56FD]),
             ("ETen-B5-H", "Adobe-CNS1", "big5", [0x4E00, 0x4E2D]),
             ("UniJIS-UTF16-H", "Adobe-Japan1", "utf-16-be", [0x3042, 0x30A2, 0x4E9C])]
    failures, evals, distinct = [], 0, set()
    for cmapname, coll, codec, seeds in cases:
        try:
            cmap = cm.CMapDB.get_cmap(cmapname)
            umap = cm.CMapDB.get_unicode_map(coll, False)
        except Exception as e:  # noqa: BLE001
            failures.append(dict(cmap=cmapname, error="%s: %s" % (type(e).__name__, e)))
            continue
        pts = list(seeds)
        blocks = [(0x3041, 0x3094), (0x30A1, 0x30F6), (0xAC00, 0xD7A3), (0x4E00, 0x9FA5)]
        count = 400 if tier == "quick" else 6000
        if codec == "big5":
            blocks = [(0x4E00, 0x9FA5)]      # Python's big5 codec and the ETen extension disagree on kana: ideographs only
        while len(pts) < count:
            lo, hi = rng.choice(blocks)
            pts.append(rng.randint(lo, hi))
        for cp in pts:
            ch = chr(cp)
            try:
                enc = ch.encode(codec)
            except UnicodeEncodeError:
                continue
            if len(enc) != 2:
                continue
            cids = list(cmap.decode(enc))
            if len(cids) != 1:
                continue      # character outside this CMap's repertoire
            evals += 1
            distinct.add((cmapname, cp))
            try:
                got = umap.get_unichr(cids[0])
            except KeyError:
                continue
            import unicodedata
            if got != ch and unicodedata.normalize("NFKC", got) != unicodedata.normalize("NFKC", ch):
                failures.append(dict(cmap=cmapname, codepoint=hex(cp), cid=cids[0], got=got))
                if len(failures) >= 12:
                    break
    return dict(evaluations=evals, distinct=len(distinct), failures=failures[:3] if len(failures) >= 12 else [])


# -- the collection's Unicode map is a function of (collection, writing mode) alone: the cache never answers for the other mode ----------------------
sc = scenario("pdfminer.cmapdb", "unicode-map-by-collection-and-writing-mode", """
def three_requests(db, name, first):
    get = CMapDB.__dict__["get_unicode_map"].__func__
    a = get(db, name, first)
    b = get(db, name, not first)
    c = get(db, name, first)
    return (a, b, c)
""", props=["C07", "C12"])


class _Db(T.Sort):
    def fresh(self, ctx, name):
        from pyvc.values import SymFn
        mod = SObj(None, {"CID2UNICHR_H": "horizontal-table", "CID2UNICHR_V": "vertical-table"}, "data-module")
        o = SObj(None, {"_umap_cache": {}, "_loads": []}, name)
        o.f["_load_data"] = SymFn(lambda I, nm, o=o, mod=mod: (o.f["_loads"].append(nm), mod)[1], "_load_data")
        return o
    def sample(self, rng):
        return None
    def from_model(self, ev, v):
        return "db"


sc.param("db", _Db()).param("name", T.Const("Adobe-Japan1")).param("first", T.OneOf(False, True))
sc.skip_cross = True
sc.inline_callees = True
sc.mod("db._umap_cache").mod("db._loads")
sc.returns(T.Opaque("maps"))


def _umap_ok(db, first, result):
    if not (isinstance(result, tuple) and len(result) == 3):
        return False
    tbl = lambda m: m.f.get("cid2unichr") if isinstance(m, SObj) else None
    want = lambda v: "vertical-table" if v else "horizontal-table"
    return (tbl(result[0]) == want(first) and tbl(result[1]) == want(not first) and tbl(result[2]) == want(first) and result[2] is result[0]
            and db._loads == ["to-unicode-Adobe-Japan1"]
            and (result[0].f["attrs"].get("WMode") == 1) == bool(first) and (result[1].f["attrs"].get("WMode") == 1) == (not first))


sc.ens("each-request-gets-the-map-of-its-own-writing-mode-file-read-once", _umap_ok)


# -- W2 (vertical metrics): 'c [w1y vx vy ...]' gives consecutive CIDs their triples, 'c_first c_last w1y vx vy' the CLOSED range ---------------------
class _W2Seq(T.Sort):
    SHAPES = ["range-10-12", "range-5-5", "range-7-6", "list-20", "range-then-list", "leftover"]
    def fresh(self, ctx, name):
        R = lambda n: ctx.fresh_real("%s.%s" % (name, n))
        shape = ctx.choose(self.SHAPES, "w2-shape")
        t = lambda k: (R("w%d" % k), R("vx%d" % k), R("vy%d" % k))
        a, b, c_ = t(0), t(1), t(2)
        if shape.startswith("range-") and shape != "range-then-list":
            lo, hi = map(int, shape.split("-")[1:])
            seq, want = [lo, hi, a[0], a[1], a[2]], {k: a for k in range(lo, hi + 1)}
        elif shape == "list-20":
            seq, want = [20, [a[0], a[1], a[2], b[0], b[1], b[2]]], {20: a, 21: b}
        elif shape == "range-then-list":
            seq, want = [3, 4, a[0], a[1], a[2], 4, [b[0], b[1], b[2]], 9, [c_[0], c_[1], c_[2]]], {3: a, 4: b, 9: c_}
        else:
            seq, want = [1, 2, a[0]], {}
        W2WANT[id(seq)] = want
        return seq
    def sample(self, rng):
        return None
    def from_model(self, ev, v):
        return "w2"


W2WANT = {}
c = contract("pdfminer.pdffont:get_widths2", props=["C07"])
c.param("seq", _W2Seq())
c.skip_cross = True
c.returns(T.Opaque("dict"))


def _w2_ok(seq, result):
    want = W2WANT[id(seq)]
    if not isinstance(result, dict) or sorted(result) != sorted(want):
        return False
    return And(*[And(eq(result[k][0], want[k][0]), eq(result[k][1][0], want[k][1]), eq(result[k][1][1], want[k][2])) for k in want])


c.ens("closed-ranges-and-lists-of-triples", _w2_ok)


# -- the maps themselves: a ToUnicode/collection map answers from its table (KeyError when absent), the identity map is the code point;
#    a predefined CMap / Unicode map object takes its table from the data module, vertical ones say so in WMode -------------------------------------------------
c = contract("pdfminer.cmapdb:UnicodeMap.get_unichr", props=["C07", "C06"])
c.param("self", T.Obj("pdfminer.cmapdb:UnicodeMap", cid2unichr=T.Const({1: "A", 7: "xyz"}))).param("cid", T.OneOf(1, 7, 2))
c.skip_cross = True
c.inline = True
c.returns(T.Opaque("text"))
c.may_raise(KeyError, lambda cid: cid == 2)
c.ens("the-table-entry", lambda cid, result: result == {1: "A", 7: "xyz"}[cid])

cmdb = real_module("pdfminer.cmapdb")


class _DataModule(T.Sort):
    def fresh(self, ctx, name):
        vert = ctx.choose([False, True], "IS_VERTICAL")
        return SObj(None, {"CODE2CID": {"code-table": 1}, "IS_VERTICAL": vert, "CID2UNICHR_H": {"horizontal-table": 1}, "CID2UNICHR_V": {"vertical-table": 1}}, name)
    def sample(self, rng):
        return None
    def from_model(self, ev, v):
        return {"IS_VERTICAL": v.f["IS_VERTICAL"]}


_cb_init = stub("pdfminer.cmapdb:CMapBase.__init__", ["self"])
_cb_init.effect = lambda I, bound: bound["self"].f.update(attrs={"CMapName": "the-name"})
_cm_init = stub("pdfminer.cmapdb:CMap.__init__", ["self"])
_cm_init.effect = lambda I, bound: bound["self"].f.update(attrs={"CMapName": "the-name"}, code2cid={})
_um_init = stub("pdfminer.cmapdb:UnicodeMap.__init__", ["self"])
_um_init.effect = lambda I, bound: bound["self"].f.update(attrs={"CMapName": "the-name"}, cid2unichr={})
c = contract("pdfminer.cmapdb:PyCMap.__init__", props=["C07"])
c.param("self", T.Obj("pdfminer.cmapdb:PyCMap")).param("name", T.Const("the-name")).param("module", _DataModule())
c.skip_cross = True
c.inline = True
c.stubs = {"pdfminer.cmapdb:CMap.__init__": _cm_init, "pdfminer.cmapdb:CMapBase.__init__": _cb_init}
c.mod("self.*")
c.ens("code-table-of-the-data-module-vertical-flag-as-WMode-1", lambda self, module: (
    self.code2cid == {"code-table": 1} and (self.attrs.get("WMode") == 1 if module.IS_VERTICAL else "WMode" not in self.attrs)))

c = contract("pdfminer.cmapdb:PyUnicodeMap.__init__", props=["C07", "C12"])
c.param("self", T.Obj("pdfminer.cmapdb:PyUnicodeMap")).param("name", T.Const("the-name")).param("module", _DataModule()).param("vertical", T.OneOf(False, True))
c.skip_cross = True
c.inline = True
c.stubs = {"pdfminer.cmapdb:UnicodeMap.__init__": _um_init, "pdfminer.cmapdb:CMapBase.__init__": _cb_init}
c.mod("self.*")
c.ens("table-of-the-requested-writing-mode-vertical-says-WMode-1", lambda self, vertical: (
    (self.cid2unichr == {"vertical-table": 1} and self.attrs.get("WMode") == 1) if vertical else (self.cid2unichr == {"horizontal-table": 1} and "WMode" not in self.attrs)))
