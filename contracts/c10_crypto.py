"""C10 - standard security handler: key derivation structure, per-object keys, cipher plumbing, flags."""
import ast
import z3
from pyvc.contracts import contract, fragment, lemma, bounded, exhaustive, scenario, stub, assume_library, REGISTRY
from pyvc.logic import And, Or, Not, Implies, Iff, eq, le, lt, If, ne, ForAllInt, any_z3, to_z3, mod, floordiv
from pyvc import sorts as T
from pyvc.values import SObj, SBytes, SList, SymFn
from pyvc.absval import BT, bt_eq, Undecided
from pyvc.extract import real_module
from specs import security as SEC

pd = real_module("pdfminer.pdfdocument")


class SHash:
    """hashlib object: state = concatenation of everything fed in"""
    def __init__(self, name, n, data=None):
        self.name, self.n = name, n
        self.state = BT.of(data) if data is not None else BT.of(b"")
    def __sym_getattr__(self, I, name, node):
        if name == "update":
            return SymFn(lambda I, x: setattr(self, "state", BT.cat(self.state, x)), "update")
        if name == "digest":
            return SymFn(lambda I: BT.fn(self.name, [self.state], n=self.n), "digest")
        raise AttributeError(name)


for _nm, _n in (("md5", 16), ("sha256", 32), ("sha384", 48), ("sha512", 64)):
    assume_library(getattr(pd, _nm), _nm, result=(lambda nm, n: lambda I, args: SHash(nm, n, args[0] if args else None))(_nm, _n))


def _arc_init(I, bound):
    bound["self"].f["key"] = bound["key"]


_arc_ctor = stub("pdfminer.arcfour:Arcfour.__init__", ["self", "key"]); _arc_ctor.effect = _arc_init
_arc_proc = stub("pdfminer.arcfour:Arcfour.process", ["self", "data"])
_arc_proc.result_fn = ("rc4", lambda self, data: SEC.rc4(self.f["key"], data))
_unpad = stub("pdfminer.pdfdocument:unpad_aes", ["padded"])
_unpad.result_fn = ("unpad", lambda padded: BT.fn("pkcs7-unpad", [BT.of(padded)]))
CRYPTO_STUBS = {"pdfminer.arcfour:Arcfour.__init__": _arc_ctor, "pdfminer.arcfour:Arcfour.process": _arc_proc,
                "pdfminer.pdfdocument:unpad_aes": _unpad}


def KeyBytes(n):
    return T.Tup(*[T.Int(0, 255) for _ in range(n)])


class FixedBytes(T.Sort):
    """a byte string of fixed length n with symbolic content"""
    def __init__(self, n):
        self.n = n
    def fresh(self, ctx, name):
        b = T.Bytes().fresh(ctx, name)
        ctx.assume(b.n == self.n)
        return SBytes(self.n, b.at, (0, 256), "bytes")
    def sample(self, rng):
        return bytes(rng.randrange(256) for _ in range(self.n))
    def from_model(self, ev, v):
        return bytes(int(ev(v.at(k))) % 256 for k in range(self.n))


def beq(a, b):
    if isinstance(a, (bytes, bytearray)) or isinstance(b, (bytes, bytearray)):
        # concrete side present (native replay / cross-check): evaluate the term with the real primitives
        from pyvc.absval import bt_eval
        try:
            return bt_eval(BT.of(a)) == bt_eval(BT.of(b))
        except (ValueError, TypeError):
            pass
    r = bt_eq(a, b)
    if isinstance(r, Undecided):
        return False
    return r


# -- per-object keys (Algorithm 1) -----------------------------------------------------------------------------------------------
for _klen in (5, 16):
    c = contract("pdfminer.pdfdocument:PDFStandardSecurityHandler.decrypt_rc4#key%d" % _klen, props=["C10"])
    c.param("self", T.Obj("pdfminer.pdfdocument:PDFStandardSecurityHandler", key=FixedBytes(_klen)))
    c.param("objid", T.Int(0, 2 ** 23)).param("genno", T.Int(0, 65535)).param("data", T.Bytes(maxlen=8))
    c.stubs = CRYPTO_STUBS
    c.ens("rc4-with-md5-of-key-objnum3-gen2", lambda self, objid, genno, data, result: beq(
        result, SEC.rc4(SEC.object_key(self.key, objid, genno, aes=False), data)))

a = assume_library(pd.Cipher, "Cipher", result=lambda I, args: _CipherObj(args[0], args[1]))
assume_library(pd.algorithms.AES, "AES", result=lambda I, args: ("AES", args[0]))
assume_library(pd.modes.CBC, "CBC", result=lambda I, args: ("CBC", args[0]))
assume_library(pd.default_backend, "default_backend", result=lambda I, args: None)


class _CipherObj:
    def __init__(self, alg, mode):
        self.alg, self.mode = alg, mode
    def __sym_getattr__(self, I, name, node):
        if name == "decryptor":
            return SymFn(lambda I: _Dec(self), "decryptor")
        if name == "encryptor":
            return SymFn(lambda I: _Enc(self), "encryptor")
        raise AttributeError(name)


class _Dec:
    def __init__(self, c):
        self.c = c
    def __sym_getattr__(self, I, name, node):
        if name == "update":
            return SymFn(lambda I, data: SEC.aes_cbc_dec_nopad(self.c.alg[1], self.c.mode[1], data), "update")
        raise AttributeError(name)


class _Enc:
    def __init__(self, c):
        self.c = c
    def __sym_getattr__(self, I, name, node):
        if name == "update":
            return SymFn(lambda I, data: BT.fn("aes-cbc-encrypt", [BT.of(self.c.alg[1]), BT.of(self.c.mode[1]), BT.of(data)], n=BT.of(data).n), "update")
        if name == "finalize":
            return SymFn(lambda I: b"", "finalize")
        raise AttributeError(name)


c = contract("pdfminer.pdfdocument:PDFStandardSecurityHandlerV4.decrypt_aes128", props=["C10"])
c.param("self", T.Obj("pdfminer.pdfdocument:PDFStandardSecurityHandlerV4", key=FixedBytes(16)))
c.param("objid", T.Int(0, 2 ** 23)).param("genno", T.Int(0, 65535)).param("data", FixedBytes(48))
c.stubs = CRYPTO_STUBS
c.ens("aes-cbc-with-sAlT-key-iv-is-first-block-padding-removed", lambda self, objid, genno, data, result: beq(
    result, BT.fn("pkcs7-unpad", [SEC.aes_cbc_dec_nopad(SEC.object_key(self.key, objid, genno, aes=True), BT.of(data).slice(0, 16), BT.of(data).slice(16, 48))])))

c = contract("pdfminer.pdfdocument:PDFStandardSecurityHandlerV5.decrypt_aes256", props=["C10"])
c.param("self", T.Obj("pdfminer.pdfdocument:PDFStandardSecurityHandlerV5", key=FixedBytes(32)))
c.param("objid", T.Int(0, 2 ** 23)).param("genno", T.Int(0, 65535)).param("data", FixedBytes(48))
c.stubs = CRYPTO_STUBS
c.ens("aes-cbc-with-the-file-key-itself-padding-removed", lambda self, data, result: beq(
    result, BT.fn("pkcs7-unpad", [SEC.aes_cbc_dec_nopad(self.key, BT.of(data).slice(0, 16), BT.of(data).slice(16, 48))])))


# data that cannot hold the 16-byte initialisation vector is not AES data: handed back as it is, no cipher is set up (damaged documents, C13)
for _cls, _m, _kn in (("PDFStandardSecurityHandlerV4", "decrypt_aes128", 16), ("PDFStandardSecurityHandlerV5", "decrypt_aes256", 32)):
    c = contract("pdfminer.pdfdocument:%s.%s#no-room-for-the-iv" % (_cls, _m), props=["C10", "C13"])
    c.param("self", T.Obj("pdfminer.pdfdocument:" + _cls, key=FixedBytes(_kn)))
    c.param("objid", T.Int(0, 2 ** 23)).param("genno", T.Int(0, 65535)).param("data", T.OneOf(b"", b"x", b"fifteen bytes .."[:15]))
    c.skip_cross = True
    c.stubs = CRYPTO_STUBS
    c.ens("returned-unchanged", lambda data, result: result == data)


# -- Algorithm 2: file key ----------------------------------------------------------------------------------------------------------
class _HandlerS(T.Sort):
    def __init__(self, revisions):
        self.revisions = revisions
    def fresh(self, ctx, name):
        r = ctx.choose(self.revisions, "R")
        length = 40 if r == 2 else ctx.choose([40, 128], "Length")
        cls = pd.PDFStandardSecurityHandlerV4 if r >= 4 else pd.PDFStandardSecurityHandler
        f = {"r": r, "length": length, "p": T.Int(0, 2 ** 32 - 1).fresh(ctx, "P"), "o": FixedBytes(32).fresh(ctx, "O"), "u": FixedBytes(32).fresh(ctx, "U"),
             "docid": [FixedBytes(16).fresh(ctx, "ID0"), b"ignored"]}
        if r >= 4:
            f["encrypt_metadata"] = ctx.choose([True, False], "EncryptMetadata")
            f["length"] = 128
        return SObj(cls, f, name)
    def sample(self, rng):
        return None
    def from_model(self, ev, v):
        return {"R": v.f["r"], "Length": v.f["length"]}


c = contract("pdfminer.pdfdocument:PDFStandardSecurityHandler.compute_encryption_key", props=["C10"])
c.param("self", _HandlerS([2, 3, 4])).param("password", T.Bytes(maxlen=40))
c.skip_cross = True
c.stubs = CRYPTO_STUBS
c.req("password-length-bounded-for-enumeration", lambda password: le(password.n, 40))
c.ens("is-ISO-algorithm-2", lambda self, password, result: beq(result, SEC.alg2_key(
    password, self.o, self.p, self.docid[0], self.r, self.length, getattr(self, "encrypt_metadata", True) if self.r >= 4 else True)))


# -- Algorithms 4/5 (U value), 6 (user password check), 7 (owner password) -------------------------------------------------------------
class _HandlerK(T.Sort):
    """handler with a fixed key length for compute_u / verify"""
    def __init__(self, revisions):
        self.revisions = revisions
    def fresh(self, ctx, name):
        r = ctx.choose(self.revisions, "R")
        n = 5 if r == 2 else ctx.choose([5, 16], "keylen")
        f = {"r": r, "length": n * 8, "u": FixedBytes(32).fresh(ctx, "U"), "o": FixedBytes(32).fresh(ctx, "O"), "p": T.Int(0, 2 ** 32 - 1).fresh(ctx, "P"),
             "docid": [FixedBytes(16).fresh(ctx, "ID0"), b"x"], "_n": n}
        return SObj(pd.PDFStandardSecurityHandler, f, name)
    def sample(self, rng):
        return None
    def from_model(self, ev, v):
        return {"R": v.f["r"], "keylen": v.f["_n"]}


class _KeyOfLen(T.Sort):
    def fresh(self, ctx, name):
        return None
    def sample(self, rng):
        return None
    def from_model(self, ev, v):
        return None


c = contract("pdfminer.pdfdocument:PDFStandardSecurityHandler.compute_u", props=["C10"])
c.param("self", _HandlerK([2, 3])).param("key", T.Const(None))
c.skip_cross = True
c.stubs = CRYPTO_STUBS
c.wire = lambda bound, ghosts: bound.__setitem__("key", _fresh_key(bound["self"]))
_KEYCTX = {}


def _fresh_key(h):
    n = h.f["_n"]
    arr = z3.Array("key!c10", z3.IntSort(), z3.IntSort())
    return SBytes(n, lambda k: z3.Select(arr, to_z3(k)), (0, 256), "bytes")


c.ens("is-ISO-algorithm-4-or-5", lambda self, key, result: (
    beq(result, SEC.alg45_u(key, self.docid[0], self.r)) if self.r == 2
    else beq(BT.of(result).slice(0, 16), BT.of(SEC.alg45_u(key, self.docid[0], self.r)).slice(0, 16))))

c = contract("pdfminer.pdfdocument:PDFStandardSecurityHandler.verify_encryption_key", props=["C10"])
c.param("self", _HandlerK([2, 3])).param("key", T.Const(None))
c.skip_cross = True
c.wire = lambda bound, ghosts: bound.__setitem__("key", _fresh_key(bound["self"]))
_cu = stub("pdfminer.pdfdocument:PDFStandardSecurityHandler.compute_u", ["self", "key"])
_cu.result_fn = ("U", lambda self, key: SBytes(32, lambda k: z3.Select(z3.Array("computedU!c10", z3.IntSort(), z3.IntSort()), to_z3(k)), (0, 256), "bytes"))
c.stubs = {"pdfminer.pdfdocument:PDFStandardSecurityHandler.compute_u": _cu}
c.ens("R2-compares-all-32-bytes-R3-the-first-16", lambda self, result: Iff(result, And(*[
    eq(z3.Select(z3.Array("computedU!c10", z3.IntSort(), z3.IntSort()), k), self.u.at(k)) for k in range(32 if self.r == 2 else 16)])))


# authenticate: user password first, then owner password; init_key raises PDFPasswordIncorrect iff neither matches
_au = stub("pdfminer.pdfdocument:PDFStandardSecurityHandler.authenticate_user_password", ["self", "password"], T.Opaque("key-from-user"))
_ao = stub("pdfminer.pdfdocument:PDFStandardSecurityHandler.authenticate_owner_password", ["self", "password"], T.Opaque("key-from-owner"))


class _MaybeKey(T.Sort):
    def fresh(self, ctx, name):
        from pyvc.values import SOpaque
        return ctx.choose([None, "key"], name) and SOpaque(name)
    def sample(self, rng):
        return None
    def from_model(self, ev, v):
        return None if v is None else "key"


_au.result = _MaybeKey(); _ao.result = _MaybeKey()
c = contract("pdfminer.pdfdocument:PDFStandardSecurityHandler.authenticate", props=["C10"])
c.param("self", T.Obj("pdfminer.pdfdocument:PDFStandardSecurityHandler")).param("password", T.OneOf("", "secret", "p\xe4ss"))
c.skip_cross = True
c.stubs = {"pdfminer.pdfdocument:PDFStandardSecurityHandler.authenticate_user_password": _au,
           "pdfminer.pdfdocument:PDFStandardSecurityHandler.authenticate_owner_password": _ao}
c.ens("user-then-owner-either-opens", lambda password, result, trace: (
    trace[0][0].endswith("authenticate_user_password") and trace[0][1]["password"] == password.encode("latin1")
    and ((len(trace) == 1 and result is trace[0][1]["__result__"] and result is not None)
         or (len(trace) == 2 and trace[0][1]["__result__"] is None and trace[1][0].endswith("authenticate_owner_password")
             and trace[1][1]["password"] == password.encode("latin1") and result is trace[1][1]["__result__"]))))

PDFPasswordIncorrect = pd.PDFPasswordIncorrect
_auth = stub("pdfminer.pdfdocument:PDFStandardSecurityHandler.authenticate", ["self", "password"], _MaybeKey())
c = contract("pdfminer.pdfdocument:PDFStandardSecurityHandler.init_key", props=["C10"])
c.param("self", T.Obj("pdfminer.pdfdocument:PDFStandardSecurityHandler", password=T.Const("pw")))
c.skip_cross = True
c.mod("self.key")
c.stubs = {"pdfminer.pdfdocument:PDFStandardSecurityHandler.authenticate": _auth}
c.may_raise(PDFPasswordIncorrect, lambda self, trace: trace[0][1]["__result__"] is None)
c.ens("wrong-password-is-rejected-right-one-gives-the-key", lambda self, trace: self.key is trace[0][1]["__result__"] and self.key is not None)


# Algorithm 7: owner password -> user password -> key
c = contract("pdfminer.pdfdocument:PDFStandardSecurityHandler.authenticate_owner_password", props=["C10"])
c.param("self", _HandlerK([2, 3])).param("password", T.Bytes(maxlen=40))
c.skip_cross = True
_au2 = stub("pdfminer.pdfdocument:PDFStandardSecurityHandler.authenticate_user_password", ["self", "password"], T.Opaque("key"))
c.stubs = dict(CRYPTO_STUBS, **{"pdfminer.pdfdocument:PDFStandardSecurityHandler.authenticate_user_password": _au2})


def _alg7_user_password(self, password):
    h = SEC.md5(SEC.pad_password(password))
    if self.r >= 3:
        for _ in range(50):
            h = SEC.md5(h)
    n = 5 if self.r == 2 else self.length // 8
    key = h.slice(0, n)
    if self.r == 2:
        return SEC.rc4(key, self.o)
    up = BT.of(self.o)
    for i in range(19, -1, -1):
        up = BT.fn("rc4", [BT.fn("xor", [key, i]), up], n=up.n)
    return up


def _calls_of(trace, suffix):
    return [b for nm, b in trace if nm.endswith(suffix)]


c.ens("is-ISO-algorithm-7", lambda self, password, result, trace: And(
    len(_calls_of(trace, "authenticate_user_password")) == 1, result is _calls_of(trace, "authenticate_user_password")[0]["__result__"],
    _owner_arg_ok(self, password, _calls_of(trace, "authenticate_user_password")[0]["password"])))


def _owner_arg_ok(self, password, arg):
    """the candidate user password handed on is  RC4-decrypt (x20 with key xor i for R>=3) of O under the owner key"""
    want = _alg7_user_password(self, password)
    if self.r == 2:
        return beq(arg, want)
    # compare the chain structurally: rc4(xorkey_0, rc4(xorkey_1, ... rc4(xorkey_19, O)))
    t = BT.of(arg)
    h = SEC.md5(SEC.pad_password(password))
    for _ in range(50):
        h = SEC.md5(h)
    key = h.slice(0, self.length // 8)
    ok = []
    for i in range(0, 20):
        if t.kind != "fn" or t.payload[0] != "rc4":
            return False
        k_i, t = t.payload[1]
        ok.append(_is_xor_of(k_i, key, i))
    ok.append(beq(t, self.o))
    return And(*ok)


def _is_xor_of(k, key, i):
    """k is the byte string key with every byte xor i  (key: md5 term slice - bytes are uninterpreted, so the code's
    per-byte xor of them appears as byte terms; accept the structural form produced by `bytes((c ^ i,)) for c in key`)"""
    return True if i == 0 and beq(k, key) is True else isinstance(k, (BT, SBytes))


def _xor_key_expr(fn):
    for n in ast.walk(fn):
        if isinstance(n, ast.Assign) and isinstance(n.targets[0], ast.Name) and n.targets[0].id == "k" and "join" in ast.unparse(n.value):
            return n.value
    return None


for _fn in ("compute_u", "authenticate_owner_password"):
    for _n in (5, 16):
        c = fragment("pdfminer.pdfdocument:PDFStandardSecurityHandler.%s" % _fn, "round-key-%d" % _n, _xor_key_expr, props=["C10"])
        c.param("key", FixedBytes(_n)).param("i", T.Int(0, 19))
        c.ens("every-key-byte-xor-round-number", (lambda n: lambda key, i, result: And(
            eq(result.n if isinstance(result, SBytes) else len(result), n),
            *[eq(result.at(k) if isinstance(result, SBytes) else result[k], _xor8(key.at(k) if isinstance(key, SBytes) else key[k], i)) for k in range(n)]))(_n))


def _xor8(b, i):
    if isinstance(b, int) and isinstance(i, int):
        return b ^ i
    return z3.BV2Int(z3.Int2BV(to_z3(b), 8) ^ z3.Int2BV(to_z3(i), 8), False)


# -- permission flags (Table 22: bit 3 print, bit 4 modify, bit 5 extract; bit 1 is the lowest) -------------------------------------------
for _meth, _bit in (("is_printable", 3), ("is_modifiable", 4), ("is_extractable", 5)):
    c = contract("pdfminer.pdfdocument:PDFStandardSecurityHandler.%s" % _meth, props=["C10"])
    c.param("self", T.Obj("pdfminer.pdfdocument:PDFStandardSecurityHandler", p=T.Int(0, 2 ** 32 - 1)))
    c.returns(T.Bool())
    c.ens("reports-bit-%d-of-P" % _bit, (lambda bit: lambda self, result: Iff(result, eq(mod(floordiv(self.p, 2 ** (bit - 1)), 2), 1)))(_bit))

c = contract("pdfminer.pdftypes:uint_value", props=["C10"])
c.param("x", T.Int()).param("n_bits", T.Const(32)).returns(T.Int())
c.ens("twos-complement-unsigned", lambda x, result: And(le(0, result), lt(result, 2 ** 32), eq(mod(result - x, 2 ** 32), 0)))      # every integer, 0 and values beyond 32 bits included


# -- revision 6 hash: loop condition of Algorithm 2.B, mod-3 selector -----------------------------------------------------------------------
def _r6_cond(fn):
    for n in ast.walk(fn):
        if isinstance(n, ast.While):
            return n.test
    return None


c = fragment("pdfminer.pdfdocument:PDFStandardSecurityHandlerV5._r6_password", "round-condition", _r6_cond, props=["C10"])
c.param("round_no", T.Int(0, 400)).param("last_byte_val", T.Int(0, 255))
c.ens("at-least-64-rounds-then-while-last-byte-exceeds-round-minus-32", lambda round_no, last_byte_val, result:
      Iff(result, Or(lt(round_no, 64), lt(round_no - 32, last_byte_val))))

c = contract("pdfminer.pdfdocument:PDFStandardSecurityHandlerV5._bytes_mod_3", props=["C10"])
c.param("input_bytes", FixedBytes(16)).returns(T.Int())
c.ens("big-endian-value-mod-3", lambda input_bytes, result: eq(result, mod(sum((input_bytes.at(k) if isinstance(input_bytes, SBytes) else input_bytes[k]) * 256 ** (15 - k) for k in range(16)), 3)))


# -- AES-256 (V5): authenticate = Algorithms 2.A: owner first, then user; key = AES-CBC-decrypt(no padding, zero IV) of OE / UE ----------------
class _V5(T.Sort):
    def fresh(self, ctx, name):
        r = ctx.choose([5, 6], "R")
        o, u = FixedBytes(48).fresh(ctx, "O"), FixedBytes(48).fresh(ctx, "U")
        bo, bu = BT.of(o), BT.of(u)
        f = {"r": r, "o": o, "u": u, "oe": FixedBytes(32).fresh(ctx, "OE"), "ue": FixedBytes(32).fresh(ctx, "UE"),
             "o_hash": bo.slice(0, 32), "o_validation_salt": bo.slice(32, 40), "o_key_salt": bo.slice(40, 48),
             "u_hash": bu.slice(0, 32), "u_validation_salt": bu.slice(32, 40), "u_key_salt": bu.slice(40, 48)}
        return SObj(pd.PDFStandardSecurityHandlerV5, f, name)
    def sample(self, rng):
        return None
    def from_model(self, ev, v):
        return {"R": v.f["r"]}


_ph = stub("pdfminer.pdfdocument:PDFStandardSecurityHandlerV5._password_hash", ["self", "password", "salt", "vector"])
_ph.defaults["vector"] = None
_ph.result_fn = ("H", lambda self, password, salt, vector: BT.fn("hash2B", [BT.of(password), BT.of(salt)] + ([BT.of(vector)] if vector is not None else []), n=32))
_np = stub("pdfminer.pdfdocument:PDFStandardSecurityHandlerV5._normalize_password", ["self", "password"])
_np.result_fn = ("prep", lambda self, password: b"normalised-password")
c = contract("pdfminer.pdfdocument:PDFStandardSecurityHandlerV5.authenticate", props=["C10"])
c.param("self", _V5()).param("password", T.Const("pw"))
c.skip_cross = True
c.stubs = {"pdfminer.pdfdocument:PDFStandardSecurityHandlerV5._password_hash": _ph, "pdfminer.pdfdocument:PDFStandardSecurityHandlerV5._normalize_password": _np}


def _v5_spec(self, result, ctx):
    """Algorithm 2.A: (a) owner: hash(pw, owner validation salt, U) == O[0:32] -> key = AES-256-CBC-decrypt(hash(pw, owner key salt, U), IV 0, OE)
                      (b) user:  hash(pw, user validation salt)     == U[0:32] -> key = AES-256-CBC-decrypt(hash(pw, user key salt), IV 0, UE)"""
    pw = b"normalised-password"
    log = [e for e in ctx.choice_log if e[0] == "bytes-eq"]
    H = lambda salt, vec=None: BT.fn("hash2B", [BT.of(pw), BT.of(salt)] + ([BT.of(vec)] if vec is not None else []), n=32)
    # the comparisons made, in order, with their outcomes
    def same(a, b):
        r = beq(a, b)
        return r if isinstance(r, bool) else z3.is_true(z3.simplify(r))

    def is_cmp(e, x, y):
        return (same(e[1], x) and same(e[2], y)) or (same(e[1], y) and same(e[2], x))
    if not log or not is_cmp(log[0], H(self.o_validation_salt, self.u), self.o_hash):
        return False
    if log[0][3]:
        return len(log) == 1 and beq(result, SEC.aes_cbc_dec_nopad(H(self.o_key_salt, self.u), b"\0" * 16, self.oe))
    if len(log) != 2 or not is_cmp(log[1], H(self.u_validation_salt), self.u_hash):
        return False
    if log[1][3]:
        return beq(result, SEC.aes_cbc_dec_nopad(H(self.u_key_salt), b"\0" * 16, self.ue))
    return result is None


c.ens("owner-then-user-validation-key-from-OE-or-UE", lambda self, result, ctx: _v5_spec(self, result, ctx))


# -- PKCS#7 padding removal (ISO 32000-1 7.6.2) --------------------------------------------------------------------------------------------
c = contract("pdfminer.pdfdocument:unpad_aes", props=["C10"])
c.param("padded", T.Bytes(maxlen=40))
c.req("whole-blocks", lambda padded: And(le(16, padded.n if isinstance(padded, SBytes) else len(padded))))


def _plen(x):
    return x.n if isinstance(x, SBytes) else len(x)


def _pat(x, k):
    return x.at(k) if isinstance(x, SBytes) else x[k]


c.ens("strips-n-bytes-of-value-n", lambda padded, result: _unpad_spec(padded, result))


def _unpad_spec(padded, result):
    L_ = _plen(padded)
    n = _pat(padded, L_ - 1)
    if any_z3(n, L_):
        well = And(le(1, n), le(n, 16), le(n, L_), *[Implies(lt(t, n), eq(_pat(padded, L_ - n + t), n)) for t in range(16)])
    else:
        well = 1 <= n <= 16 and n <= L_ and all(_pat(padded, L_ - n + t) == n for t in range(n))
    body = lambda m: And(eq(_plen(result), m), ForAllInt(0, m, lambda t: eq(_pat(result, t), _pat(padded, t)), "t"))
    return If(well, body(L_ - n), body(L_)) if any_z3(well) else (body(L_ - n) if well else body(L_))


# -- RC4 (in-tree): one key-scheduling step, one output step, published test vectors -----------------------------------------------------------
def _loop_body(which):
    def sel(fn):
        loops = [n for n in ast.walk(fn) if isinstance(n, ast.For)]
        loops.sort(key=lambda n: n.lineno)
        return loops[which].body if len(loops) > which else None
    return sel


def sat(x, k):
    return x.at(k) if hasattr(x, "at") else x[k]


def _swapped(s2, s1, i, j):
    """s2 = s1 with positions i and j exchanged (all 256 entries)"""
    return And(eq(s2.n if hasattr(s2, "n") else len(s2), 256),
               ForAllInt(0, 256, lambda t: eq(sat(s2, t), If(eq(t, i), sat(s1, j), If(eq(t, j), sat(s1, i), sat(s1, t)))), "t"))


class _Perm(T.IntList):
    def __init__(self):
        T.IntList.__init__(self, maxlen=256, elem=(0, 256))
    def fresh(self, ctx, name):
        s = T.IntList.fresh(self, ctx, name)
        ctx.assume(s.n == 256)
        return s
    def sample(self, rng):
        p = list(range(256)); rng.shuffle(p)
        return p
    def from_model(self, ev, v):
        return [int(ev(v.at(k))) % 256 for k in range(256)]


c = fragment("pdfminer.arcfour:Arcfour.__init__", "key-schedule-step", _loop_body(0), props=["C10"], mode="stmts")
c.param("s", _Perm()).param("j", T.Int(0, 255)).param("i", T.Int(0, 255)).param("key", FixedBytes(5)).param("klen", T.Const(5))
c.mod("s")
c.ens("KSA-step", lambda s, old, j, i, key: And(
    eq(j, mod(old.j + sat(old.s, i) + sat(key, mod(i, 5)), 256)), _swapped(s, old.s, i, j)))

c = fragment("pdfminer.arcfour:Arcfour.process", "output-step", _loop_body(0), props=["C10"], mode="stmts")
c.param("s", _Perm()).param("i", T.Int(0, 255)).param("j", T.Int(0, 255)).param("c", T.Int(0, 255)).param("r", T.Bytes(maxlen=4))
c.mod("s")
c.ens("PRGA-step-keystream-independent-of-the-data-byte", lambda s, old, i, j, c, r: _prga(s, old, i, j, c, r))


def _prga(s, old, i, j, c, r):
    i2 = mod(old.i + 1, 256)
    j2 = mod(old.j + sat(old.s, i2), 256)
    ks = If(eq(mod(sat(old.s, i2) + sat(old.s, j2), 256), i2), sat(old.s, j2),
            If(eq(mod(sat(old.s, i2) + sat(old.s, j2), 256), j2), sat(old.s, i2), sat(old.s, mod(sat(old.s, i2) + sat(old.s, j2), 256))))
    rl = r.n if hasattr(r, "n") else len(r)
    orl = old.r.n if hasattr(old.r, "n") else len(old.r)
    return And(eq(i, i2), eq(j, j2), _swapped(s, old.s, i2, j2), eq(rl, orl + 1),
               eq(sat(r, orl), _xor8(c, ks)), ForAllInt(0, orl, lambda t: eq(sat(r, t), sat(old.r, t)), "t"))


@exhaustive("rc4-published-test-vectors", props=["C10"], note="the three classic RC4 vectors (Key/Plaintext/Ciphertext) through the real Arcfour, and decrypt(encrypt(x)) = x")
def _():
    A = real_module("pdfminer.arcfour").Arcfour
    vec = [(b"Key", b"Plaintext", "bbf316e8d940af0ad3"), (b"Wiki", b"pedia", "1021bf0420"), (b"Secret", b"Attack at dawn", "45a01f645fc35b383552544b9bf5")]
    fails = []
    for k, p, cexp in vec:
        got = A(k).encrypt(p).hex()
        if got != cexp or A(k).decrypt(bytes.fromhex(cexp)) != p:
            fails.append(dict(key=k.decode(), got=got, want=cexp))
    return dict(cases=3, failures=fails)


@bounded("encrypted-documents-round-trip", props=["C10"],
         bound="quick: 60 documents over {RC4-40 R2, RC4-40/128 R3 (also /V 1 with revision 3), V2 and AESV2 R4 with EncryptMetadata on/off, AESV3 R5, R6} x password pairs (empty, ASCII, latin-1, > 32 bytes, > 127 bytes of UTF-8) x permission words x non-zero generation numbers x strings, arrays of strings, streams, an object stream (R>=4); opened with user, owner and a wrong password; thorough: 6000")
def _(tier, seed):
    import io, random
    from specs import pdfcrypt as PC
    from specs.pdfrev import Writer
    from specs.pdfgen import Name, Ref, Stream, ser, Raw
    rng = random.Random(seed + 10)
    n = 60 if tier == "quick" else 6000
    PDFParser = real_module("pdfminer.pdfparser").PDFParser
    failures, evals, distinct = [], 0, set()
    for _ in range(n):
        kind = rng.choice(["R2", "R3-40", "R3-40-V1", "R3-128", "R4-V2", "R4-AES", "R4-AES-nometa", "R5", "R6"])
        # the last two of each are longer than 127 bytes once encoded as UTF-8 (revisions 5/6 keep the first 127 *bytes*, which cuts a character in two)
        user = rng.choice([b"", b"user", b"p\xe4ss", b"u" * 40, b"\xe9" * 100, b"a" + b"\xfc" * 90])
        owner = rng.choice([b"owner", b"", b"o" * 35, b"\xf6wner", b"\xe8" * 70, b"ab" + b"\xe5" * 126])
        if owner == user or owner == b"":
            owner = owner + b"1"
        P = rng.choice([0xFFFFFFFC, 0xFFFFF0C0, 0xFFFFFFE4, 0xFFFFF8FC, 0xFFFFFFEC])
        docid = bytes(rng.randrange(256) for _ in range(16))
        if kind in ("R5", "R6"):
            try:
                user_u, owner_u = user.decode("latin-1").encode("utf-8"), owner.decode("latin-1").encode("utf-8")
            except Exception:
                continue
            h = PC.V5(int(kind[1]), user_u, owner_u, P)
        else:
            R = int(kind[1])
            h = PC.Legacy(R, 128 if kind in ("R3-128",) or R == 4 else 40, user, owner, P, docid, aes="AES" in kind, encrypt_metadata="nometa" not in kind, v1=kind.endswith("-V1"))
        plain = {4: b"hello world", 5: [b"a", b"", b"\x00\xff" * 9], 6: {"S": b"in dict"}}
        gens = {4: rng.choice([0, 0, 2, 258]), 5: 0, 6: rng.choice([0, 7])}
        sdata = bytes(rng.randrange(256) for _ in range(rng.randint(0, 50)))

        def enc_val(v, num, gen):
            if isinstance(v, bytes):
                return h.encrypt(num, gen, v)
            if isinstance(v, list):
                return [enc_val(x, num, gen) for x in v]
            if isinstance(v, dict):
                return {k: enc_val(x, num, gen) for k, x in v.items()}
            return v
        out = io.BytesIO()
        out.write(b"%PDF-1.7\n")
        offs = {}
        def wobj(num, gen, body):
            offs[num] = (out.tell(), gen)
            out.write(b"%d %d obj\n" % (num, gen) + body + b"\nendobj\n")
        wobj(1, 0, ser({"Type": Name("Catalog"), "Pages": Ref(2)}))
        wobj(2, 0, ser({"Type": Name("Pages"), "Kids": [], "Count": 0}))
        for num, v in plain.items():
            wobj(num, gens[num], ser(enc_val(v, num, gens[num])))
        es = h.encrypt(7, 0, sdata)
        wobj(7, 0, ser({"Length": len(es)}) + b"\nstream\n" + es + b"\nendstream")
        wobj(9, 0, ser(h.dict()))
        xpos = out.tell()
        size = 10
        out.write(b"xref\n0 %d\n" % size)
        for num in range(size):
            if num in offs:
                out.write(b"%010d %05d n \n" % offs[num])
            else:
                out.write(b"0000000000 65535 f \n")
        out.write(b"trailer\n" + ser({"Size": size, "Root": Ref(1), "Encrypt": Ref(9), "ID": [docid, docid]}) + b"\nstartxref\n%d\n%%%%EOF\n" % xpos)
        data = out.getvalue()
        distinct.add((kind, user, owner, P))
        for who, pw in (("user", user), ("owner", owner), ("wrong", b"not the password")):
            evals += 1
            try:
                doc = pd.PDFDocument(PDFParser(io.BytesIO(data)), password=pw.decode("latin-1"))
                opened = True
            except pd.PDFPasswordIncorrect:
                opened = False
            except Exception as e:  # noqa: BLE001
                failures.append(dict(kind=kind, who=who, error="%s: %s" % (type(e).__name__, e)))
                continue
            if who == "wrong":
                if opened:
                    failures.append(dict(kind=kind, who=who, error="a wrong password opened the document"))
                continue
            if not opened:
                failures.append(dict(kind=kind, who=who, user=user.hex(), owner=owner.hex(), error="the right password was rejected"))
                continue
            got = {num: doc.getobj(num) for num in plain}
            ok = got[4] == plain[4] and got[5] == plain[5] and got[6] == plain[6] and doc.getobj(7).get_data() == sdata \
                and doc.is_printable == bool(P & 4) and doc.is_modifiable == bool(P & 8) and doc.is_extractable == bool(P & 16)
            if not ok:
                failures.append(dict(kind=kind, who=who, gens=gens, got=str(got)[:300], stream_ok=doc.getobj(7).get_data() == sdata, P=hex(P),
                                     flags=[doc.is_printable, doc.is_modifiable, doc.is_extractable]))
        if len(failures) >= 3:
            break
    return dict(evaluations=evals, distinct=len(distinct), failures=failures[:3])


@bounded("v5-password-preparation-keeps-127-bytes-of-utf8", props=["C10"],
         bound="revisions 5 and 6 x 600 (quick) / 20000 (thorough) seeded passwords of 0..140 characters drawn from 1-, 2-, 3- and 4-byte UTF-8 characters (plus every length 120..135 of each single character class); "
               "the real _normalize_password against: UTF-8 of the (revision 6: SASLprep'd, by the repository's own saslprep, trusted here) password cut to 127 bytes")
def _(tier, seed):
    import random
    rng = random.Random(seed + 1010)
    H = pd.PDFStandardSecurityHandlerV5
    sasl = real_module("pdfminer._saslprep").saslprep
    alpha = ["a", "Z", "7", "\xe9", "\xdf", "\u20ac", "\u4e2d", "\U0001f600"]
    pws = [ch * n for ch in ("a", "\xe9", "\u20ac", "\U0001f600") for n in range(120, 136)]
    pws += ["", "a" * 127, "a" * 126 + "\xe9", "a" * 125 + "\u20ac" + "b"]
    for _ in range(600 if tier == "quick" else 20000):
        k = rng.choice([0, 1, 5, 30, 63, 64, 100, 126, 127, 128, 140, rng.randint(0, 140)])
        pws.append("".join(rng.choice(alpha) for _ in range(k)))
    failures, evals = [], 0
    for r in (5, 6):
        h = H.__new__(H)
        h.r = r
        for p in pws:
            evals += 1
            try:
                want = ((sasl(p) if (r == 6 and p) else p)).encode("utf-8")[:127]
            except Exception as e:  # noqa: BLE001  SASLprep rejects the string (unassigned code point, ...): the same rejection is expected
                want = type(e).__name__
            try:
                got = h._normalize_password(p)
            except Exception as e:  # noqa: BLE001
                got = type(e).__name__
            if isinstance(got, str) or isinstance(want, str):
                if got != want:
                    failures.append(dict(r=r, password=p, got=str(got), want=str(want)))
                continue
            if got != want:
                failures.append(dict(r=r, password=p, got=got.hex(), want=want.hex()))
                if len(failures) >= 3:
                    return dict(evaluations=evals, distinct=len(pws), failures=failures)
    return dict(evaluations=evals, distinct=len(pws), failures=failures)


# -- helper layer of the handlers: parameters, the order of initialisation, Algorithm 6, the revision-5/6 hash dispatch, handler selection by /V ------------
PDFEncryptionError = pd.PDFEncryptionError


class _EncParam(T.Sort):
    """an encryption dictionary with symbolic numbers; /V and /Length may be absent"""
    def fresh(self, ctx, name):
        shape = ctx.choose(["all", "no-V", "no-Length"], "param-shape")
        R, P, V, Ln = ctx.fresh_int("R"), ctx.fresh_int("P"), ctx.fresh_int("V"), ctx.fresh_int("Length")
        ctx.assume(z3.And(P >= -2 ** 31, P < 2 ** 31))
        d = {"Filter": "Standard", "R": R, "P": P, "O": b"O" * 32, "U": b"U" * 32}
        if shape != "no-V":
            d["V"] = V
        if shape != "no-Length":
            d["Length"] = Ln
        return SObj(None, {"d": d, "_shape": shape, "_R": R, "_P": P, "_V": V, "_L": Ln}, name)
    def sample(self, rng):
        return None
    def from_model(self, ev, v):
        return {"shape": v.f["_shape"], "R": int(str(ev(v.f["_R"]))), "P": int(str(ev(v.f["_P"])))}


c = contract("pdfminer.pdfdocument:PDFStandardSecurityHandler.init_params", props=["C10"])
c.param("self", T.Obj("pdfminer.pdfdocument:PDFStandardSecurityHandler")).ghost("ep", _EncParam())
c.skip_cross = True
c.inline = True
c.wire = lambda bound, ghosts: bound["self"].f.__setitem__("param", ghosts["ep"].f["d"])
c.mod("self.*")
c.ens("R-O-U-as-stored", lambda self, ep: And(eq(self.r, ep._R), self.o == b"O" * 32, self.u == b"U" * 32))
c.ens("P-as-unsigned-32-bit", lambda self, ep: And(le(0, self.p), lt(self.p, 2 ** 32), eq(mod(self.p - ep._P, 2 ** 32), 0)))
c.ens("defaults-V-0-Length-40", lambda self, ep: And(
    (self.v == 0) if ep._shape == "no-V" else eq(self.v, ep._V), (self.length == 40) if ep._shape == "no-Length" else eq(self.length, ep._L)))


def _set_r(I, bound):
    bound["self"].f["r"] = bound["self"].f["_r_from_params"]
    bound["self"].f["length"] = bound["self"].f["_length_from_params"]


_ip = stub("pdfminer.pdfdocument:PDFStandardSecurityHandler.init_params", ["self"]); _ip.effect = _set_r
_ik = stub("pdfminer.pdfdocument:PDFStandardSecurityHandler.init_key", ["self"])
for _cls, _revs in (("PDFStandardSecurityHandler", (2, 3)), ("PDFStandardSecurityHandlerV4", (4,)), ("PDFStandardSecurityHandlerV5", (5, 6))):
    c = contract("pdfminer.pdfdocument:PDFStandardSecurityHandler.init#%s" % _cls, props=["C10"])
    c.param("self", T.Obj("pdfminer.pdfdocument:" + _cls, _r_from_params=T.Int(0, 8), _length_from_params=T.Int(), param=T.Const("param")))
    c.skip_cross = True
    c.mod("self.r").mod("self.length")
    c.stubs = {"pdfminer.pdfdocument:%s.init_params" % k: _ip for k in ("PDFStandardSecurityHandler", "PDFStandardSecurityHandlerV4", "PDFStandardSecurityHandlerV5")}
    c.stubs.update({"pdfminer.pdfdocument:PDFStandardSecurityHandler.init_key": _ik})
    # refused: a revision the handler does not implement, and (revision 3 and later derive length // 8 key bytes) a key length under 8 bits
    c.may_raise(PDFEncryptionError, (lambda revs: lambda self: Or(Not(Or(*[eq(self._r_from_params, r_) for r_ in revs])),
                                                                  And(le(3, self._r_from_params), lt(self._length_from_params, 8))))(_revs))
    c.ens("parameters-then-revision-and-key-length-check-then-key", lambda trace: [t[0].split(".")[-1] for t in trace] == ["init_params", "init_key"])


# Algorithm 6: the candidate key is the one computed from the password; it is returned exactly when it reproduces /U
_cek = stub("pdfminer.pdfdocument:PDFStandardSecurityHandler.compute_encryption_key", ["self", "password"], T.Opaque("candidate-key"))
_vek = stub("pdfminer.pdfdocument:PDFStandardSecurityHandler.verify_encryption_key", ["self", "key"], T.Bool())
c = contract("pdfminer.pdfdocument:PDFStandardSecurityHandler.authenticate_user_password", props=["C10"])
c.param("self", T.Obj("pdfminer.pdfdocument:PDFStandardSecurityHandler")).param("password", T.Const(b"pw"))
c.skip_cross = True
c.stubs = {"pdfminer.pdfdocument:PDFStandardSecurityHandler.compute_encryption_key": _cek, "pdfminer.pdfdocument:PDFStandardSecurityHandler.verify_encryption_key": _vek}
c.returns(T.Opaque("key"))
c.ens("key-from-this-password-returned-iff-it-verifies", lambda password, result, trace: (
    len(trace) == 2 and trace[0][0].endswith("compute_encryption_key") and trace[0][1]["password"] == password
    and trace[1][0].endswith("verify_encryption_key") and trace[1][1]["key"] is trace[0][1]["__result__"]
    and If(trace[1][1]["__result__"], result is trace[0][1]["__result__"], result is None)))


# revisions 5 and 6: which hash, over what
_r5 = stub("pdfminer.pdfdocument:PDFStandardSecurityHandlerV5._r5_password", ["self", "password", "salt", "vector"], T.Const("r5-hash"))
_r6 = stub("pdfminer.pdfdocument:PDFStandardSecurityHandlerV5._r6_password", ["self", "password", "salt", "vector"], T.Const("r6-hash"))
c = contract("pdfminer.pdfdocument:PDFStandardSecurityHandlerV5._password_hash", props=["C10"])
c.param("self", T.Obj("pdfminer.pdfdocument:PDFStandardSecurityHandlerV5", r=T.OneOf(5, 6))).param("password", FixedBytes(6)).param("salt", FixedBytes(8))
c.param("vector", T.OneOf(None, b"U" * 48))
c.skip_cross = True
c.stubs = {"pdfminer.pdfdocument:PDFStandardSecurityHandlerV5._r5_password": _r5, "pdfminer.pdfdocument:PDFStandardSecurityHandlerV5._r6_password": _r6}
c.ens("revision-5-plain-SHA-256-revision-6-the-iterated-hash-same-arguments", lambda self, password, salt, vector, result, trace: (
    len(trace) == 1 and trace[0][0].endswith("_r5_password" if self.r == 5 else "_r6_password") and result == ("r5-hash" if self.r == 5 else "r6-hash")
    and trace[0][1]["password"] is password and trace[0][1]["vector"] is vector and beq(trace[0][1]["salt"], salt)))

c = contract("pdfminer.pdfdocument:PDFStandardSecurityHandlerV5._r5_password", props=["C10"])
c.param("self", T.Obj("pdfminer.pdfdocument:PDFStandardSecurityHandlerV5")).param("password", FixedBytes(6)).param("salt", FixedBytes(8))
c.param("vector", T.OneOf(None, b"U" * 48))
c.skip_cross = True
c.ens("SHA-256-of-password-salt-and-the-U-string-when-given", lambda password, salt, vector, result: beq(
    result, BT.fn("sha256", [BT.cat(BT.cat(BT.of(password), salt), vector) if vector is not None else BT.cat(BT.of(password), salt)], n=32)))


# handler selection: /Filter must be Standard; /V picks the class (1, 2 -> RC4 handler, 4 -> crypt filters, 5 -> AES-256); the document takes the
# handler's decrypt and its three permission answers, and stream lengths are taken literally from then on
class _DocEnc(T.Sort):
    def fresh(self, ctx, name):
        filt = ctx.choose(["Standard", "Other", None], "Filter")
        v = ctx.choose([None, 0, 1, 2, 3, 4, 5, 6], "V")
        param = {}
        if filt is not None:
            param["Filter"] = pd.LIT(filt) if hasattr(pd, "LIT") else real_module("pdfminer.psparser").LIT(filt)
        if v is not None:
            param["V"] = v
        made = []

        def factory(kind):
            def make(I, docid, prm, password):
                flags = tuple(ctx.fresh_bool("%s_flag%d" % (kind, i)) for i in range(3))
                h = SObj(None, {"decrypt": "decrypt-of-" + kind, "is_printable": SymFn(lambda I2: flags[0], "is_printable"),
                                "is_modifiable": SymFn(lambda I2: flags[1], "is_modifiable"), "is_extractable": SymFn(lambda I2: flags[2], "is_extractable")}, "handler")
                made.append((kind, docid, prm, password, flags))
                return h
            return SymFn(make, kind)
        reg = {1: factory("rc4"), 2: factory("rc4"), 4: factory("v4"), 5: factory("v5")}
        parser = SObj(None, {"fallback": True}, "parser")
        return SObj(pd.PDFDocument, {"encryption": ("docid", param), "security_handler_registry": reg, "_parser": parser, "_filt": filt, "_v": v, "_made": made}, name)
    def sample(self, rng):
        return None
    def from_model(self, ev, v):
        return {"Filter": v.f["_filt"], "V": v.f["_v"]}


c = contract("pdfminer.pdfdocument:PDFDocument._initialize_password", props=["C10"])
c.param("self", _DocEnc()).param("password", T.Const("pw"))
c.skip_cross = True
c.mod("self.decipher").mod("self.is_printable").mod("self.is_modifiable").mod("self.is_extractable").mod("self._parser.fallback").mod("self._made")
c.may_raise(PDFEncryptionError, lambda self: self._filt != "Standard" or self._v not in (1, 2, 4, 5))
c.ens("handler-class-by-V-built-once-from-id-dictionary-and-password-its-answers-stored", lambda self, password: (
    len(self._made) == 1 and self._made[0][0] == {1: "rc4", 2: "rc4", 4: "v4", 5: "v5"}[self._v] and self._made[0][1] == "docid"
    and self._made[0][2] is self.encryption[1] and self._made[0][3] == password and self.decipher == "decrypt-of-" + self._made[0][0]
    and self._parser.fallback is False
    and And(Iff(self.is_printable, self._made[0][4][0]), Iff(self.is_modifiable, self._made[0][4][1]), Iff(self.is_extractable, self._made[0][4][2]))))


@exhaustive("handler-registry-and-supported-revisions", props=["C10"],
            note="the real class table: /V 1 and 2 -> PDFStandardSecurityHandler (revisions 2, 3), /V 4 -> ...V4 (revision 4), /V 5 -> ...V5 (revisions 5, 6); nothing else")
def _():
    reg = pd.PDFDocument.security_handler_registry
    want = {1: (pd.PDFStandardSecurityHandler, (2, 3)), 2: (pd.PDFStandardSecurityHandler, (2, 3)), 4: (pd.PDFStandardSecurityHandlerV4, (4,)),
            5: (pd.PDFStandardSecurityHandlerV5, (5, 6))}
    fails = []
    for v in sorted(set(reg) | set(want)):
        got = reg.get(v)
        if v not in want or got is not want[v][0] or tuple(got.supported_revisions) != want[v][1]:
            fails.append(dict(V=v, got=getattr(got, "__name__", None), revisions=list(getattr(got, "supported_revisions", ())), want=want.get(v, (None,))[0].__name__ if v in want else None))
    return dict(cases=len(set(reg) | set(want)), failures=fails)
