"""C19 - CCITT Group 4: mode functions against ITU-T T.6 changing-element definitions, row packing."""
import array
import ast
import z3
from pyvc.contracts import contract, fragment, lemma, bounded, exhaustive, REGISTRY
from pyvc.logic import And, Or, Not, Implies, Iff, eq, le, lt, If, ne, mod, ForAllInt, any_z3, floordiv, Min, Max
from pyvc import sorts as T
from pyvc.values import SObj, SBytes, SList
from pyvc.extract import real_module


def ln(x):
    return x.n if isinstance(x, (SBytes, SList)) else len(x)


def at(x, k):
    if hasattr(x, "at"):
        return x.at(k)
    return x[k]


class Row(T.IntList):
    """a pixel row (array.array('b')): 1 = white, 0 = black"""
    def __init__(self, maxlen=9):
        T.IntList.__init__(self, maxlen=maxlen, elem=(0, 2))
    def to_native(self, c):
        return array.array("b", c)
    def sample(self, rng):
        return [rng.randrange(2) for _ in range(rng.randint(1, self.maxlen))]


def ParserS(**extra):
    return T.Obj("pdfminer.ccitt:CCITTG4Parser", _refline=Row(), _curline=Row(), _curpos=T.Int(-1, 64), _color=T.Int(0, 1), width=T.Int(1, 64), **extra)


def row_state(self, color=None):
    """data-structure invariant of the decoder between coding steps (inside a horizontal-mode pair the
    current colour is temporarily the opposite one: pass color=1-self._color)"""
    _c = self._color if color is None else color
    return And(eq(ln(self._refline), self.width), eq(ln(self._curline), self.width), le(1, self.width),
               le(-1, self._curpos), le(self._curpos, self.width),
               Implies(eq(self._curpos, -1), And(eq(_c, 1), ForAllInt(0, self.width, lambda t: eq(at(self._curline, t), 1), "t"))))


def _fix_sample(rng, conc):
    s = conc["self"]
    w = len(s._refline)
    s.width = w
    s._curline = [rng.randrange(2) for _ in range(w)]
    s._curpos = rng.randint(-1, w)
    if s._curpos == -1:
        s._color = 1
        s._curline = [1] * w
    return conc


# T.6 2.2.1: changing element = element whose colour differs from the previous element on the same line
# (the imaginary element before the line is white)
def changing(ref, x):
    prev = If(eq(x, 0), 1, at(ref, x - 1)) if not isinstance(x, int) else (1 if x == 0 else at(ref, x - 1))
    return ne(at(ref, x), prev)


def is_b1(ref, width, a0, color, b):
    """b = first changing element on the reference line to the right of a0 with colour opposite to a0's colour
    (the position just after the last element if there is none)"""
    cond = lambda x: And(changing(ref, x), ne(at(ref, x), color))
    return And(lt(a0, b), le(b, width), Or(eq(b, width), cond(b)) if not isinstance(b, int) else (b == width or cond(b)),
               ForAllInt(a0 + 1, b, lambda x: Not(cond(x)), "x"))


def is_b2(ref, width, b1, b):
    """b = next changing element to the right of b1 (or end of line)"""
    return And(Or(And(eq(b1, width), eq(b, width)), And(lt(b1, b), le(b, width))),
               Or(eq(b, width), changing(ref, b)) if not isinstance(b, int) else (b == width or changing(ref, b)),
               ForAllInt(b1 + 1, b, lambda x: Not(changing(ref, x)), "x"))


def clamp(v, lo, hi):
    return Max(lo, Min(hi, v))


def painted(cur, old_cur, width, lo, hi, color):
    """pixels [lo, hi) take `color`, every other pixel keeps its value"""
    return And(eq(ln(cur), width), ForAllInt(0, width, lambda t: eq(at(cur, t), If(And(le(lo, t), lt(t, hi)), color, at(old_cur, t))), "t"))


def _b1_sample(rng, conc):
    conc = _fix_sample(rng, conc)
    s = conc["self"]
    w = s.width
    a0, color, ref = s._curpos, s._color, s._refline
    b = w
    for x in range(a0 + 1, w):
        prev = 1 if x == 0 else ref[x - 1]
        if ref[x] != prev and ref[x] != color:
            b = x
            break
    conc["b1"] = b
    if "b2" in conc:
        b2 = w
        for x in range(b + 1, w):
            if ref[x] != ref[x - 1]:
                b2 = x
                break
        conc["b2"] = b2
    return conc


c = contract("pdfminer.ccitt:CCITTG4Parser._do_vertical", props=["C19"])
c.param("self", ParserS()).param("dx", T.Int(-3, 3))
c.ghost("b1", T.Int(0, 64))
c.samples_hint = _b1_sample
c.req("row-state", lambda self: row_state(self))
c.req("b1-is-the-T6-reference-changing-element", lambda self, b1: is_b1(self._refline, self.width, self._curpos, self._color, b1))
c.req("a1-not-left-of-a0", lambda self, dx, b1: le(Max(0, self._curpos), b1 + dx))
c.mod("self._curline").mod("self._curpos").mod("self._color")
c.loop(0, kind="while", inv=lambda self, x1, b1, old: And(lt(old.self._curpos, x1), le(x1, b1)), decreases=lambda x1, b1: b1 - x1)
c.loop(1, kind="for x", inv=lambda self, old, k, x0, x1: painted(self._curline, old.self._curline, self.width, x1, x1 + k, self._color))
c.loop(2, kind="for x", inv=lambda self, old, k, x0, x1: painted(self._curline, old.self._curline, self.width, x0, x0 + k, self._color))
c.ens("a1-is-b1-plus-offset", lambda self, old, dx, b1: eq(self._curpos, clamp(b1 + dx, 0, self.width)))
c.ens("run-a0-a1-takes-current-colour", lambda self, old: painted(self._curline, old.self._curline, self.width,
                                                                   Max(0, old.self._curpos), self._curpos, old.self._color))
c.ens("colour-flips", lambda self, old: eq(self._color, 1 - old.self._color))
c.ens("row-state-kept", lambda self: And(eq(ln(self._curline), self.width), le(0, self._curpos), le(self._curpos, self.width)))

c = contract("pdfminer.ccitt:CCITTG4Parser._do_pass", props=["C19"])
c.param("self", ParserS())
c.ghost("b1", T.Int(0, 64)).ghost("b2", T.Int(0, 64))
c.samples_hint = _b1_sample
c.req("row-state", lambda self: row_state(self))
c.req("b1-is-the-T6-reference-changing-element", lambda self, b1: is_b1(self._refline, self.width, self._curpos, self._color, b1))
c.req("b2-is-the-next-changing-element", lambda self, b1, b2: is_b2(self._refline, self.width, b1, b2))
c.mod("self._curline").mod("self._curpos")
c.loop(0, kind="while", inv=lambda self, x1, b1, old: And(lt(old.self._curpos, x1), le(x1, b1)), decreases=lambda x1, b1: b1 - x1)
c.loop(1, kind="while", inv=lambda self, x1, b1, b2: And(le(b1, x1), le(x1, b2),
       ForAllInt(b1, x1, lambda x: ne(at(self._refline, x), self._color), "x")), decreases=lambda x1, b2: b2 - x1)
c.loop(2, kind="for x", inv=lambda self, old, k, x1: painted(self._curline, old.self._curline, self.width,
                                                              Max(0, old.self._curpos), old.self._curpos + k, self._color))
c.ens("a0-moves-below-b2", lambda self, b2: eq(self._curpos, b2))
c.ens("run-up-to-b2-takes-current-colour-which-is-kept", lambda self, old, b2: And(
    painted(self._curline, old.self._curline, self.width, Max(0, old.self._curpos), b2, old.self._color), eq(self._color, old.self._color)))
c.ens("row-state-kept", lambda self: row_state(self))      # what the next coding step assumes


# -- horizontal mode: a0a1 then a1a2 runs clipped at the row end (T.6 2.2.3) --------------------------------------
c = contract("pdfminer.ccitt:CCITTG4Parser._do_horizontal", props=["C19"])
c.param("self", ParserS()).param("n1", T.Int(0, 40)).param("n2", T.Int(0, 40))
c.samples_hint = _fix_sample
c.req("row-state", lambda self: row_state(self))
c.mod("self._curline").mod("self._curpos")
c.loop(0, kind="for _", inv=lambda self, old, k, x: And(eq(x, Max(0, old.self._curpos) + k), le(x, self.width),
       painted(self._curline, old.self._curline, self.width, Max(0, old.self._curpos), x, self._color)))
c.loop(1, kind="for _", inv=lambda self, old, k, x, n1: And(
       eq(x, Min(self.width, Max(0, old.self._curpos) + n1) + k), le(x, self.width),
       ForAllInt(0, self.width, lambda t: eq(at(self._curline, t),
                 If(And(le(Max(0, old.self._curpos), t), lt(t, Min(self.width, Max(0, old.self._curpos) + n1))), self._color,
                    If(And(le(Min(self.width, Max(0, old.self._curpos) + n1), t), lt(t, x)), 1 - self._color, at(old.self._curline, t)))), "t"),
       eq(ln(self._curline), self.width)))
c.ens("two-runs-then-a0-at-a2", lambda self, old, n1, n2: And(
    eq(self._curpos, Min(self.width, Max(0, old.self._curpos) + n1 + n2)),
    ForAllInt(0, self.width, lambda t: eq(at(self._curline, t),
              If(And(le(Max(0, old.self._curpos), t), lt(t, Max(0, old.self._curpos) + n1)), old.self._color,
                 If(And(le(Max(0, old.self._curpos) + n1, t), lt(t, Max(0, old.self._curpos) + n1 + n2)), 1 - old.self._color,
                    at(old.self._curline, t)))), "t"),
    eq(self._color, old.self._color)))
c.ens("row-state-kept", lambda self: row_state(self))      # what the next coding step assumes

# -- make-up and terminating codes accumulate into the two run lengths ---------------------------------------------
HS = lambda **kw: T.Obj("pdfminer.ccitt:CCITTG4Parser", _n1=T.Int(0, 5000), _n2=T.Int(0, 5000), _color=T.Int(0, 1),
                        _accept=T.Opaque("accept"), **kw)
a = contract("pdfminer.ccitt:CCITTG4Parser._flush_line", props=[])
a.abstract = True
a.traced = True
a.param("self", T.Opaque("self"))
a.note = "traced in the run-length state machine only; verified under its own contract below (#emit)"

c = contract("pdfminer.ccitt:CCITTG4Parser._parse_horiz1", props=["C19"])
c.param("self", HS()).param("n", T.Int(0, 2560, samples=[0, 1, 63, 64, 128, 2560]))
c.mod("self._n1").mod("self._n2").mod("self._color").mod("self._accept")
c.skip_cross = True
c.ens("run-length-accumulates", lambda self, old, n: eq(self._n1, old.self._n1 + n))
c.ens("terminating-code-ends-the-first-run", lambda self, old, n, result: And(
    If(lt(n, 64), And(eq(self._color, 1 - old.self._color), eq(self._n2, 0), _is_method(self._accept, "_parse_horiz2")),
       And(eq(self._color, old.self._color), self._accept is old.self._accept)),
    _same_table(result, If(eq(self._color, 1), 1, 0) if any_z3(self._color) else self._color)))


def _is_method(m, name):
    return getattr(m, "name", getattr(m, "__name__", None)) == name


def _same_table(result, color):
    P = real_module("pdfminer.ccitt").CCITTG4Parser
    if isinstance(color, int):
        return result is (P.WHITE if color else P.BLACK)
    return True


c = contract("pdfminer.ccitt:CCITTG4Parser._parse_horiz2", props=["C19"])
c.param("self", ParserS(_n1=T.Int(0, 5000), _n2=T.Int(0, 5000), _accept=T.Opaque("accept")))
c.param("n", T.Int(0, 2560, samples=[0, 1, 63, 64, 128, 2560]))
c.req("row-state-inside-a-horizontal-pair", lambda self: row_state(self, 1 - self._color))
c.mod("self._n2").mod("self._color").mod("self._accept").mod("self._curline").mod("self._curpos")
c.skip_cross = True
c.ens("run-length-accumulates", lambda self, old, n: eq(self._n2, old.self._n2 + n))
c.ens("terminating-code-paints-both-runs-and-returns-to-mode-codes", lambda self, old, n, result, trace: If(
    lt(n, 64),
    And(eq(self._color, 1 - old.self._color), _is_method(self._accept, "_parse_mode"),
        [t[0] for t in trace] == ["CCITTG4Parser._flush_line"] if not any_z3(n) or True else True,
        eq(self._curpos, Min(self.width, Max(0, old.self._curpos) + old.self._n1 + old.self._n2 + n))),
    And(eq(self._color, old.self._color), self._accept is old.self._accept, eq(self._curpos, old.self._curpos))))


# -- end of row: emit, shift reference line, reset -------------------------------------------------------------------
a = contract("pdfminer.ccitt:CCITTG4Parser.output_line", props=[])
a.abstract = True
a.traced = True
a.param("self", T.Opaque("self")).param("y", T.Int()).param("bits", T.Opaque("bits"))
ByteSkip = real_module("pdfminer.ccitt").CCITTG4Parser.ByteSkip
c = contract("pdfminer.ccitt:CCITTG4Parser._flush_line#emit", props=["C19"])
c.param("self", ParserS(_y=T.Int(0, 1000), bytealign=T.Bool()))
c.req("row-state", lambda self: row_state(self))
c.mod("self._curline").mod("self._refline").mod("self._curpos").mod("self._color").mod("self._y")
c.may_raise(ByteSkip, lambda self: And(le(self.width, self._curpos), self.bytealign))
c.skip_cross = True
c.ens("row-emitted-exactly-when-complete", lambda self, old, trace: If(
    le(old.self.width, old.self._curpos),
    And(len(trace) == 1 and trace[0][0] == "CCITTG4Parser.output_line", Not(old.self.bytealign),
        eq(trace[0][1]["y"], old.self._y) if trace else False, eq(self._y, old.self._y + 1),
        # finished row becomes the reference row, coding row starts white, a0 before the row, colour white
        eq(ln(self._refline), self.width), ForAllInt(0, self.width, lambda t: eq(at(self._refline, t), at(old.self._curline, t)), "t"),
        eq(ln(self._curline), self.width), ForAllInt(0, self.width, lambda t: eq(at(self._curline, t), 1), "t"),
        eq(self._curpos, -1), eq(self._color, 1)),
    And(len(trace) == 0, eq(self._y, old.self._y), eq(self._curpos, old.self._curpos), eq(self._color, old.self._color),
        ForAllInt(0, self.width, lambda t: And(eq(at(self._curline, t), at(old.self._curline, t)), eq(at(self._refline, t), at(old.self._refline, t))), "t"))))


# -- mode dispatch ------------------------------------------------------------------------------------------------
for _k, _ps in (("pdfminer.ccitt:CCITTG4Parser._do_pass!", None),):
    pass


class _ModeS(T.Sort):
    """a decoded mode code: vertical offsets, 'p', 'h', 'e', or garbage"""
    VALS = [0, 1, -1, 2, -2, 3, -3, "p", "h", "e", "x1", None]
    def fresh(self, ctx, name):
        return ctx.choose(self.VALS, name)
    def sample(self, rng):
        return rng.choice(self.VALS)
    def from_model(self, ev, v):
        return v


_P = real_module("pdfminer.ccitt").CCITTG4Parser
c = contract("pdfminer.ccitt:CCITTG4Parser._parse_mode", props=["C19"])
c.param("self", T.Obj("pdfminer.ccitt:CCITTG4Parser", _n1=T.Int(0, 10), _color=T.Int(0, 1), _accept=T.Opaque("accept")))
c.param("mode", _ModeS())
c.skip_cross = True
c.mod("self._n1").mod("self._accept")
c.may_raise(_P.EOFB, lambda mode: mode == "e")
c.may_raise(_P.InvalidData, lambda mode: mode in ("x1", None))
# _do_vertical/_do_pass are used through their contracts? they need the full row state; here they are traced stubs
for _k in ("_do_vertical!stub", "_do_pass!stub"):
    pass
from pyvc.contracts import stub
c.stubs = {"pdfminer.ccitt:CCITTG4Parser._do_vertical": stub("pdfminer.ccitt:CCITTG4Parser._do_vertical", ["self", "dx"]),
           "pdfminer.ccitt:CCITTG4Parser._do_pass": stub("pdfminer.ccitt:CCITTG4Parser._do_pass", ["self"])}
c.ens("mode-code-selects-the-T6-coding-step", lambda self, old, mode, result, trace: (
    ([t[0] for t in trace] == ["CCITTG4Parser._do_pass", "CCITTG4Parser._flush_line"] and result is _P.MODE) if mode == "p" else
    ([t[0] for t in trace] == [] and eq(self._n1, 0) and _is_method(self._accept, "_parse_horiz1")
     and True) if mode == "h" else
    ([t[0] for t in trace] == ["CCITTG4Parser._do_vertical", "CCITTG4Parser._flush_line"] and trace[0][1]["dx"] == mode and result is _P.MODE)
    if isinstance(mode, int) else True))
c.ens("horizontal-mode-starts-with-the-current-colour-table", lambda self, mode, result: (
    And(Implies(eq(self._color, 1), result is _P.WHITE), Implies(eq(self._color, 0), result is _P.BLACK))) if mode == "h" else True)


# -- code tables: tries are prefix codes that decode every stored code word to its value ------------------------------
def _walk(trie, prefix=""):
    for b in (0, 1):
        v = trie[b]
        if isinstance(v, list):
            yield from _walk(v, prefix + str(b))
        elif v is not None:
            yield prefix + str(b), v


@exhaustive("code-tables-are-prefix-codes-and-match-the-pinned-T4-tables", props=["C19"],
            note="every pinned (code word -> value) pair of the MODE/WHITE/BLACK tables still decodes to the same value through the real tries (BitParser._parse_bit walk); additions are allowed. The pinned tables are a transcription of the tree's tables at pin time, not an independent copy of ITU-T T.4 (assumption).")
def _():
    import json, os
    P = real_module("pdfminer.ccitt").CCITTG4Parser
    ref = json.load(open(os.path.join(os.path.dirname(__file__), "..", "specs", "t4_tables.json")))
    fails, cases = [], 0
    for name in ("MODE", "WHITE", "BLACK"):
        trie = getattr(P, name)
        for bits, val in ref[name]:
            cases += 1
            # decode by feeding the bits to a real BitParser
            bp = real_module("pdfminer.ccitt").BitParser()
            got = []
            bp._state = trie
            bp._accept = lambda v: got.append(v) or trie
            for ch in bits:
                if got:
                    break
                bp._parse_bit(int(ch))
            if got != [val] or bp._pos != len(bits):
                fails.append(dict(table=name, bits=bits, expected=val, got=got, consumed=bp._pos))
    return dict(cases=cases, failures=fails[:5])


# -- row packing: MSB first, ceil(w/8) bytes, polarity ------------------------------------------------------------------
class _Bits(T.Sort):
    def __init__(self, widths):
        self.widths = widths
    def fresh(self, ctx, name):
        w = ctx.choose(self.widths, "w")
        bits = []
        for i in range(w):
            b = ctx.fresh_int("bit%d" % i)
            ctx.assume(z3.And(b >= 0, b <= 1))
            bits.append(b)
        return bits
    def sample(self, rng):
        return [rng.randrange(2) for _ in range(rng.choice(self.widths))]
    def from_model(self, ev, v):
        return [int(ev(b)) for b in v]


c = contract("pdfminer.ccitt:CCITTFaxDecoder.output_line", props=["C19"])
c.param("self", T.Obj("pdfminer.ccitt:CCITTFaxDecoder", reversed=T.Bool(), _buf=T.Const(b"")))
c.param("y", T.Int(0, 10)).param("bits", _Bits(list(range(1, 11))))
c.max_paths = 6000
c.mod("self._buf")
c.note = "complete for row widths 1..10 (loops unrolled on concrete width, bits symbolic); other widths by periodicity of i//8, i%8 (glue)"
c.ens("msb-first-packing-with-polarity", lambda self, bits: And(
    eq(ln(self._buf), (len(bits) + 7) // 8),
    *[eq(at(self._buf, j), sum(((1 - bits[8 * j + t]) if False else _pol(self.reversed, bits[8 * j + t])) * (128 >> t) for t in range(8) if 8 * j + t < len(bits)))
      for j in range((len(bits) + 7) // 8)]))


def _pol(rev, b):
    if isinstance(rev, bool):
        return (1 - b) if rev else b
    return If(rev, 1 - b, b)


@bounded("T6-encoder-round-trip", props=["C19"],
         bound="quick: every bitmap of width<=4 x height<=2 and 300 random/structured bitmaps of width<=70, height<=4, plus widths 2600/5300, under random admissible mode mixes, EncodedByteAlign x BlackIs1; thorough: width<=5 x height<=3 exhaustive and 8000 random")
def _(tier, seed):
    import itertools, random
    from specs import t6enc
    rng = random.Random(seed + 19)
    dec = real_module("pdfminer.ccitt").ccittfaxdecode
    failures, evals, distinct = [], 0, set()

    def check(rows, width, align, b1, mix):
        nonlocal evals
        data = t6enc.encode(rows, width, rng if mix else None, bytealign=align)
        want = t6enc.pack(rows, width, black_is_1=b1)
        evals += 1
        distinct.add((width, tuple(map(tuple, rows))))
        try:
            got = dec(data, {"K": -1, "Columns": width, "EncodedByteAlign": align, "BlackIs1": b1})
        except Exception as e:  # noqa: BLE001
            got = "%s: %s" % (type(e).__name__, e)
        if got != want:
            failures.append(dict(width=width, rows=rows if width < 80 else "wide", align=align, black_is_1=b1, data=data.hex()[:200],
                                 got=got.hex()[:200] if isinstance(got, bytes) else got, want=want.hex()[:200]))

    wmax, hmax = (4, 2) if tier == "quick" else (5, 3)
    for w in range(1, wmax + 1):
        for h in range(1, hmax + 1):
            for cells in itertools.product((0, 1), repeat=w * h):
                rows = [list(cells[r * w:(r + 1) * w]) for r in range(h)]
                check(rows, w, False, False, False)
                check(rows, w, rng.random() < 0.5, rng.random() < 0.5, True)
    for _ in range(300 if tier == "quick" else 8000):
        w, h = rng.randint(1, 70), rng.randint(1, 4)
        style = rng.random()
        rows = []
        for _r in range(h):
            if style < 0.5 and rows:
                row = list(rows[-1])
                for _k in range(rng.randint(0, 3)):
                    i = rng.randrange(w); row[i] = 1 - row[i]
            else:
                row, x, colr = [], 0, rng.randrange(2)
                while x < w:
                    n = rng.randint(1, max(1, w // 3)); row += [colr] * n; x += n; colr = 1 - colr
                row = row[:w]
            rows.append(row)
        check(rows, w, rng.random() < 0.5, rng.random() < 0.5, True)
    for w in (2600, 2640, 5300):
        rows = [[1] * 10 + [0] * (w - 10), [0] * (w - 3) + [1] * 3, [1] * w]
        check(rows, w, False, False, True)
        check(rows, w, True, True, False)
        if len(failures) >= 3:
            break
    return dict(evaluations=evals, distinct=len(distinct), failures=failures[:3])


# -- ccittfaxdecode: parameters ---------------------------------------------------------------------------------------
def _ccitt_ctor_call(fn):
    for n in ast.walk(fn):
        if isinstance(n, ast.Call) and isinstance(n.func, ast.Name) and n.func.id == "CCITTFaxDecoder":
            return n
    return None


@exhaustive("ccittfaxdecode-parameter-plumbing", props=["C19"],
            note="K=-1 builds CCITTFaxDecoder(Columns, bytealign=EncodedByteAlign, reversed=BlackIs1) - read from the real AST")
def _():
    from pyvc.extract import get_function
    fn = get_function("pdfminer.ccitt", "ccittfaxdecode").node
    call = _ccitt_ctor_call(fn)
    fails = []
    if call is None:
        return dict(cases=1, failures=[dict(reason="constructor call not found")])
    src = {a.targets[0].id: ast.unparse(a.value) for a in ast.walk(fn) if isinstance(a, ast.Assign) and isinstance(a.targets[0], ast.Name)}
    got = dict(cols=ast.unparse(call.args[0]) if call.args else None, **{k.arg: ast.unparse(k.value) for k in call.keywords})
    def key_of(var):
        s = src.get(var, "")
        for k in ("Columns", "EncodedByteAlign", "BlackIs1"):
            if repr(k) in s or ('"%s"' % k) in s:
                return k
        return None
    if key_of(got.get("cols")) != "Columns" or key_of(got.get("bytealign")) != "EncodedByteAlign" or key_of(got.get("reversed")) != "BlackIs1":
        fails.append(dict(call=got, sources=src))
    return dict(cases=1, failures=fails)
