"""C16 - painted paths become shapes: construction, painting, colour state, classification."""
import ast
import itertools
import z3
from pyvc.contracts import contract, fragment, lemma, bounded, exhaustive, scenario, REGISTRY
from pyvc.logic import And, Or, Not, Implies, Iff, eq, le, lt, If, ne, any_z3
from pyvc import sorts as T
from pyvc.sorts import is_number
from pyvc.values import SObj, SymFn
from pyvc.contracts import Contract
from pyvc.extract import real_module
from specs import affine, paths as PS

M6 = lambda: T.RealTup(6)


class _Path(T.Sort):
    """a current path of one of the given shapes with symbolic coordinates"""
    NOPS = {"m": 2, "l": 2, "c": 6, "v": 4, "y": 4, "h": 0}

    def __init__(self, shapes):
        self.shapes = shapes
    def fresh(self, ctx, name):
        shape = ctx.choose(self.shapes, name + "-shape")
        return [tuple([op] + [ctx.fresh_real("%s%d%s" % (name, i, j)) for j in range(self.NOPS[op])]) for i, op in enumerate(shape)]
    def sample(self, rng):
        from fractions import Fraction
        shape = rng.choice(self.shapes)
        grid = [Fraction(v) for v in (0, 0, 5, 5, 10, 2)]
        return [tuple([op] + [rng.choice(grid) for _ in range(self.NOPS[op])]) for op in shape]
    def from_model(self, ev, v):
        from fractions import Fraction
        return [tuple([seg[0]] + [Fraction(ev(x)) for x in seg[1:]]) for seg in v]
    def reshape(self, v):
        return [tuple([seg[0]] + list(seg[1:])) for seg in v]


PathInterp = lambda shapes=("", "m", "ml"), **kw: T.Obj("pdfminer.pdfinterp:PDFPageInterpreter", curpath=_Path(list(shapes)), **kw)


def _path_eq(a, b):
    if len(a) != len(b):
        return False
    return And(*[And(x[0] == y[0], len(x) == len(y), eq(tuple(x[1:]), tuple(y[1:]))) for x, y in zip(a, b)])


# -- construction operators -------------------------------------------------------------
_CONS = {"do_m": ("m", 2), "do_l": ("l", 2), "do_c": ("c", 6), "do_v": ("v", 4), "do_y": ("y", 4)}
for _meth, (_op, _n) in _CONS.items():
    c = contract("pdfminer.pdfinterp:PDFPageInterpreter.%s" % _meth, props=["C16"])
    c.param("self", PathInterp())
    names = ["a%d" % i for i in range(_n)]
    for nm in names:
        c.param(nm, T.Operand(bad=(None,)))
    c.mod("self.curpath")
    c.ens("appends-the-segment-or-nothing", (lambda op, names: lambda self, old, **kw: None)(_op, names))
    # (lambda with explicit parameter list is needed by the engine; generated below)
    src = "lambda self, old, %s: _append_spec(self, old, %r, (%s,))" % (", ".join(names), _op, ", ".join(names))
    c.ensures[-1] = ("appends-the-segment-or-nothing", eval(src, {"_append_spec": lambda self, old, op, vals:
        _path_eq(self.curpath, list(old.self.curpath) + [tuple([op] + list(vals))]) if all(is_number(v) for v in vals)
        else _path_eq(self.curpath, old.self.curpath)}))

c = contract("pdfminer.pdfinterp:PDFPageInterpreter.do_h", props=["C16"], inline=True)
c.param("self", PathInterp())
c.mod("self.curpath")
c.ens("appends-close", lambda self, old: _path_eq(self.curpath, list(old.self.curpath) + [("h",)]))

c = contract("pdfminer.pdfinterp:PDFPageInterpreter.do_re", props=["C16"])
c.param("self", PathInterp())
for nm in ("x", "y", "w", "h"):
    c.param(nm, T.Operand(bad=(None,)))
c.mod("self.curpath")
c.ens("is-m-l-l-l-h-in-ISO-corner-order", lambda self, old, x, y, w, h:   # ISO 8.5.2.1: x y m (x+w) y l (x+w) (y+h) l x (y+h) l h
      _path_eq(self.curpath, list(old.self.curpath) + [("m", x, y), ("l", x + w, y), ("l", x + w, y + h), ("l", x, y + h), ("h",)])
      if all(is_number(v) for v in (x, y, w, h)) else _path_eq(self.curpath, old.self.curpath))

# -- painting operators -----------------------------------------------------------------------
a = contract("pdfminer.pdfdevice:PDFDevice.paint_path", props=[])
a.abstract = True
a.traced = True
for p in ["self", "graphicstate", "stroke", "fill", "evenodd", "path"]:
    a.param(p, T.Opaque(p))

_PAINT_METH = {"S": "do_S", "s": "do_s", "f": "do_f", "f*": "do_f_a", "B": "do_B", "B*": "do_B_a", "b": "do_b", "b*": "do_b_a"}
for _op, _meth in _PAINT_METH.items():
    c = contract("pdfminer.pdfinterp:PDFPageInterpreter.%s" % _meth, props=["C16"], inline=True)
    c.param("self", PathInterp(shapes=("", "ml", "mlc"), device=T.Obj("pdfminer.pdfdevice:PDFDevice"), graphicstate=T.Obj("pdfminer.pdfinterp:PDFGraphicState")))
    c.mod("self.curpath")
    c.skip_cross = True
    c.ens("paints-once-with-ISO-flags", (lambda op: lambda self, old, trace: And(
        len(trace) == 1, trace[0][0] == "PDFDevice.paint_path",
        (trace[0][1]["stroke"], trace[0][1]["fill"], trace[0][1]["evenodd"]) == PS.PAINT[op][:3],
        trace[0][1]["graphicstate"] is self.graphicstate,
        _path_eq(trace[0][1]["path"], list(old.self.curpath) + ([("h",)] if PS.PAINT[op][3] else []))))(_op))
    c.ens("leaves-no-residue", lambda self: len(self.curpath) == 0)

c = contract("pdfminer.pdfinterp:PDFPageInterpreter.do_n", props=["C16"])
c.param("self", PathInterp(shapes=("", "ml", "mlc"), device=T.Obj("pdfminer.pdfdevice:PDFDevice")))
c.mod("self.curpath")
c.skip_cross = True
c.ens("paints-nothing-and-clears", lambda self, trace: And(len(trace) == 0, len(self.curpath) == 0))

# -- line state ----------------------------------------------------------------------------------
GS = lambda: T.Obj("pdfminer.pdfinterp:PDFGraphicState", linewidth=T.Real(), linecap=T.Opaque("cap"), linejoin=T.Opaque("join"),
                   miterlimit=T.Opaque("miter"), dash=T.Opaque("dash"), intent=T.Opaque("intent"), flatness=T.Opaque("flat"),
                   scolor=T.Opaque("scolor"), ncolor=T.Opaque("ncolor"))
c = contract("pdfminer.pdfinterp:PDFPageInterpreter.do_w", props=["C16"])
c.param("self", T.Obj("pdfminer.pdfinterp:PDFPageInterpreter", graphicstate=GS())).param("linewidth", T.Operand())
c.mod("self.graphicstate.linewidth")
c.ens("sets-line-width-only", lambda self, old, linewidth: eq(self.graphicstate.linewidth, linewidth) if is_number(linewidth)
      else eq(self.graphicstate.linewidth, old.self.graphicstate.linewidth))

c = contract("pdfminer.pdfinterp:PDFPageInterpreter.do_d", props=["C16"])
c.param("self", T.Obj("pdfminer.pdfinterp:PDFPageInterpreter", graphicstate=GS())).param("dash", T.Opaque("array")).param("phase", T.Real())
c.mod("self.graphicstate.dash")
c.ens("sets-dash-pattern-only", lambda self, dash, phase: And(self.graphicstate.dash[0] is dash, eq(self.graphicstate.dash[1], phase)))


# -- colour state ----------------------------------------------------------------------------------
def _csmap():
    return dict(real_module("pdfminer.pdfcolor").PREDEFINED_COLORSPACE)


class _CS(T.Sort):
    """a current colour space: None or one of the predefined spaces"""
    NAMES = [None, "DeviceGray", "DeviceRGB", "DeviceCMYK", "Lab", "Indexed"]
    def fresh(self, ctx, name):
        n = ctx.choose(self.NAMES, name)
        return None if n is None else _csmap()[n]
    def sample(self, rng):
        n = rng.choice(self.NAMES)
        return None if n is None else _csmap()[n]
    def from_model(self, ev, v):
        return v
    def jsonable(self, c):
        return None if c is None else c.name
    def reshape(self, v):
        if isinstance(v, str) and "PDFColorSpace" in v:
            nm = v.split(":")[1].split(",")[0].strip()
            return _csmap()[nm]
        return v


ColInterp = lambda **kw: T.Obj("pdfminer.pdfinterp:PDFPageInterpreter", graphicstate=GS(), scs=_CS(), ncs=_CS(),
                               csmap=T.Const(_csmap()), **kw)
_DEV = {"do_g": ("ncolor", "ncs", "DeviceGray", 1), "do_G": ("scolor", "scs", "DeviceGray", 1),
        "do_rg": ("ncolor", "ncs", "DeviceRGB", 3), "do_RG": ("scolor", "scs", "DeviceRGB", 3),
        "do_k": ("ncolor", "ncs", "DeviceCMYK", 4), "do_K": ("scolor", "scs", "DeviceCMYK", 4)}
for _meth, (_fld, _csf, _space, _n) in _DEV.items():
    c = contract("pdfminer.pdfinterp:PDFPageInterpreter.%s" % _meth, props=["C16", "C05"])
    c.param("self", ColInterp())
    names = ["v%d" % i for i in range(_n)]
    for nm in names:
        c.param(nm, T.Operand(bad=(None,)))
    c.mod("self.graphicstate." + _fld).mod("self." + _csf)
    src = "lambda self, old, %s: _dev_spec(self, old, %r, %r, %r, (%s,))" % (", ".join(names), _fld, _csf, _space, ", ".join(names))
    c.ens("sets-colour-and-space-of-its-own-kind-only", eval(src, {"_dev_spec": lambda self, old, fld, csf, space, vals: (
        And(eq(getattr(self.graphicstate, fld), vals[0] if len(vals) == 1 else tuple(vals)), getattr(self, csf) is self.csmap[space])
        if all(is_number(v) for v in vals)
        else And(_same(getattr(self.graphicstate, fld), getattr(old.self.graphicstate, fld)), _same(getattr(self, csf), getattr(old.self, csf))))}))

for _meth, _csf in (("do_cs", "ncs"), ("do_CS", "scs")):
    c = contract("pdfminer.pdfinterp:PDFPageInterpreter.%s" % _meth, props=["C16", "C05"])
    c.param("self", ColInterp()).param("name", T.OneOf("DeviceRGB", "Lab", "NoSuchSpace"))
    c.native = (lambda meth: lambda nat: getattr(real_module("pdfminer.pdfinterp").PDFPageInterpreter, meth)(
        nat["self"], real_module("pdfminer.psparser").LIT(nat["name"])))(_meth)
    c.mod("self." + _csf)
    c.wire = lambda bound, ghosts: bound.__setitem__("name", real_module("pdfminer.psparser").LIT(bound["name"]))
    c.ens("selects-the-named-space-for-its-own-kind", (lambda csf: lambda self, old, name: (
        getattr(self, csf) is self.csmap[_nm(name)] if _nm(name) in self.csmap else _same(getattr(self, csf), getattr(old.self, csf))))(_csf))


def _same(a, b):
    """identity of opaque/real objects; value equality after the native deep copy of `old`"""
    if a is b:
        return True
    if hasattr(a, "ncomponents") and hasattr(b, "ncomponents"):
        return a.name == b.name
    from pyvc.values import SOpaque
    if isinstance(a, SOpaque) or isinstance(b, SOpaque) or a is None or b is None:
        return False
    return eq(a, b)


def _nm(x):
    return x if isinstance(x, str) else x.name


class _Stack(T.Sort):
    """operand stack of 0..5 numbers"""
    def fresh(self, ctx, name):
        m = ctx.choose([0, 1, 2, 3, 4, 5], name + "-depth")
        return [ctx.fresh_real("%s%d" % (name, i)) for i in range(m)]
    def sample(self, rng):
        from fractions import Fraction
        return [Fraction(rng.randint(0, 8), 8) for _ in range(rng.randint(0, 5))]
    def from_model(self, ev, v):
        from fractions import Fraction
        return [Fraction(ev(x)) for x in v]


for _meth, _fld, _csf in (("do_scn", "ncolor", "ncs"), ("do_SCN", "scolor", "scs"), ("do_sc", "ncolor", "ncs"), ("do_SC", "scolor", "scs")):
    c = contract("pdfminer.pdfinterp:PDFPageInterpreter.%s" % _meth, props=["C16", "C05"], inline=True)
    c.param("self", ColInterp(argstack=_Stack()))
    c.mod("self.graphicstate." + _fld).mod("self.argstack")
    c.ens("takes-as-many-operands-as-the-current-space-has-components", (lambda fld, csf: lambda self, old: _scn_spec(self, old, fld, csf))(_fld, _csf))


def _scn_spec(self, old, fld, csf):
    cs = getattr(old.self, csf)
    n = cs.ncomponents if cs else 1
    st = list(old.self.argstack)
    if n not in (1, 3, 4):
        return And(_same(getattr(self.graphicstate, fld), getattr(old.self.graphicstate, fld)), _lst_eq(self.argstack, st))
    if len(st) < n:     # missing operands: the operator affects nothing but itself
        return And(_same(getattr(self.graphicstate, fld), getattr(old.self.graphicstate, fld)), len(self.argstack) == 0)
    top = st[len(st) - n:]
    return And(eq(getattr(self.graphicstate, fld), top[0] if n == 1 else tuple(top)), _lst_eq(self.argstack, st[: len(st) - n]))


def _lst_eq(a, b):
    return len(a) == len(b) and And(*[eq(x, y) for x, y in zip(a, b)])


# -- PDFLayoutAnalyzer.paint_path: classification and attributes --------------------------------------
_SEGS = "lcvyh"
_SHAPES = ["m" + "".join(t) for k in (1, 2, 3) for t in itertools.product(_SEGS, repeat=k)]
_SHAPES += ["mllll", "mlllh", "mllllh", "mlllhh", "mlllc", "mlllv", "mcccc", "mlllll", "mllllhh", "mlhh", "mlclh", "mllcl", "mlllly"]
_MULTI = ["mlml", "mlhmlllh", "mmll", "mlmcm", "mm", "m", "lml", "hml", ""]


class _Sink(T.Sort):
    """self.cur_item: records what is added"""
    def fresh(self, ctx, name):
        added = []
        o = SObj(None, {"_added": added}, name)
        o.f["add"] = SymFn(lambda I, item: added.append(item), "add")
        return o
    def sample(self, rng):
        return T.CObj(None, _added=[])
    def from_model(self, ev, v):
        return T.CObj(None, _added=[])
    def to_native(self, c):
        class S:
            def __init__(self): self._added = []
            def add(self, item): self._added.append(item)
        return S()


GSv = lambda: T.Obj(None, linewidth=T.Real(), scolor=T.RealTup(3), ncolor=T.RealTup(3), dash=T.Const(([3, 1], 0)))
c = contract("pdfminer.converter:PDFLayoutAnalyzer.paint_path#single-subpath", props=["C16"])
c.param("self", T.Obj("pdfminer.converter:PDFLayoutAnalyzer", ctm=M6(), cur_item=_Sink()))
c.param("gstate", GSv()).param("stroke", T.Bool()).param("fill", T.Bool()).param("evenodd", T.Bool()).param("path", _Path(_SHAPES))
c.mod("self.cur_item._added")
c.max_paths = 60000
# (no bound on the device coordinates is needed any more: since fix 78704e1 the empty-box sentinel of get_bound is infinity)


def _added(self):
    return self.cur_item._added


def _cls(o):
    return (o.cls if isinstance(o, SObj) else type(o)).__name__


def _dev_pts(self, path):
    return [affine.apply_pt(self.ctm, p) for p in PS.endpoints(path)]


def _normalised(self, path):
    """device points after the documented normalisations: a redundant final 'l' back to the start before
    'h', and repeated 'h', add no segment"""
    pts = _dev_pts(self, path)
    shape = "".join(s[0] for s in path)
    alts = []     # (condition, shape, points)
    if len(shape) > 3 and shape.endswith("lh"):
        back = And(eq(pts[-2][0], pts[0][0]), eq(pts[-2][1], pts[0][1]))
        alts.append((back, shape[:-2] + "h", pts[:-2] + [pts[-1]]))
        alts.append((Not(back), shape, pts))
    else:
        alts.append((True, shape, pts))
    out = []
    for cond, sh, ps in alts:
        while sh.endswith("hh"):
            sh, ps = sh[:-1], ps[:-1]
        out.append((cond, sh, ps))
    return out


def _pts_eq(a, b):
    return len(a) == len(b) and And(*[eq(tuple(x), tuple(y)) for x, y in zip(a, b)])


def _class_spec(self, path):
    item = _added(self)[0]
    clauses = []
    for cond, sh, ps in _normalised(self, path):
        if sh in ("ml", "mlh"):
            ok = And(_cls(item) == "LTLine", _pts_eq(item.pts, ps[:2]))
        elif len(ps) == 5 and all(ch in "lh" for ch in sh[1:]) and sh[1:4] == "lll":
            rect = PS.axis_aligned_closed_quad(ps)
            bb = PS.bound(ps)
            corners = [(bb[0], bb[1]), (bb[2], bb[1]), (bb[2], bb[3]), (bb[0], bb[3])]
            is_rect = And(_cls(item) == "LTRect", eq((item.x0, item.y0, item.x1, item.y1), bb),
                          len(item.pts) == 4 and And(*[Or(*[eq(tuple(q), tuple(cn)) for q in item.pts]) for cn in corners]))
            is_curve = And(_cls(item) == "LTCurve", _pts_eq(item.pts, ps))
            ok = If(rect, is_rect, is_curve) if any_z3(rect) else (is_rect if rect else is_curve)
        else:
            ok = And(_cls(item) == "LTCurve", _pts_eq(item.pts, ps))
        clauses.append(Implies(cond, ok))
    return And(*clauses)


c.ens("exactly-one-shape", lambda self: len(_added(self)) == 1)
c.ens("class-and-points", lambda self, path: _class_spec(self, path))
c.ens("bbox-is-bound-of-points", lambda self: eq((_added(self)[0].x0, _added(self)[0].y0, _added(self)[0].x1, _added(self)[0].y1),
                                                  PS.bound(_added(self)[0].pts)))
c.ens("graphics-state-at-paint-time", lambda self, gstate, stroke, fill, evenodd: And(
    eq(_added(self)[0].linewidth, gstate.linewidth), Iff(_added(self)[0].stroke, stroke), Iff(_added(self)[0].fill, fill),
    Iff(_added(self)[0].evenodd, evenodd), eq(_added(self)[0].stroking_color, gstate.scolor),
    eq(_added(self)[0].non_stroking_color, gstate.ncolor), _added(self)[0].dashing_style == gstate.dash))
c.ens("original-path-is-every-operand-transformed", lambda self, path: _opath_eq(_added(self)[0].original_path, PS.transformed_operands(self.ctm, path)))


def _opath_eq(a, b):
    if len(a) != len(b):
        return False
    return And(*[And(x[0] == y[0], len(x) == len(y), *[eq(tuple(p), tuple(q)) for p, q in zip(x[1:], y[1:])]) for x, y in zip(a, b)])


c = contract("pdfminer.converter:PDFLayoutAnalyzer.paint_path#subpath-split", props=["C16"])
c.param("self", T.Obj("pdfminer.converter:PDFLayoutAnalyzer", ctm=M6(), cur_item=_Sink()))
c.param("gstate", GSv()).param("stroke", T.Bool()).param("fill", T.Bool()).param("evenodd", T.Bool()).param("path", _Path(_MULTI))
c.mod("self.cur_item._added")


def _subpaths(path):
    """maximal m-led runs with at least one further operator; a path not starting with m paints nothing"""
    shape = "".join(s[0] for s in path)
    if not shape.startswith("m"):
        return []
    if shape.count("m") == 1:
        return [path]      # (a lone 'm' yields a one-point curve: observation, not asserted)
    out, i = [], 0
    while i < len(path):
        j = i + 1
        while j < len(path) and path[j][0] != "m":
            j += 1
        if j - i >= 2:
            out.append(path[i:j])
        i = j
    return out


c.ens("one-shape-per-subpath-with-a-segment", lambda self, path:
      len(_added(self)) == len(_subpaths(path)) if "".join(s[0] for s in path) != "m" else True)
c.ens("each-in-order-with-its-own-points", lambda self, path: And(*[
    Or(_pts_eq(item.pts, _dev_pts(self, sp)), len(item.pts) != len(sp)) for item, sp in zip(_added(self), _subpaths(path))])
    if "".join(s[0] for s in path) != "m" else True)


@bounded("path-programs-vs-oracle", props=["C16"],
         bound="random programs of 4..14 operators over m l c v y h re, S s f f* B B* b b* n, w d, g G rg RG k K, q Q cm on a small dyadic grid; quick 200, thorough 40000")
def _(tier, seed):
    import io, random
    from fractions import Fraction as F
    from specs.pdfgen import one_page_doc
    from specs.textmodel import num
    rng = random.Random(seed + 16)
    layout = real_module("pdfminer.layout")
    hl = real_module("pdfminer.high_level")
    n_prog = 200 if tier == "quick" else 40000
    grid = [F(0), F(5), F(10), F(10), F(25, 2), F(20)]
    co = lambda: rng.choice(grid)
    failures, evals, distinct = [], 0, set()
    for _ in range(n_prog):
        prog = []
        for _i in range(rng.randint(4, 14)):
            op = rng.choice(["m", "l", "l", "l", "c", "v", "y", "h", "re", "S", "s", "f", "f*", "B", "B*", "b", "b*", "n",
                             "w", "d", "g", "G", "rg", "RG", "k", "K", "q", "Q", "cm"])
            if op in ("m", "l"):
                prog.append((op, [co(), co()]))
            elif op == "c":
                prog.append((op, [co() for _k in range(6)]))
            elif op in ("v", "y", "re"):
                prog.append((op, [co() for _k in range(4)]))
            elif op in ("h", "n", "q", "Q") or op in PS.PAINT:
                prog.append((op, []))
            elif op == "w":
                prog.append((op, [F(rng.randint(0, 8), 2)]))
            elif op == "d":
                prog.append((op, [[rng.randint(1, 4)], rng.randint(0, 2)]))
            elif op in ("g", "G"):
                prog.append((op, [F(rng.randint(0, 4), 4)]))
            elif op in ("rg", "RG"):
                prog.append((op, [F(rng.randint(0, 4), 4) for _k in range(3)]))
            elif op in ("k", "K"):
                prog.append((op, [F(rng.randint(0, 4), 4) for _k in range(4)]))
            elif op == "cm":
                prog.append((op, [F(rng.choice([1, 2, 0])), F(rng.choice([0, 1])), F(rng.choice([0, -1])), F(rng.choice([1, 2])), co(), co()]))
        text = " ".join(" ".join(("[" + " ".join(num(e) for e in v) + "]") if isinstance(v, list) else num(v) for v in a) + " " + op for op, a in prog)
        want = PS.run_program(prog, (F(1), F(0), F(0), F(1), F(0), F(0)))
        try:
            page = next(iter(hl.extract_pages(io.BytesIO(one_page_doc(text.encode())), laparams=None)))
            # a painted lone 'm' (no segment) is outside the property's wording: one-point curves are ignored
            got = [o for o in page if isinstance(o, layout.LTCurve) and len(o.pts) > 1]
        except Exception as e:  # noqa: BLE001
            failures.append(dict(program=text, error="%s: %s" % (type(e).__name__, e)))
            continue
        evals += 1
        distinct.add(tuple(op for op, _a in prog))
        ok = len(got) == len(want)
        if ok:
            for g, w in zip(got, want):
                cset = lambda ps: sorted((float(x), float(y)) for x, y in ps)
                if type(g).__name__ != w["kind"]:
                    ok = False
                elif w["kind"] == "LTRect":
                    if cset(g.pts) != cset(w["pts"][:4]):
                        ok = False
                elif [(float(x), float(y)) for x, y in g.pts] != [(float(x), float(y)) for x, y in w["pts"]]:
                    ok = False
                fl = lambda v: None if v is None else (float(v) if not isinstance(v, tuple) else tuple(float(t) for t in v))
                if (g.stroke, g.fill, g.evenodd) != (w["stroke"], w["fill"], w["evenodd"]) or float(g.linewidth) != float(w["linewidth"]) \
                        or fl(g.stroking_color) != fl(w["sc"]) or fl(g.non_stroking_color) != fl(w["nc"]) \
                        or (g.dashing_style is None) != (w["dash"] is None) or (w["dash"] is not None and (list(g.dashing_style[0]), g.dashing_style[1]) != (w["dash"][0], w["dash"][1])):
                    ok = False
        if not ok:
            failures.append(dict(program=text, got=[(type(g).__name__, g.pts, g.stroke, g.fill, g.evenodd, g.linewidth, g.stroking_color, g.non_stroking_color) for g in got][:6],
                                 want=[(w["kind"], [(float(x), float(y)) for x, y in w["pts"]], w["stroke"], w["fill"], w["evenodd"], float(w["linewidth"]), w["sc"], w["nc"]) for w in want][:6]))
            if len(failures) >= 3:
                break
    return dict(evaluations=evals, distinct=len(distinct), failures=failures)
