"""Small helpers that several properties lean on (each tagged with the properties whose checks run it): utils.fsplit, uniq, choplist, parse_rect,
get_bound; the figure/shape/image item constructors; stream filter lists; reference resolution; symbol name access."""
import ast
import z3
from pyvc.contracts import contract, fragment, lemma, bounded, exhaustive, scenario, stub, REGISTRY
from pyvc.logic import And, Or, Not, Implies, Iff, eq, le, lt, If, ne, Min, Max
from pyvc import sorts as T
from pyvc.values import SObj, SymFn
from pyvc.extract import real_module

ut = real_module("pdfminer.utils")
lay = real_module("pdfminer.layout")
pt = real_module("pdfminer.pdftypes")
ps = real_module("pdfminer.psparser")


# -- fsplit: a stable partition (C08: analyze splits glyphs from other items, and empty lines from the rest, with it) -----------------------------------
sc = scenario("pdfminer.utils", "fsplit-is-a-stable-partition", """
def split4(flags):
    items = [("i", 0), ("i", 1), ("i", 2), ("i", 3)]
    t, f = fsplit(lambda it: flags[it[1]], items)
    return (t, f)
""", props=["C08"])
sc.param("flags", T.Tup(T.Bool(), T.Bool(), T.Bool(), T.Bool()))
sc.skip_cross = True
sc.returns(T.Opaque("pair"))


def _fsplit_ok(flags, result):
    t, f = result
    both = sorted(x[1] for x in t + f)
    if both != [0, 1, 2, 3] or [x[1] for x in t] != sorted(x[1] for x in t) or [x[1] for x in f] != sorted(x[1] for x in f):
        return False
    return And(*[flags[x[1]] for x in t], *[Not(flags[x[1]]) for x in f])


sc.ens("every-item-in-exactly-one-part-by-the-predicate-order-kept", _fsplit_ok)


@exhaustive("uniq-choplist-on-all-short-sequences", props=["C08", "C07", "C06"],
            note="utils.uniq and utils.choplist on every sequence of length <= 6 over a 3-letter alphabet: uniq keeps the first occurrence of each element in order; "
                 "choplist(n) yields the consecutive n-tuples and drops an incomplete tail (n = 1, 2, 3)")
def _():
    import itertools
    fails, cases = [], 0
    for ln_ in range(0, 7):
        for seq in itertools.product("abc", repeat=ln_):
            cases += 1
            want = []
            for x in seq:
                if x not in want:
                    want.append(x)
            if list(ut.uniq(seq)) != want:
                fails.append(dict(function="uniq", input="".join(seq), got=list(ut.uniq(seq))))
            for n in (1, 2, 3):
                wantc = [tuple(seq[i:i + n]) for i in range(0, len(seq) - n + 1, n)]
                if list(ut.choplist(n, seq)) != wantc:
                    fails.append(dict(function="choplist", n=n, input="".join(seq), got=list(ut.choplist(n, seq))))
    return dict(cases=cases, failures=fails[:3])


# -- get_bound: the tight hull of the points (C16, C05) -------------------------------------------------------------------------------------------
c = contract("pdfminer.utils:get_bound", props=["C16", "C20"])
c.param("pts", T.Tup(T.RealTup(2), T.RealTup(2), T.RealTup(2), as_list=True))
c.skip_cross = True
c.inline = True          # callers execute the body; this contract is checked on its own
c.returns(T.RealTup(4))
c.ens("tight-hull", lambda pts, result: And(
    eq(result[0], Min(*[p[0] for p in pts])), eq(result[1], Min(*[p[1] for p in pts])), eq(result[2], Max(*[p[0] for p in pts])), eq(result[3], Max(*[p[1] for p in pts]))))


# -- layout items built by the device: boxes are hulls of what they are given (C16, C18, C05) --------------------------------------------------------------
c = contract("pdfminer.layout:LTFigure.__init__", props=["C05", "C18", "C16"])
c.param("self", T.Obj("pdfminer.layout:LTFigure")).param("name", T.Const("Fm1")).param("bbox", T.RealTup(4)).param("matrix", T.RealTup(6))
c.skip_cross = True
c.inline = True          # callers execute the body; this contract is checked on its own
c.mod("self.*")


def _fig_box(self, bbox, matrix):
    from specs import affine
    x, y, w, h = bbox
    corners = [(x, y), (x + w, y), (x, y + h), (x + w, y + h)]
    img = [affine.apply_pt(matrix, p) for p in corners]
    hull = (Min(*[p[0] for p in img]), Min(*[p[1] for p in img]), Max(*[p[0] for p in img]), Max(*[p[1] for p in img]))
    if DEBUG_FIG:
        print("FIG", self.f["name"] == "Fm1", len(self._objs) == 0, self.groups is None, type(self.bbox), type(self.matrix))
    return And(eq(tuple(self.bbox), hull), eq(self.x0, hull[0]), eq(self.y1, hull[3]), eq(self.width, hull[2] - hull[0]), self.f["name"] == "Fm1", eq(tuple(self.matrix), tuple(matrix)),
               len(self._objs) == 0, self.groups is None)


DEBUG_FIG = False


c.ens("box-is-the-hull-of-the-transformed-x-y-w-h-rectangle", _fig_box)

c = contract("pdfminer.layout:LTImage.__init__", props=["C18"])
c.param("self", T.Obj("pdfminer.layout:LTImage")).param("name", T.Str()).param("stream", T.Const("stream")).param("bbox", T.RealTup(4))
c.skip_cross = True
c.inline = True          # callers execute the body; this contract is checked on its own
c.mod("self.*")


def _wire_img(bound, ghosts):
    LIT = ps.LIT
    attrs = {"W": 7, "H": 5, "BPC": 8, "CS": LIT("DeviceRGB")} if ghosts["abbr"] else {"Width": 7, "Height": 5, "BitsPerComponent": 8, "ColorSpace": [LIT("ICCBased"), "profile"]}
    s = SObj(pt.PDFStream, {"attrs": attrs}, "stream")
    s.f["get_any"] = SymFn(lambda I, names, default=None, s=s: next((s.f["attrs"][n] for n in names if n in s.f["attrs"]), default), "get_any")
    bound["stream"] = s


c.ghost("abbr", T.OneOf(False, True))
c.wire = _wire_img
c.ens("geometry-bits-and-colour-space-from-full-or-abbreviated-keys", lambda self, name, stream, bbox, abbr: And(
    self.f["name"] is name, self.stream is stream, tuple(self.srcsize) == (7, 5), self.bits == 8, isinstance(self.colorspace, list) and len(self.colorspace) >= 1,
    eq(tuple(self.bbox), tuple(bbox)), self.imagemask is None))


# -- PDFStream.get_filters: names and parameters pair up, a single filter and a single dictionary are one-element lists (C03, C18) ---------------------------
class _StreamAttrs(T.Sort):
    CASES = ["none", "one-name", "one-name-one-dict", "two-names-two-dicts", "two-names-one-dict", "abbreviated-keys", "indirect-filter", "params-not-a-dict"]
    def fresh(self, ctx, name):
        LIT = ps.LIT
        k = ctx.choose(self.CASES, "filters")
        d1, d2 = {"Predictor": 12}, {"K": -1}
        def ref(n, target):
            o = SObj(pt.PDFObjRef, {"objid": n}, "ref%d" % n)
            o.f["resolve"] = SymFn(lambda I, default=None, target=target: target, "resolve")
            return o
        attrs = {"none": {}, "one-name": {"Filter": LIT("FlateDecode")}, "one-name-one-dict": {"Filter": LIT("FlateDecode"), "DecodeParms": d1},
                 "two-names-two-dicts": {"Filter": [LIT("ASCIIHexDecode"), LIT("FlateDecode")], "DecodeParms": [None, d1]},
                 "two-names-one-dict": {"Filter": [LIT("LZWDecode"), LIT("CCITTFaxDecode")], "DecodeParms": d2},
                 "abbreviated-keys": {"F": LIT("Fl"), "DP": d1}, "indirect-filter": {"Filter": [ref(9, LIT("FlateDecode"))], "DecodeParms": [ref(10, d1)]},
                 "params-not-a-dict": {"Filter": LIT("FlateDecode"), "DecodeParms": 7}}[k]
        o = SObj(pt.PDFStream, {"attrs": attrs}, name)
        o.f["_case"] = k
        return o
    def sample(self, rng):
        return None
    def from_model(self, ev, v):
        return v.f["_case"]


c = contract("pdfminer.pdftypes:PDFStream.get_filters", props=["C03", "C18", "C13"])
c.param("self", _StreamAttrs())
c.skip_cross = True
c.inline = True          # callers execute the body; this contract is checked on its own
c.returns(T.Opaque("list"))


def _filters_ok(self, result):
    k = self._case
    names = [getattr(f, "name", None) for f, _p in result]
    params = [(p or None) for _f, p in result]          # absent parameters: None or an empty dictionary
    want = {"none": ([], []), "one-name": (["FlateDecode"], [None]), "one-name-one-dict": (["FlateDecode"], [{"Predictor": 12}]),
            "two-names-two-dicts": (["ASCIIHexDecode", "FlateDecode"], [None, {"Predictor": 12}]), "two-names-one-dict": (["LZWDecode", "CCITTFaxDecode"], [{"K": -1}, {"K": -1}]),
            "abbreviated-keys": (["Fl"], [{"Predictor": 12}]), "indirect-filter": (["FlateDecode"], [{"Predictor": 12}]), "params-not-a-dict": (["FlateDecode"], [None])}[k]
    return names == want[0] and params == want[1]


c.ens("filters-paired-with-their-parameters", _filters_ok)


# -- symbol names (C01, C06, C15): literal_name gives the text of a name, keyword_name the bytes of a keyword, other objects are spelled with str() -----------
_LATIN = bytes([0xE9, 0x78])        # not valid UTF-8
c = contract("pdfminer.psparser:literal_name", props=["C01", "C15", "C06"])
c.param("x", T.OneOf("text-name", "bytes-name-utf8", "bytes-name-latin", "not-a-name"))
c.skip_cross = True
c.inline = True          # callers execute the body; this contract is checked on its own
c.wire = lambda bound, ghosts: bound.__setitem__("x", {"text-name": ps.PSLiteral("Abc"), "bytes-name-utf8": ps.PSLiteral("\u00e9".encode()), "bytes-name-latin": ps.PSLiteral(_LATIN),
                                                       "not-a-name": 12}[bound["x"]])
c.returns(T.Opaque("str"))
c.ens("name-text", lambda x, result: result == ("Abc" if getattr(x, "name", None) == "Abc" else "\u00e9" if getattr(x, "name", None) == "\u00e9".encode() else
                                                str(_LATIN) if getattr(x, "name", None) == _LATIN else "12"))


# -- Tf: the named font of the current resources and the size (C05, C06) --------------------------------------------------------------------------------------
pi = real_module("pdfminer.pdfinterp")
cv = real_module("pdfminer.converter")
_gf = stub("pdfminer.pdfinterp:PDFResourceManager.get_font", ["self", "objid", "spec"])
_gf.result_fn = ("font", lambda self, objid, spec: "fallback-font")
c = contract("pdfminer.pdfinterp:PDFPageInterpreter.do_Tf", props=["C05", "C06"])
c.param("self", T.Obj("pdfminer.pdfinterp:PDFPageInterpreter", textstate=T.Obj("pdfminer.pdfinterp:PDFTextState", font=T.Const("old-font"), fontsize=T.Real(), charspace=T.Real()),
                      rsrcmgr=T.Obj("pdfminer.pdfinterp:PDFResourceManager")))
c.param("fontid", T.OneOf("F1", "F2", "missing")).param("fontsize", T.Operand(bad=(None,)))
c.skip_cross = True
c.inline = True          # callers execute the body; this contract is checked on its own
c.stubs = {"pdfminer.pdfinterp:PDFResourceManager.get_font": _gf}
c.wire = lambda bound, ghosts: (bound["self"].f.__setitem__("fontmap", {"F1": "font-one", "F2": "font-two"}), bound.__setitem__("fontid", ps.LIT(bound["fontid"])))
c.mod("self.textstate.font").mod("self.textstate.fontsize")
c.ens("selects-the-named-font-and-the-size", lambda self, fontid, fontsize, old: And(
    self.textstate.font == {"F1": "font-one", "F2": "font-two"}.get(fontid.name, "fallback-font"),
    eq(self.textstate.fontsize, fontsize) if T.is_number(fontsize) else eq(self.textstate.fontsize, old.self.textstate.fontsize)))


# -- render_char: the glyph item carries the font's text, width and displacement for the code and the live state; its advance is returned (C05, C06, C07) -------
_ltchar = stub("pdfminer.layout:LTChar.__init__", ["self", "matrix", "font", "fontsize", "scaling", "rise", "text", "textwidth", "textdisp", "ncs", "graphicstate"])
_ltchar.effect = lambda I, bound: bound["self"].f.__setitem__("adv", ("advance-of", bound["textwidth"]))


class _FontS(T.Sort):
    def fresh(self, ctx, name):
        o = SObj(real_module("pdfminer.pdffont").PDFFont, {}, name)
        defined = ctx.choose([True, False], "unicode-defined")
        from pyvc.symexec import SymRaise
        PUD = real_module("pdfminer.pdffont").PDFUnicodeNotDefined

        def to_unichr(I, cid):
            if not defined:
                raise SymRaise(PUD, "to_unichr")
            return "text-of-cid"
        o.f.update(to_unichr=SymFn(to_unichr, "to_unichr"), char_width=SymFn(lambda I, cid: ("width-of", cid), "char_width"),
                   char_disp=SymFn(lambda I, cid: ("disp-of", cid), "char_disp"), _defined=defined)
        return o
    def sample(self, rng):
        return None
    def from_model(self, ev, v):
        return {"defined": v.f["_defined"]}


c = contract("pdfminer.converter:PDFLayoutAnalyzer.render_char", props=["C05", "C06", "C07"])
c.param("self", T.Obj("pdfminer.converter:PDFLayoutAnalyzer", cur_item=T.Obj(None))).param("matrix", T.RealTup(6)).param("font", _FontS())
c.param("fontsize", T.Real()).param("scaling", T.Real()).param("rise", T.Real()).param("cid", T.Int(0)).param("ncs", T.Const("ncs")).param("graphicstate", T.Const("gs"))
c.skip_cross = True
c.inline = True          # callers execute the body; this contract is checked on its own
_hud = stub("pdfminer.converter:PDFLayoutAnalyzer.handle_undefined_char", ["self", "font", "cid"])
_hud.result_fn = ("text", lambda self, font, cid: "(cid:n)")
c.stubs = {"pdfminer.layout:LTChar.__init__": _ltchar, "pdfminer.converter:PDFLayoutAnalyzer.handle_undefined_char": _hud}


def _wire_rc(bound, ghosts):
    added = []
    bound["self"].f["cur_item"].f["add"] = SymFn(lambda I, item: added.append(item), "add")
    ghosts["_added"] = added


c.wire = _wire_rc
c.returns(T.Opaque("adv"))


def _rc_ok(self, matrix, font, fontsize, scaling, rise, cid, ncs, graphicstate, result, trace, _added):
    made = [b for n, b in trace if n.endswith("LTChar.__init__")]
    if len(made) != 1 or len(_added) != 1 or _added[0] is not made[0]["self"]:
        return False
    b = made[0]
    return And(b["text"] == ("text-of-cid" if font._defined else "(cid:n)"), b["textwidth"] == ("width-of", cid) or (b["textwidth"][0] == "width-of" and b["textwidth"][1] is cid),
               b["textdisp"][0] == "disp-of" and b["textdisp"][1] is cid, b["font"] is font, b["ncs"] == "ncs", b["graphicstate"] == "gs",
               eq(tuple(b["matrix"]), tuple(matrix)), eq(b["fontsize"], fontsize), eq(b["scaling"], scaling), eq(b["rise"], rise),
               result == ("advance-of", b["textwidth"]))


c.ens("one-glyph-item-with-the-fonts-answers-for-this-code-advance-returned", _rc_ok)


# -- render_image: an image item with the current figure's box is added to that figure (C18) -------------------------------------------------------------------
_ltimg = stub("pdfminer.layout:LTImage.__init__", ["self", "name", "stream", "bbox"])
c = contract("pdfminer.converter:PDFLayoutAnalyzer.render_image", props=["C18"])
c.param("self", T.Obj("pdfminer.converter:PDFLayoutAnalyzer")).param("name", T.Str()).param("stream", T.Const("the-stream"))
c.skip_cross = True
c.inline = True          # callers execute the body; this contract is checked on its own
c.stubs = {"pdfminer.layout:LTImage.__init__": _ltimg}


def _wire_ri(bound, ghosts):
    from contracts.c08_layout import Comp
    added = []
    fig = SObj(lay.LTFigure, {"x0": 1, "y0": 2, "x1": 30, "y1": 40}, "figure")
    fig.f["add"] = SymFn(lambda I, item: added.append(item), "add")
    bound["self"].f["cur_item"] = fig
    ghosts["_added"] = added


c.wire = _wire_ri
c.ens("image-item-with-the-figures-box-added-to-the-figure", lambda name, trace, _added: (
    len(trace) == 1 and len(_added) == 1 and _added[0] is trace[0][1]["self"] and trace[0][1]["name"] is name and trace[0][1]["stream"] == "the-stream"
    and tuple(trace[0][1]["bbox"]) == (1, 2, 30, 40)))


# -- LZW bit reader: the next `bits` bits of the stream, most significant first (C03) ---------------------------------------------------------------------------
from pyvc.logic import floordiv, mod
lzw = real_module("pdfminer.lzw")
PDFEOFError = real_module("pdfminer.pdfexceptions").PDFEOFError


class _BitSrc(T.Sort):
    """decoder positioned at bit `bpos` (0..8) of the current byte `buff`, followed by up to two more bytes in the file (or fewer: end of data)"""
    def fresh(self, ctx, name):
        bpos = ctx.choose(list(range(0, 9)), "bpos")
        avail = ctx.choose([2, 1, 0], "bytes-left")
        B = [ctx.fresh_int("%s.b%d" % (name, k)) for k in range(3)]
        for b in B:
            ctx.assume(z3.And(b >= 0, b < 256))
        rest = list(B[1:1 + avail])
        fp = SObj(None, {"_rest": rest}, "fp")
        fp.f["read"] = SymFn(lambda I, n, fp=fp: (bytes() if not fp.f["_rest"] else _one(fp)), "read")
        o = SObj(lzw.LZWDecoder, {"buff": B[0], "bpos": bpos, "fp": fp, "_bytes": B, "_avail": avail}, name)
        return o
    def sample(self, rng):
        return None
    def from_model(self, ev, v):
        return dict(bpos=v.f["bpos"], bytes=[int(ev(b)) for b in v.f["_bytes"]], left=v.f["_avail"])


def _one(fp):
    from pyvc.values import SBytes
    b = fp.f["_rest"].pop(0)
    return SBytes(1, lambda k, b=b: b, (0, 256), "bytes")


@bounded("lzw-bit-reader-vs-bit-string", props=["C03"],
         bound="LZWDecoder.readbits on every start offset 0..8 x width 9..12 x 6^3 byte patterns (00 FF AA 55 80 01) plus 20000 random three-byte windows (thorough: 400000), "
               "also with the data ending early: the value is the next bits of the stream, most significant first, the cursor advances by them, PDFEOFError exactly when "
               "the data ends before the code does.  (The symbolic run of the shift/mask arithmetic over integers did not finish within the budget.)")
def _(tier, seed):
    import io, itertools, random
    rng = random.Random(seed + 3)
    failures, evals = [], 0
    pats = [0x00, 0xFF, 0xAA, 0x55, 0x80, 0x01]
    windows = list(itertools.product(pats, repeat=3)) + [tuple(rng.randrange(256) for _ in range(3)) for _ in range(20000 if tier == "quick" else 400000)]
    for w in windows:
        for bpos in range(0, 9):
            for bits in (9, 10, 11, 12):
                for avail in (2, 1, 0) if (evals % 7 == 0) else (2,):
                    evals += 1
                    d = lzw.LZWDecoder(io.BytesIO(bytes(w[1:1 + avail])))
                    d.buff, d.bpos = w[0], bpos
                    need = 0 if bits <= 8 - bpos else -(-(bits - (8 - bpos)) // 8)
                    try:
                        got = d.readbits(bits)
                    except PDFEOFError:
                        got = "EOF"
                    if need > avail:
                        want = "EOF"
                    else:
                        k = 1 + need
                        N = int.from_bytes(bytes(w[:k]), "big")
                        want = (N >> (8 * k - bpos - bits)) & ((1 << bits) - 1)
                    ok = got == want and (want == "EOF" or (d.bpos == bpos + bits - 8 * need and d.buff == w[need]))
                    if not ok:
                        failures.append(dict(bytes=bytes(w).hex(), start_bit=bpos, width=bits, bytes_left=avail, got=got, want=want))
                        if len(failures) >= 3:
                            return dict(evaluations=evals, distinct=evals, failures=failures)
    return dict(evaluations=evals, distinct=evals, failures=failures)


# -- init_resources: the font / colour-space / XObject maps of a content stream come from its Resources, fonts by object number (C05, C06, C16, C18) ---------
PDFCS = real_module("pdfminer.pdfcolor")
_gf2 = stub("pdfminer.pdfinterp:PDFResourceManager.get_font", ["self", "objid", "spec"])
_gf2.result_fn = ("font", lambda self, objid, spec: ("font-for", objid, tuple(sorted(spec))))
_gp = stub("pdfminer.pdfinterp:PDFResourceManager.get_procset", ["self", "procs"])
c = contract("pdfminer.pdfinterp:PDFPageInterpreter.init_resources", props=["C05", "C16", "C18"])
c.param("self", T.Obj("pdfminer.pdfinterp:PDFPageInterpreter", rsrcmgr=T.Obj("pdfminer.pdfinterp:PDFResourceManager"))).param("resources", T.Const("resources"))
c.skip_cross = True
c.inline = True
c.stubs = {"pdfminer.pdfinterp:PDFResourceManager.get_font": _gf2, "pdfminer.pdfinterp:PDFResourceManager.get_procset": _gp}
c.mod("self.*")


def _wire_res(bound, ghosts):
    LIT = ps.LIT
    def ref(n, target):
        o = SObj(pt.PDFObjRef, {"objid": n}, "ref%d" % n)
        o.f["resolve"] = SymFn(lambda I, default=None, target=target: target, "resolve")
        return o
    icc = SObj(pt.PDFStream, {"attrs": {"N": 4}}, "icc")
    icc.f["get"] = SymFn(lambda I, k, d=None, icc=icc: icc.f["attrs"].get(k, d), "get")
    f1 = {"Type": LIT("Font"), "Subtype": LIT("Type1")}
    bound["resources"] = {"Font": {"F1": ref(5, f1), "F2": {"Type": LIT("Font")}}, "XObject": {"Im0": ref(9, "image-stream")},
                          "ColorSpace": {"CS0": [LIT("ICCBased"), ref(12, icc)], "CS1": LIT("DeviceCMYK"), "CS2": [LIT("DeviceN"), [LIT("a"), LIT("b")], LIT("DeviceRGB"), "fn"], "Bad": []},
                          "ProcSet": [LIT("PDF")]}
    ghosts["_r9"] = bound["resources"]["XObject"]["Im0"]


c.wire = _wire_res
c.ens("maps-built-from-the-resources", lambda self, resources, _r9: And(
    self.resources is resources, self.fontmap == {"F1": ("font-for", 5, ("Subtype", "Type")), "F2": ("font-for", None, ("Type",))},
    self.xobjmap == {"Im0": _r9},
    _fld(self.csmap["CS0"], "ncomponents") == 4 and _fld(self.csmap["CS0"], "name") == "ICCBased", self.csmap["CS1"] is PDFCS.PREDEFINED_COLORSPACE["DeviceCMYK"],
    _fld(self.csmap["CS2"], "ncomponents") == 2, "Bad" not in self.csmap, "DeviceGray" in self.csmap))


def _fld(o, k):
    return o.f[k] if isinstance(o, SObj) else getattr(o, k)


# -- do_EI: an inline image is shown as a figure named by its order of appearance with the unit box (C18) ----------------------------------------------------------
class _DevRec(T.Sort):
    def fresh(self, ctx, name):
        o = SObj(None, {"_calls": []}, name)
        for m in ("begin_figure", "render_image", "end_figure"):
            o.f[m] = SymFn((lambda m: lambda I, *a, o=o: o.f["_calls"].append((m,) + a))(m), m)
        return o
    def sample(self, rng):
        return None
    def from_model(self, ev, v):
        return "device"


c = contract("pdfminer.pdfinterp:PDFPageInterpreter.do_EI", props=["C18", "C12"])
c.param("self", T.Obj("pdfminer.pdfinterp:PDFPageInterpreter", device=_DevRec(), inline_image_count=T.Int(0))).param("obj", T.OneOf("image", "no-geometry", "not-a-stream"))
c.skip_cross = True
c.inline = True
c.mod("self.inline_image_count").mod("self.device._calls")


def _wire_ei(bound, ghosts):
    k = bound["obj"]
    ghosts["_k"] = k
    if k == "not-a-stream":
        bound["obj"] = 7
    else:
        s = SObj(pt.PDFStream, {"attrs": {"W": 2, "H": 1} if k == "image" else {"W": 2}}, "inline-stream")
        s.f["__contains__"] = None
        bound["obj"] = s


c.wire = _wire_ei
c.ens("figure-image-figure-with-a-name-that-counts-the-images", lambda self, obj, old, _k: (
    And(len(self.device._calls) == 3, [c_[0] for c_ in self.device._calls] == ["begin_figure", "render_image", "end_figure"],
        eq(self.inline_image_count, old.self.inline_image_count + 1), self.device._calls[1][2] is obj, tuple(self.device._calls[0][2]) == (0, 0, 1, 1),
        self.device._calls[0][1] is self.device._calls[1][1], self.device._calls[0][1] is self.device._calls[2][1])
    if _k == "image" else And(len(self.device._calls) == 0, eq(self.inline_image_count, old.self.inline_image_count))))


# -- embedded CMap tables (C07): a code is a path of bytes in the trie, its last byte maps to the CID; earlier entries stay; cid -> Unicode entries by kind ------
cmapdb = real_module("pdfminer.cmapdb")
c = contract("pdfminer.cmapdb:FileCMap.add_code2cid", props=["C07"])
c.param("self", T.Obj("pdfminer.cmapdb:FileCMap")).param("code", T.OneOf("A", "AB", "AC", "XYZ")).param("cid", T.Int(0))
c.skip_cross = True
c.inline = True
c.mod("self.code2cid")
c.wire = lambda bound, ghosts: bound["self"].f.__setitem__("code2cid", {65: {66: 7}, 90: 9})


def _trie_get(d, code):
    for ch in code:
        if not isinstance(d, dict) or ord(ch) not in d:
            return None
        d = d[ord(ch)]
    return d


c.ens("the-code-now-leads-to-the-cid-and-other-codes-are-kept", lambda self, code, cid: And(
    _trie_get(self.code2cid, code) is cid or eq(_trie_get(self.code2cid, code), cid),
    _trie_get(self.code2cid, "Z") == 9,
    # a one-byte code replaces the subtree that started with that byte; longer codes extend it
    (_trie_get(self.code2cid, "AB") == 7) if code in ("AC", "XYZ") else True))

_n2u = stub("pdfminer.encodingdb:name2unicode", ["name"])
_n2u.result_fn = ("text", lambda name: "text-of-" + name)
c = contract("pdfminer.cmapdb:FileUnicodeMap.add_cid2unichr", props=["C07"])
c.param("self", T.Obj("pdfminer.cmapdb:FileUnicodeMap")).param("cid", T.OneOf(3, 7)).param("code", T.OneOf("utf16-A", "utf16-pair", "utf16-astral", "odd-bytes", "int-233", "glyph-name", "nbsp-over-space", "nbsp-fresh"))
c.skip_cross = True
c.inline = True
c.stubs = {"pdfminer.encodingdb:name2unicode": _n2u}
c.mod("self.cid2unichr")


def _wire_u(bound, ghosts):
    k = bound["code"]
    ghosts["_k"] = k
    bound["code"] = {"utf16-A": b"\x00A", "utf16-pair": b"\x00f\x00i", "utf16-astral": "\U0001F600".encode("utf-16-be"), "odd-bytes": b"\x00A\x00", "int-233": 233,
                     "glyph-name": ps.LIT("alpha"), "nbsp-over-space": b"\x00\xa0", "nbsp-fresh": b"\x00\xa0"}[k]
    bound["self"].f["cid2unichr"] = {1: "kept"}
    if k == "nbsp-over-space":
        bound["self"].f["cid2unichr"][7] = " "
        bound["cid"] = 7


c.wire = _wire_u
c.ens("entry-by-kind-of-target", lambda self, cid, _k: (
    (self.cid2unichr.get(7) == " " and self.cid2unichr.get(1) == "kept") if _k == "nbsp-over-space" else
    And(self.cid2unichr.get(1) == "kept" or eq(cid, 1),
        _sym_get(self.cid2unichr, cid) == {"utf16-A": "A", "utf16-pair": "fi", "utf16-astral": "\U0001F600", "odd-bytes": "A", "int-233": "\u00e9", "glyph-name": "text-of-alpha",
                                           "nbsp-fresh": "\u00a0"}[_k])))


def _sym_get(d, k):
    for kk, v in d.items():
        if kk is k:
            return v
    return d.get(k) if isinstance(k, int) else None


# -- composite fonts (C07): Unicode comes from the font's map or is undefined; the displacement of a vertical glyph from W2 or the default -----------------------
pf = real_module("pdfminer.pdffont")


class _UMap(T.Sort):
    def fresh(self, ctx, name):
        from pyvc.symexec import SymRaise
        k = ctx.choose(["has-entry", "no-entry", "no-map"], "umap")
        if k == "no-map":
            o = None
        else:
            o = SObj(cmapdb.UnicodeMap, {"_k": k}, name)
            def get_unichr(I, cid, k=k):
                if k == "no-entry":
                    raise SymRaise(KeyError, "get_unichr")
                return "text-from-map"
            o.f["get_unichr"] = SymFn(get_unichr, "get_unichr")
        UM[0] = k
        return o
    def sample(self, rng):
        return None
    def from_model(self, ev, v):
        return UM[0]


UM = [None]
c = contract("pdfminer.pdffont:PDFCIDFont.to_unichr", props=["C07"])
c.param("self", T.Obj("pdfminer.pdffont:PDFCIDFont", unicode_map=_UMap(), cidcoding=T.Const("Adobe-Japan1"))).param("cid", T.Int(0))
c.skip_cross = True
c.inline = True
c.returns(T.Opaque("str"))
c.may_raise(pf.PDFUnicodeNotDefined, lambda self: UM[0] != "has-entry")
c.ens("text-from-the-fonts-map", lambda result: result == "text-from-map" and UM[0] == "has-entry")

c = contract("pdfminer.pdffont:PDFCIDFont.char_disp", props=["C07", "C05"])
c.param("self", T.Obj("pdfminer.pdffont:PDFCIDFont", default_disp=T.Const((None, 880)))).param("cid", T.OneOf(5, 6))
c.skip_cross = True
c.inline = True
c.wire = lambda bound, ghosts: bound["self"].f.__setitem__("disps", {5: (250, 800)})
c.returns(T.Opaque("disp"))
c.ens("W2-entry-else-default", lambda cid, result: tuple(result) == ((250, 800) if cid == 5 else (None, 880)))


# -- simple fonts (C06): the encoding is the named one, or the dictionary's base encoding overlaid by its Differences; a ToUnicode stream is parsed into the map ----
_ge = stub("pdfminer.encodingdb:EncodingDB.get_encoding", ["cls", "name", "diff"])
_ge.defaults["diff"] = None
_ge.result_fn = ("table", lambda cls, name, diff: ("encoding", name, None if diff is None else tuple(diff)))
_pfi = stub("pdfminer.pdffont:PDFFont.__init__", ["self", "descriptor", "widths", "default_width"])
_pfi.defaults["default_width"] = None
_cpi = stub("pdfminer.cmapdb:CMapParser.__init__", ["self", "cmap", "fp"])
_cpr = stub("pdfminer.cmapdb:CMapParser.run", ["self"])
c = contract("pdfminer.pdffont:PDFSimpleFont.__init__", props=["C06"])
c.param("self", T.Obj("pdfminer.pdffont:PDFSimpleFont")).param("descriptor", T.Const("descriptor")).param("widths", T.Const("widths"))
c.param("spec", T.OneOf("no-encoding", "name", "indirect-name", "dict-base-and-differences", "dict-differences-only", "name-and-tounicode"))
c.skip_cross = True
c.inline = True
c.mod("self.*")
c.stubs = {"pdfminer.encodingdb:EncodingDB.get_encoding": _ge, "pdfminer.pdffont:PDFFont.__init__": _pfi, "pdfminer.cmapdb:CMapParser.__init__": _cpi, "pdfminer.cmapdb:CMapParser.run": _cpr}


def _wire_sf(bound, ghosts):
    LIT = ps.LIT
    k = bound["spec"]
    ghosts["_k"] = k
    def ref(n, target):
        o = SObj(pt.PDFObjRef, {"objid": n}, "ref%d" % n)
        o.f["resolve"] = SymFn(lambda I, default=None, target=target: target, "resolve")
        return o
    diffs = [65, LIT("alpha")]
    tou = SObj(pt.PDFStream, {"attrs": {}}, "tounicode")
    tou.f["get_data"] = SymFn(lambda I: b"cmap-text", "get_data")
    bound["spec"] = {"no-encoding": {}, "name": {"Encoding": LIT("WinAnsiEncoding")}, "indirect-name": {"Encoding": ref(9, LIT("MacRomanEncoding"))},
                     "dict-base-and-differences": {"Encoding": {"BaseEncoding": LIT("WinAnsiEncoding"), "Differences": diffs}},
                     "dict-differences-only": {"Encoding": ref(9, {"Differences": diffs})}, "name-and-tounicode": {"Encoding": LIT("WinAnsiEncoding"), "ToUnicode": tou}}[k]


c.wire = _wire_sf
c.ens("encoding-chosen-as-ISO-9.6.6-says", lambda self, _k, trace: And(
    self.cid2unicode == {"no-encoding": ("encoding", "StandardEncoding", None), "name": ("encoding", "WinAnsiEncoding", None), "indirect-name": ("encoding", "MacRomanEncoding", None),
                         "dict-base-and-differences": ("encoding", "WinAnsiEncoding", (65, ps.LIT("alpha"))),
                         "dict-differences-only": ("encoding", "StandardEncoding", (65, ps.LIT("alpha"))), "name-and-tounicode": ("encoding", "WinAnsiEncoding", None)}[_k],
    (self.unicode_map is None) == (_k != "name-and-tounicode"),
    [n.split(".")[-1] for n, b in trace if "CMapParser" in n] == (["__init__", "run"] if _k == "name-and-tounicode" else [])))


# -- nexttoken (C14, C01): tokens come out in queue order; scanning continues until a token is queued; at the end of input a pending token is flushed by
#    one white-space byte and the end is signalled once, on the next call -----------------------------------------------------------------------------------
PSEOF_ = ps.PSEOF


class _TokParser(T.Sort):
    def fresh(self, ctx, name):
        from pyvc.symexec import SymRaise
        case = ctx.choose(["queued", "scan-once", "scan-twice", "eof-with-pending-token", "eof-with-nothing", "already-at-eof"], "case")
        o = SObj(ps.PSBaseParser, {"eof": case == "already-at-eof", "_tokens": [(1, "t1"), (5, "t2")] if case == "queued" else [], "buf": b"abcdef", "charpos": 0,
                                   "_case": case, "_log": []}, name)
        calls = {"n": 0}

        def fillbuf(I, o=o):
            o.f["_log"].append("fillbuf")
            if case in ("eof-with-pending-token", "eof-with-nothing"):
                raise SymRaise(PSEOF_, "fillbuf")

        def parse1(I, s, i, o=o):
            calls["n"] += 1
            o.f["_log"].append(("parse", bytes(s) if isinstance(s, (bytes, bytearray)) else s, i))
            if isinstance(s, (bytes, bytearray)) and bytes(s) == b"\n":
                if case == "eof-with-pending-token":
                    o.f["_tokens"].append((9, "flushed"))
                return 1
            if case == "scan-once" or (case == "scan-twice" and calls["n"] == 2):
                o.f["_tokens"].append((3, "scanned"))
            return i + 2
        o.f["fillbuf"], o.f["_parse1"] = SymFn(fillbuf, "fillbuf"), SymFn(parse1, "_parse1")
        return o
    def sample(self, rng):
        return None
    def from_model(self, ev, v):
        return v.f["_case"]


c = contract("pdfminer.psparser:PSBaseParser.nexttoken", props=["C14", "C01"])
c.param("self", _TokParser())
c.skip_cross = True
c.inline = True
c.mod("self.*")
c.returns(T.Opaque("token"))
c.may_raise(PSEOF_, lambda self: self._case in ("eof-with-nothing", "already-at-eof"))


def _tok_ok(self, result):
    k = self._case
    parses = [x for x in self._log if isinstance(x, tuple)]
    if k == "queued":
        return tuple(result) == (1, "t1") and self._tokens == [(5, "t2")] and self._log == []
    if k == "scan-once":
        return tuple(result) == (3, "scanned") and self.charpos == 2 and len(parses) == 1
    if k == "scan-twice":
        return tuple(result) == (3, "scanned") and self.charpos == 4 and len(parses) == 2 and parses[1][2] == 2
    if k == "eof-with-pending-token":
        return tuple(result) == (9, "flushed") and self.eof is True and parses == [("parse", b"\n", 0)]
    return False


c.ens("queue-order-scan-until-a-token-flush-at-the-end", _tok_ok)


# -- V4 security handler (C10): crypt filters by name, one filter for strings and streams or an explicit refusal, metadata left alone when not encrypted ----------
pdoc = real_module("pdfminer.pdfdocument")
c = contract("pdfminer.pdfdocument:PDFStandardSecurityHandlerV4.get_cfm", props=["C10"])
c.param("self", T.Obj("pdfminer.pdfdocument:PDFStandardSecurityHandlerV4")).param("name", T.OneOf("V2", "AESV2", "AESV3", "None", "Identity"))
c.skip_cross = True
c.inline = True
c.returns(T.Opaque("fn"))
c.ens("V2-is-RC4-AESV2-is-AES128-nothing-else", lambda self, name, result: (
    getattr(result, "name", None) == {"V2": "decrypt_rc4", "AESV2": "decrypt_aes128"}[name] if name in ("V2", "AESV2") else result is None))

c = contract("pdfminer.pdfdocument:PDFStandardSecurityHandlerV4.decrypt", props=["C10"])
c.param("self", T.Obj("pdfminer.pdfdocument:PDFStandardSecurityHandlerV4", encrypt_metadata=T.OneOf(True, False), strf=T.Const("StdCF")))
c.param("objid", T.Int(1)).param("genno", T.Int(0)).param("data", T.Const(b"cipher")).param("attrs", T.OneOf("none", "plain-stream", "metadata-stream")).param("name", T.OneOf(None, "Identity"))
c.skip_cross = True
c.inline = True


def _wire_v4(bound, ghosts):
    calls = []
    bound["self"].f["cfm"] = {"StdCF": SymFn(lambda I, o, g, d: (calls.append(("StdCF", o, g, d)), ("plain-of", d))[1], "StdCF"),
                              "Identity": SymFn(lambda I, o, g, d: (calls.append(("Identity", o, g, d)), d)[1], "Identity")}
    ghosts["_calls"] = calls
    ghosts["_attrs"] = bound["attrs"]
    bound["attrs"] = {"none": None, "plain-stream": {"Length": 6}, "metadata-stream": {"Type": ps.LIT("Metadata"), "Subtype": ps.LIT("XML")}}[bound["attrs"]]


c.wire = _wire_v4
c.returns(T.Opaque("bytes"))
c.ens("metadata-exempt-only-when-not-encrypted-else-the-named-or-the-string-filter-with-this-objects-numbers", lambda self, objid, genno, name, result, _calls, _attrs: (
    (result == b"cipher" and _calls == []) if (_attrs == "metadata-stream" and not self.encrypt_metadata) else
    (len(_calls) == 1 and _calls[0][0] == (name or "StdCF") and _calls[0][1] is objid and _calls[0][2] is genno and _calls[0][3] == b"cipher"
     and result == (b"cipher" if name == "Identity" else ("plain-of", b"cipher")))))


class _V4Param(T.Sort):
    CASES = ["aes", "rc4", "identity-for-both", "different-filters", "unknown-method", "undefined-filter", "metadata-flag-false"]
    def fresh(self, ctx, name):
        LIT = ps.LIT
        k = ctx.choose(self.CASES, "param")
        cf = {"StdCF": {"CFM": LIT({"aes": "AESV2", "rc4": "V2", "unknown-method": "AESV9"}.get(k, "AESV2")), "Length": 16}}
        p = {"CF": cf, "StmF": LIT("StdCF"), "StrF": LIT("StdCF")}
        if k == "identity-for-both":
            p.update(StmF=LIT("Identity"), StrF=LIT("Identity"))
        if k == "different-filters":
            p.update(StmF=LIT("Identity"))
        if k == "undefined-filter":
            p.update(StmF=LIT("Other"), StrF=LIT("Other"))
        if k == "metadata-flag-false":
            p["EncryptMetadata"] = False
        p.update(V=4, R=4, P=-4, O=b"o" * 32, U=b"u" * 32, Length=128)
        V4K[0] = k
        return p
    def sample(self, rng):
        return None
    def from_model(self, ev, v):
        return V4K[0]


V4K = [None]
c = contract("pdfminer.pdfdocument:PDFStandardSecurityHandlerV4.init_params", props=["C10"])
c.param("self", T.Obj("pdfminer.pdfdocument:PDFStandardSecurityHandlerV4", param=_V4Param()))
c.skip_cross = True
c.inline = True
c.mod("self.*")
c.may_raise(pdoc.PDFEncryptionError, lambda self: V4K[0] in ("different-filters", "unknown-method", "undefined-filter"))
c.ens("filters-resolved-by-name-128-bit-key-metadata-flag", lambda self: And(
    self.length == 128, self.stmf == self.strf, self.strf == ("Identity" if V4K[0] == "identity-for-both" else "StdCF"),
    sorted(self.cfm) == ["Identity", "StdCF"], getattr(self.cfm["StdCF"], "name", None) == ("decrypt_rc4" if V4K[0] == "rc4" else "decrypt_aes128"),
    getattr(self.cfm["Identity"], "name", None) == "decrypt_identity", self.encrypt_metadata == (V4K[0] != "metadata-flag-false"), V4K[0] in ("aes", "rc4", "identity-for-both", "metadata-flag-false")))


# -- shape items (C16): the box is the hull of the points; a line has its two end points, a rectangle its four corners in x0y0 x1y0 x1y1 x0y1 order; all
#    paint attributes are stored as given -------------------------------------------------------------------------------------------------------------------
def _shape_contract(cls, geom_param, geom_sort, pts_of):
    c = contract("pdfminer.layout:%s.__init__" % cls, props=["C16"])
    c.param("self", T.Obj("pdfminer.layout:" + cls)).param("linewidth", T.Real()).param(geom_param[0], geom_sort[0])
    if len(geom_param) > 1:
        c.param(geom_param[1], geom_sort[1])
    c.param("stroke", T.Bool()).param("fill", T.Bool()).param("evenodd", T.Bool()).param("stroking_color", T.Const("sc")).param("non_stroking_color", T.Const("nc"))
    c.param("original_path", T.Const("path")).param("dashing_style", T.Const("dash"))
    c.skip_cross = True
    c.inline = True
    c.mod("self.*")

    def spec(self, linewidth, stroke, fill, evenodd, **geom):
        pts = pts_of(**geom)
        hull = (Min(*[p[0] for p in pts]), Min(*[p[1] for p in pts]), Max(*[p[0] for p in pts]), Max(*[p[1] for p in pts]))
        return And(eq(tuple(self.bbox), hull), eq(self.x0, hull[0]), eq(self.y0, hull[1]), eq(self.x1, hull[2]), eq(self.y1, hull[3]),
                   eq(self.width, hull[2] - hull[0]), eq(self.height, hull[3] - hull[1]),
                   len(self.pts) == len(pts), *[eq(tuple(a), tuple(b)) for a, b in zip(self.pts, pts)],
                   eq(self.linewidth, linewidth), self.stroke is stroke, self.fill is fill, self.evenodd is evenodd, self.stroking_color == "sc", self.non_stroking_color == "nc",
                   self.original_path == "path", self.dashing_style == "dash")
    if cls == "LTLine":
        c.ens("hull-points-and-attributes", lambda self, linewidth, stroke, fill, evenodd, p0, p1: spec(self, linewidth, stroke, fill, evenodd, p0=p0, p1=p1))
    elif cls == "LTRect":
        c.ens("hull-points-and-attributes", lambda self, linewidth, stroke, fill, evenodd, bbox: spec(self, linewidth, stroke, fill, evenodd, bbox=bbox))
    else:
        c.ens("hull-points-and-attributes", lambda self, linewidth, stroke, fill, evenodd, pts: spec(self, linewidth, stroke, fill, evenodd, pts=pts))
    return c


_shape_contract("LTCurve", ["pts"], [T.Tup(T.RealTup(2), T.RealTup(2), T.RealTup(2), as_list=True)], lambda pts: list(pts))
_shape_contract("LTLine", ["p0", "p1"], [T.RealTup(2), T.RealTup(2)], lambda p0, p1: [p0, p1])
_shape_contract("LTRect", ["bbox"], [T.RealTup(4)], lambda bbox: [(bbox[0], bbox[1]), (bbox[2], bbox[1]), (bbox[2], bbox[3]), (bbox[0], bbox[3])])


# -- references (C02, C13): a reference resolves to what the document holds under its number, or to the default when the document has no such object ----------
class _DocFor(T.Sort):
    def fresh(self, ctx, name):
        from pyvc.symexec import SymRaise
        k = ctx.choose(["present", "absent"], "object")
        o = SObj(None, {"_k": k, "_asked": []}, name)

        def getobj(I, objid, o=o):
            o.f["_asked"].append(objid)
            if k == "absent":
                raise SymRaise(pt.PDFObjectNotFound, "getobj")
            return "the-object"
        o.f["getobj"] = SymFn(getobj, "getobj")
        return o
    def sample(self, rng):
        return None
    def from_model(self, ev, v):
        return v.f["_k"]


c = contract("pdfminer.pdftypes:PDFObjRef.resolve", props=["C02", "C13"])
c.param("self", T.Obj("pdfminer.pdftypes:PDFObjRef", doc=_DocFor(), objid=T.Int(1))).param("default", T.Const("the-default"))
c.skip_cross = True
c.inline = True
c.mod("self.doc._asked")
c.returns(T.Opaque("value"))
c.ens("the-documents-object-under-this-number-else-the-default", lambda self, result: And(
    len(self.doc._asked) == 1, self.doc._asked[0] is self.objid, result == ("the-object" if self.doc._k == "present" else "the-default")))


# -- CCITT bit feeding (C19): bits go in most significant first, one trie step per bit; ByteSkip drops the rest of the byte and returns to mode codes;
#    EOFB ends the data -----------------------------------------------------------------------------------------------------------------------------------
cc = real_module("pdfminer.ccitt")


class _G4Feed(T.Sort):
    def fresh(self, ctx, name):
        from pyvc.symexec import SymRaise
        ev = ctx.choose(["plain", "byteskip-at-bit-3-of-byte-0", "eofb-at-bit-5-of-byte-1"], "event")
        o = SObj(cc.CCITTG4Parser, {"_bits": [], "_ev": ev, "_accept": "previous-accept", "_state": "previous-state"}, name)

        def parse_bit(I, x, o=o):
            n = len(o.f["_bits"])
            o.f["_bits"].append(x)
            if ev.startswith("byteskip") and n == 3:
                raise SymRaise(cc.CCITTG4Parser.ByteSkip, "skip")
            if ev.startswith("eofb") and n == 8 + 5:
                raise SymRaise(cc.CCITTG4Parser.EOFB, "eofb")
        o.f["_parse_bit"] = SymFn(parse_bit, "_parse_bit")
        o.f["_parse_mode"] = "the-mode-parser"
        return o
    def sample(self, rng):
        return None
    def from_model(self, ev, v):
        return v.f["_ev"]


class FixedBytes(T.Sort):
    """a byte string of a fixed, concrete length with symbolic bytes"""
    def __init__(self, n):
        self.n = n
    def fresh(self, ctx, name):
        from pyvc.values import SBytes
        vals = [ctx.fresh_int("%s.b%d" % (name, k)) for k in range(self.n)]
        for b in vals:
            ctx.assume(z3.And(b >= 0, b < 256))
        def at(k, vals=vals):
            if isinstance(k, int):
                return vals[k]
            r = vals[-1]
            for i in range(len(vals) - 2, -1, -1):
                r = If(eq(k, i), vals[i], r)
            return r
        d = SBytes(self.n, at, (0, 256), "bytes")
        d._vals = vals
        return d
    def sample(self, rng):
        return None
    def from_model(self, ev, v):
        return bytes(int(ev(x)) for x in v._vals).hex()


c = contract("pdfminer.ccitt:CCITTG4Parser.feedbytes", props=["C19"])
c.param("self", _G4Feed()).param("data", FixedBytes(3))
c.skip_cross = True
c.inline = True
c.mod("self._bits").mod("self._accept").mod("self._state")


def _feed_ok(self, data):
    ev = self._ev
    bits = self._bits
    def bit(k):      # k-th bit of the data, most significant first, as the masked value the parser receives
        return (k // 8, 128 >> (k % 8))
    if ev == "plain":
        order = list(range(24))
    elif ev.startswith("byteskip"):
        order = [0, 1, 2, 3] + list(range(8, 24))
    else:
        order = list(range(0, 14))
    if len(bits) != len(order):
        return False
    from pyvc.logic import mod, floordiv
    ok = [eq(b, mod(floordiv(data.at(bit(k)[0]), bit(k)[1]), 2) * bit(k)[1]) for b, k in zip(bits, order)]
    st = And(self._accept == "the-mode-parser", self._state is cc.CCITTG4Parser.MODE) if ev.startswith("byteskip") else And(self._accept == "previous-accept", self._state == "previous-state")
    return And(st, *ok)


c.ens("bits-most-significant-first-skip-drops-the-rest-of-the-byte-eofb-stops", _feed_ok)


# -- PDFStream accessors (C03, C18, C10): decoded data is produced by decode() once and then kept; the stored bytes are a separate accessor; attribute lookups
#    by the first present name, in the order given ----------------------------------------------------------------------------------------------------------
def _decode_effect(I, bound):
    o = bound["self"]
    o.f["data"] = o.f["_decoded"]
    o.f["rawdata"] = None


_dec = stub("pdfminer.pdftypes:PDFStream.decode", ["self"]); _dec.effect = _decode_effect
for _state in ("fresh", "decoded"):
    c = contract("pdfminer.pdftypes:PDFStream.get_data#%s" % _state, props=["C03", "C18", "C10"])
    c.param("self", T.Obj("pdfminer.pdftypes:PDFStream", _decoded=T.Bytes(), rawdata=T.Bytes() if _state == "fresh" else T.Const(None),
                          data=T.Const(None) if _state == "fresh" else T.Bytes(), attrs=T.Const({"Length": 3})))
    c.skip_cross = True
    c.stubs = {"pdfminer.pdftypes:PDFStream.decode": _dec}
    c.mod("self.data").mod("self.rawdata")
    if _state == "fresh":
        c.ens("decodes-once-and-returns-the-decoded-bytes", lambda self, result, trace: len(trace) == 1 and result is self._decoded and self.data is self._decoded)
    else:
        c.ens("already-decoded-data-returned-as-is-no-second-decode", lambda self, old, result, trace: len(trace) == 0 and result is old.self.data and self.data is old.self.data)

c = contract("pdfminer.pdftypes:PDFStream.get_rawdata", props=["C03", "C18"])
c.param("self", T.Obj("pdfminer.pdftypes:PDFStream", rawdata=T.Bytes(), data=T.Const(None), attrs=T.Const({"Length": 3})))
c.skip_cross = True
c.inline = True
c.ens("the-stored-bytes-untouched", lambda self, old, result: result is old.self.rawdata)


class _Attrs(T.Sort):
    KEYS = ("F", "Filter", "DP", "DecodeParms", "FDecodeParms", "Length")
    def fresh(self, ctx, name):
        present = [k for k in self.KEYS if ctx.choose([False, True], "has-" + k)]
        return {k: "value-of-" + k for k in present}
    def sample(self, rng):
        return None
    def from_model(self, ev, v):
        return sorted(v)


c = contract("pdfminer.pdftypes:PDFStream.get_any", props=["C03", "C18"])
c.param("self", T.Obj("pdfminer.pdftypes:PDFStream", attrs=_Attrs())).param("names", T.OneOf(("F", "Filter"), ("DP", "DecodeParms", "FDecodeParms"), ("Width", "W"), ()))
c.param("default", T.Const("the-default"))
c.skip_cross = True
c.inline = True
c.ens("first-present-name-in-the-given-order-else-the-default", lambda self, names, default, result: (
    result == next(("value-of-" + n for n in names if n in self.attrs), default)))

c = contract("pdfminer.pdftypes:PDFStream.set_objid", props=["C10", "C02"])
c.param("self", T.Obj("pdfminer.pdftypes:PDFStream", objid=T.Const(None), genno=T.Const(None), rawdata=T.Bytes(), data=T.Const(None)))
c.param("objid", T.Int(1, 10 ** 6)).param("genno", T.Int(0, 65535))
c.skip_cross = True
c.inline = True
c.mod("self.objid").mod("self.genno")
c.ens("number-and-generation-recorded-for-the-per-object-key", lambda self, objid, genno: And(eq(self.objid, objid), eq(self.genno, genno)))


# -- render_contents (C05, C04, C12): resources, then a fresh state with the given CTM, then the streams - in this order, each exactly once -------------------
pin = real_module("pdfminer.pdfinterp")
_ir = stub("pdfminer.pdfinterp:PDFPageInterpreter.init_resources", ["self", "resources"])
_is = stub("pdfminer.pdfinterp:PDFPageInterpreter.init_state", ["self", "ctm"])
_ex = stub("pdfminer.pdfinterp:PDFPageInterpreter.execute", ["self", "streams"])
_lv = stub("pdfminer.pdftypes:list_value", ["x"]); _lv.result_fn = ("the-list-itself", lambda x: x)
_lv.note = "list_value is the identity on a list (its own contract is in C13)"
for _variant in ("ctm-given", "ctm-default"):
    c = contract("pdfminer.pdfinterp:PDFPageInterpreter.render_contents#%s" % _variant, props=["C05", "C04", "C12"])
    c.param("self", T.Obj("pdfminer.pdfinterp:PDFPageInterpreter")).param("resources", T.Const({"Font": "fonts"})).param("streams", T.Const(["s1", "s2"]))
    if _variant == "ctm-given":
        c.param("ctm", T.RealTup(6))
    c.skip_cross = True
    c.stubs = {"pdfminer.pdfinterp:PDFPageInterpreter.init_resources": _ir, "pdfminer.pdfinterp:PDFPageInterpreter.init_state": _is,
               "pdfminer.pdfinterp:PDFPageInterpreter.execute": _ex, "pdfminer.pdftypes:list_value": _lv}

    def _rc_spec(resources, streams, trace, ctm=None):  # noqa: E306
        t = [(n.split(".")[-1].split(":")[-1], b) for n, b in trace if not n.endswith("list_value")]
        if [n for n, _ in t] != ["init_resources", "init_state", "execute"]:
            return False
        if t[0][1]["resources"] is not resources and t[0][1]["resources"] != resources:
            return False
        if list(t[2][1]["streams"]) != list(streams):
            return False
        got = t[1][1]["ctm"]
        if ctm is None:
            return tuple(got) == (1, 0, 0, 1, 0, 0)
        return And(*[eq(got[k], ctm[k]) for k in range(6)])
    if _variant == "ctm-given":
        c.ens("resources-then-fresh-state-with-this-ctm-then-all-streams-in-order", lambda resources, streams, trace, ctm: _rc_spec(resources, streams, trace, ctm))
    else:
        c.ens("resources-then-fresh-state-with-the-identity-ctm-then-all-streams-in-order", lambda resources, streams, trace: _rc_spec(resources, streams, trace))


# -- PDFPage._parse_contents (C04): absent -> no streams; a single stream -> a list of that stream; an array -> its elements in order -------------------------
_r1 = stub("pdfminer.pdftypes:resolve1", ["x"]); _r1.result_fn = ("resolved", lambda x: x.f["_target"] if isinstance(x, SObj) and "_target" in x.f else x)
_r1.note = "resolve1 follows a reference to its target and is the identity otherwise (its own contract is in C13)"


class _Contents(T.Sort):
    KINDS = ["absent", "one-stream", "array", "empty-array", "ref-to-array", "ref-to-stream"]
    def fresh(self, ctx, name):
        k = ctx.choose(self.KINDS, "contents")
        s1, s2 = SObj(pt.PDFStream, {"_tag": "s1"}, "s1"), SObj(pt.PDFStream, {"_tag": "s2"}, "s2")
        v, want = {"absent": (None, []), "one-stream": (s1, [s1]), "array": ([s1, s2], [s1, s2]), "empty-array": ([], []),
                   "ref-to-array": (SObj(pt.PDFObjRef, {"_target": [s2, s1]}, "ref"), [s2, s1]), "ref-to-stream": (SObj(pt.PDFObjRef, {"_target": s2}, "ref"), [s2])}[k]
        return SObj(None, {"v": v, "_want": want, "_kind": k}, name)
    def sample(self, rng):
        return None
    def from_model(self, ev, v):
        return v.f["_kind"]


sc = scenario("pdfminer.pdfpage", "page-contents-as-a-list-of-streams", """
def contents_of(c):
    return PDFPage._parse_contents(None, c.v)
""", props=["C04", "C05"])
sc.param("c", _Contents())
sc.skip_cross = True
sc.stubs = {"pdfminer.pdftypes:resolve1": _r1}
sc.returns(T.Opaque("list"))
sc.ens("absent-none-single-one-array-its-elements-in-order", lambda c, result: (
    isinstance(result, list) and len(result) == len(c._want) and all(getattr(a, "f", {}).get("_tag") == b.f["_tag"] for a, b in zip(result, c._want))))


# -- the layout analyzer's item stack (C08, C16, C18, C05): a figure is opened on top of the current container with Matrix x CTM and, when closed, is added to
#    exactly the container that was current when it was opened; a page is analysed once (when layout parameters are given), numbered, and handed on --------------
conv = real_module("pdfminer.converter")
_ltf = stub("pdfminer.layout:LTFigure.__init__", ["self", "name", "bbox", "matrix"])
_ltf.effect = lambda I, bound: bound["self"].f.update(name=bound["name"], _bbox_arg=bound["bbox"], matrix=bound["matrix"], _objs=[])


class _Container(T.Sort):
    def fresh(self, ctx, name):
        o = SObj(lay.LTFigure, {"_objs": [], "_tag": name}, name)
        o.f["add"] = SymFn(lambda I, x, o=o: o.f["_objs"].append(x), "add")
        return o
    def sample(self, rng):
        return None
    def from_model(self, ev, v):
        return v.f["_tag"]


c = contract("pdfminer.converter:PDFLayoutAnalyzer.begin_figure", props=["C08", "C16", "C18", "C05"])
c.param("self", T.Obj("pdfminer.converter:PDFLayoutAnalyzer", cur_item=_Container(), _stack=T.Tup(_Container(), as_list=True), ctm=T.RealTup(6)))
c.param("name", T.Const("Fm1")).param("bbox", T.RealTup(4)).param("matrix", T.RealTup(6))
c.skip_cross = True
c.inline = True
c.stubs = {"pdfminer.layout:LTFigure.__init__": _ltf}
c.mod("self.cur_item").mod("self._stack")


def _bf_spec(self, old, name, bbox, matrix):
    (a1, b1, c1, d1, e1, f1), (a0, b0, c0, d0, e0, f0) = matrix, old.self.ctm
    want = (a0 * a1 + c0 * b1, b0 * a1 + d0 * b1, a0 * c1 + c0 * d1, b0 * c1 + d0 * d1, a0 * e1 + c0 * f1 + e0, b0 * e1 + d0 * f1 + f0)
    if not (len(self._stack) == 2 and self._stack[0]._tag == old.self._stack[0]._tag and self._stack[1]._tag == old.self.cur_item._tag and self.cur_item.f["name"] == name):
        return False
    return And(*[eq(self.cur_item.matrix[k], want[k]) for k in range(6)], *[eq(self.cur_item._bbox_arg[k], bbox[k]) for k in range(4)])


c.ens("current-container-pushed-new-figure-with-Matrix-x-CTM-becomes-current", _bf_spec)

c = contract("pdfminer.converter:PDFLayoutAnalyzer.end_figure", props=["C08", "C16", "C18", "C05"])
c.param("self", T.Obj("pdfminer.converter:PDFLayoutAnalyzer", cur_item=_Container(), _stack=T.Tup(_Container(), _Container(), as_list=True))).param("_", T.Const("Fm1"))
c.skip_cross = True
c.inline = True
c.mod("self.cur_item").mod("self._stack").mod("self._stack[*]")
c.ens("figure-added-once-to-the-container-it-was-opened-in-which-becomes-current-again", lambda self, old: (
    len(self._stack) == 1 and self._stack[0]._tag == old.self._stack[0]._tag and self.cur_item._tag == old.self._stack[1]._tag
    and len(self.cur_item._objs) == 1 and self.cur_item._objs[0]._tag == old.self.cur_item._tag and len(self._stack[0]._objs) == 0))


class _PageItem(T.Sort):
    def fresh(self, ctx, name):
        o = SObj(lay.LTPage, {"_analyzed": [], "_tag": "page-item"}, name)
        o.f["analyze"] = SymFn(lambda I, lap, o=o: o.f["_analyzed"].append(lap), "analyze")
        return o
    def sample(self, rng):
        return None
    def from_model(self, ev, v):
        return "page"


_rl = stub("pdfminer.converter:PDFLayoutAnalyzer.receive_layout", ["self", "ltpage"])
for _lap in ("with-laparams", "without-laparams"):
    c = contract("pdfminer.converter:PDFLayoutAnalyzer.end_page#%s" % _lap, props=["C08", "C11", "C04"])
    c.param("self", T.Obj("pdfminer.converter:PDFLayoutAnalyzer", cur_item=_PageItem(), _stack=T.Const([]), pageno=T.Int(1, 10 ** 6),
                          laparams=T.Const("the-laparams") if _lap == "with-laparams" else T.Const(None))).param("page", T.Const("pdfpage"))
    c.skip_cross = True
    c.stubs = {"pdfminer.converter:%s.receive_layout" % k: _rl for k in ("PDFLayoutAnalyzer", "PDFPageAggregator", "TextConverter", "XMLConverter", "HTMLConverter", "HOCRConverter")}
    c.mod("self.pageno").mod("self.cur_item._analyzed")
    c.ens("analysed-once-iff-layout-parameters-then-numbered-then-handed-on", (lambda lap: lambda self, old, trace: (
        len(trace) == 1 and trace[0][1]["ltpage"]._tag == "page-item"
        and self.cur_item._analyzed == (["the-laparams"] if lap == "with-laparams" else []))
        and eq(self.pageno, old.self.pageno + 1))(_lap))
