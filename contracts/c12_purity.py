"""C12 - extraction is a pure function of bytes and options.  Contracts (frames) on the mechanisms that touch state which outlives one
call, inventories of (a) every store through a module- or class-level binding and (b) every source of run-to-run variation, and the
property's own call-history scenarios as a bounded stand-in."""
import ast
import os
import z3
from pyvc.contracts import contract, fragment, lemma, bounded, exhaustive, scenario, stub, REGISTRY
from pyvc.logic import And, Or, Not, Implies, Iff, eq, le, lt, If, ne
from pyvc import sorts as T
from pyvc.values import SObj, SymFn
from pyvc.extract import real_module, REPO

cm = real_module("pdfminer.cmapdb")
pt = real_module("pdfminer.pdftypes")
ps = real_module("pdfminer.psparser")
pi = real_module("pdfminer.pdfinterp")


# -- CMap.use_cmap: the used map is copied into this one; no dictionary is shared with the (cached, process-wide) source -----------------------
class _Trie(T.Sort):
    def fresh(self, ctx, name):
        I = lambda n: ctx.fresh_int(n)
        return {1: I("a"), 2: {3: I("b"), 4: {5: I("c")}}, 7: {8: I("d")}}
    def sample(self, rng):
        return None
    def from_model(self, ev, v):
        return "trie"


c = contract("pdfminer.cmapdb:CMap.use_cmap", props=["C12", "C07"])
c.param("self", T.Obj("pdfminer.cmapdb:CMap")).param("cmap", T.Obj("pdfminer.cmapdb:CMap", code2cid=_Trie()))
c.skip_cross = True
c.wire = lambda bound, ghosts: bound["self"].f.__setitem__("code2cid", {9: 90})
c.mod("self.code2cid")


def _same_shape_no_sharing(dst, src):
    if set(dst) - {9} != set(src):
        return False
    out = []
    for k, v in src.items():
        if isinstance(v, dict):
            if not isinstance(dst[k], dict) or dst[k] is v:
                return False
            r = _same_shape_no_sharing(dst[k], v)
            if r is False:
                return False
            out.append(r)
        else:
            out.append(eq(dst[k], v))
    return And(*out)


c.ens("entries-copied-and-no-dictionary-shared-with-the-source", lambda self, cmap: And(self.code2cid.get(9) == 90, lambda: _same_shape_no_sharing(self.code2cid, cmap.code2cid)))


# -- resolve_all / decipher_all: work in place on the object handed in, replace every reference / decipher every string once, idempotent ----------------
class _RefGraph(T.Sort):
    """{'a': ref1 -> {'p': ref2 -> 7, 'q': 5}, 'b': [ref2, 'txt'], 'c': {'d': ref1}}"""
    def fresh(self, ctx, name):
        calls = []
        def ref(n, target):
            o = SObj(pt.PDFObjRef, {"objid": n}, "ref%d" % n)
            o.f["resolve"] = SymFn(lambda I, default=None, o=o, target=target: (calls.append(n), target)[1], "resolve")
            return o
        seven = ctx.fresh_int("seven")
        r2 = ref(2, seven)
        inner = {"p": r2, "q": 5}
        r1 = ref(1, inner)
        x = {"a": r1, "b": [r2, "txt"], "c": {"d": r1}}
        x_meta = dict(calls=calls, inner=inner, seven=seven, lst=x["b"])
        REFMETA[id(x)] = x_meta
        return x
    def sample(self, rng):
        return None
    def from_model(self, ev, v):
        return "graph"


REFMETA = {}


def _no_refs(v):
    if isinstance(v, SObj) and v.cls is pt.PDFObjRef:
        return False
    if isinstance(v, dict):
        return all(_no_refs(x) for x in v.values())
    if isinstance(v, list):
        return all(_no_refs(x) for x in v)
    return True


c = contract("pdfminer.pdftypes:resolve_all", props=["C12", "C13"])
c.param("x", _RefGraph()).param("default", T.Const(None))
c.skip_cross = True
c.inline = True          # recursive over a concrete structure: the recursion is executed, not summarised
c.mod("x[*]")
c.returns(T.Opaque("resolved"))
c.ens("the-same-dictionary-fully-resolved", lambda x, result: And(
    result is x, _no_refs(result), lambda: eq(result["a"]["p"], REFMETA[id(x)]["seven"]), lambda: result["a"]["q"] == 5,
    lambda: eq(result["b"][0], REFMETA[id(x)]["seven"]), lambda: result["b"][1] == "txt", lambda: result["c"]["d"] is result["a"],
    # lists are rebuilt, not edited: the list object the caller's structure held is left as it was
    lambda: result["b"] is not REFMETA[id(x)]["lst"] and len(REFMETA[id(x)]["lst"]) == 2 and isinstance(REFMETA[id(x)]["lst"][0], SObj)))



class _StrGraph(T.Sort):
    def fresh(self, ctx, name):
        return {"a": b"one", "b": [b"two", 3, b""], "c": {"d": b"three"}, "n": 4}
    def sample(self, rng):
        return None
    def from_model(self, ev, v):
        return "graph"


c = contract("pdfminer.pdftypes:decipher_all", props=["C12", "C10"])
c.param("decipher", T.Const("fn")).param("objid", T.Int(1)).param("genno", T.Int(0)).param("x", _StrGraph())
c.skip_cross = True
c.inline = True
c.mod("x[*]")
c.returns(T.Opaque("deciphered"))


def _wire_dec(bound, ghosts):
    log_ = []
    bound["decipher"] = SymFn(lambda I, objid, genno, data: (log_.append((objid, genno, data)), ("plain", data))[1], "decipher")
    ghosts["_log"] = log_


c.wire = _wire_dec
c.ens("every-non-empty-string-deciphered-exactly-once-with-this-object's-key", lambda x, objid, genno, result, _log: And(
    result is x, sorted(d for _o, _g, d in _log) == [b"one", b"three", b"two"], all((o is objid) and (g is genno) for o, g, _d in _log),
    result["a"] == ("plain", b"one"), result["b"][0] == ("plain", b"two"), result["b"][1] == 3, result["b"][2] == b"", result["c"]["d"] == ("plain", b"three"),
    result["n"] == 4))


# -- interned symbols: one object per name, the table only grows, the answer depends on the name alone --------------------------------------------
sc = scenario("pdfminer.psparser", "interning-is-idempotent", """
def intern_twice(name1, name2):
    t = PSSymbolTable(PSLiteral)
    a = t.intern(name1)
    n1 = len(t.dict)
    b = t.intern(name2)
    c = t.intern(name1)
    return (a, b, c, n1, len(t.dict))
""", props=["C12"])
sc.param("name1", T.OneOf("Font", "Type")).param("name2", T.OneOf("Font", "Type"))
sc.returns(T.Opaque("tuple"))
sc.ens("same-name-same-object-different-name-different-object", lambda name1, name2, result: And(
    result[0] is result[2], (result[0] is result[1]) == (name1 == name2), result[3] == 1, result[4] == (1 if name1 == name2 else 2),
    _nm(result[0]) == name1, _nm(result[1]) == name2))


def _nm(o):
    return o.f["name"] if isinstance(o, SObj) else o.name


# -- font cache: per resource manager, only under a truthy object number, cached = constructed ----------------------------------------------------
class _Fonts(T.Sort):
    def fresh(self, ctx, name):
        o = SObj(pi.PDFResourceManager, {"caching": ctx.choose([True, False], "caching"), "_cached_fonts": {}}, name)
        return o
    def sample(self, rng):
        return None
    def from_model(self, ev, v):
        return {"caching": v.f["caching"]}


_made = []
_t1 = stub("pdfminer.pdffont:PDFType1Font.__init__", ["self", "rsrcmgr", "spec"])
c = contract("pdfminer.pdfinterp:PDFResourceManager.get_font", props=["C12"])
c.param("self", _Fonts()).param("objid", T.OneOf(None, 0, 7)).param("spec", T.Const("spec"))
c.ghost("warm", T.OneOf(False, True))
c.skip_cross = True
c.inline = True
c.mod("self._cached_fonts")


def _wire_font(bound, ghosts):
    LIT = ps.LIT
    bound["spec"] = {"Type": LIT("Font"), "Subtype": LIT("Type1"), "BaseFont": LIT("Helvetica")}
    ghosts["_old"] = None
    if ghosts["warm"] and bound["objid"]:
        old = SObj(real_module("pdfminer.pdffont").PDFType1Font, {}, "cached-font")
        bound["self"].f["_cached_fonts"][bound["objid"]] = old
        ghosts["_old"] = old


c.wire = _wire_font
c.stubs = {"pdfminer.pdffont:PDFType1Font.__init__": _t1}
c.returns(T.Opaque("font"))
c.ens("cache-hit-only-for-this-manager's-entry-under-a-truthy-number-fill-only-when-caching", lambda self, objid, spec, result, _old, trace: And(
    (result is _old and len(trace) == 0) if _old is not None else (len(trace) == 1 and trace[0][1]["spec"] is spec and trace[0][1]["rsrcmgr"] is self),
    (self._cached_fonts.get(objid) is result) if (objid and (self.caching or _old is not None)) else (len(self._cached_fonts) == 0)))


# -- every page starts from a clean interpreter state --------------------------------------------------------------------------------------------------
c = contract("pdfminer.pdfinterp:PDFPageInterpreter.init_state", props=["C12", "C05"])
c.param("self", T.Obj("pdfminer.pdfinterp:PDFPageInterpreter")).param("ctm", T.RealTup(6))
c.skip_cross = True
c.mod("self.*")


def _wire_state(bound, ghosts):
    s = bound["self"]
    dirty = SObj(pi.PDFTextState, {"font": "left-over", "fontsize": 99}, "old-text-state")
    s.f.update(gstack=[("saved", "by", "q")], argstack=["left", "over"], ctm=(2, 0, 0, 2, 5, 5), textstate=dirty, graphicstate="old-graphic-state",
               scs="old-scs", ncs="old-ncs", device=SObj(None, {"_ctm": None}, "device"))
    s.f["device"].f["set_ctm"] = SymFn(lambda I, ctm, d=s.f["device"]: d.f.__setitem__("_ctm", ctm), "set_ctm")
    s.f["csmap"] = {}


c.wire = _wire_state
c.ens("nothing-survives-from-the-previous-page", lambda self, ctm: And(
    len(self.gstack) == 0, len(self.argstack) == 0, eq(self.ctm, ctm), eq(self.device._ctm, ctm),
    isinstance(self.textstate, SObj) and self.textstate.name != "old-text-state" and self.textstate.f.get("font") is None,
    isinstance(self.graphicstate, SObj), self.scs != "old-scs" and self.ncs != "old-ncs"))


# =====================================================================================================================================
# Inventories over the whole package (AST, re-read on every run)
# =====================================================================================================================================
MUTATORS = ("append", "add", "update", "extend", "insert", "pop", "remove", "clear", "setdefault", "popitem", "discard", "sort", "reverse", "__setitem__",
            "appendleft", "write")
FRESH_CALLS = ("copy", "deepcopy", "dict", "list", "set", "sorted", "tuple", "frozenset")
_MUTABLE_VALUE = (ast.Dict, ast.List, ast.Set, ast.Call, ast.DictComp, ast.ListComp, ast.SetComp)


def _package_files():
    root = os.path.join(REPO, "pdfminer")
    return [(fn, os.path.join(root, fn)) for fn in sorted(os.listdir(root)) if fn.endswith(".py")]


def _shared_bindings(tree):
    """names bound at module level and (class, attribute) pairs bound in class bodies to values that can be mutated"""
    mod, cls = set(), set()
    for n in tree.body:
        if isinstance(n, (ast.Assign, ast.AnnAssign)):
            for t in (n.targets if isinstance(n, ast.Assign) else [n.target]):
                if isinstance(t, ast.Name) and n.value is not None and isinstance(n.value, _MUTABLE_VALUE):
                    mod.add(t.id)
        if isinstance(n, ast.ClassDef):
            for m in n.body:
                if isinstance(m, (ast.Assign, ast.AnnAssign)):
                    for t in (m.targets if isinstance(m, ast.Assign) else [m.target]):
                        if isinstance(t, ast.Name) and m.value is not None and isinstance(m.value, _MUTABLE_VALUE):
                            cls.add((n.name, t.id))
    return mod, cls


def _root(e):
    """('shared', text) when the expression reads a module-/class-level binding (possibly through .get / [] / attributes)"""
    while True:
        if isinstance(e, ast.Call) and isinstance(e.func, ast.Attribute) and e.func.attr in ("get", "setdefault", "__getitem__"):
            e = e.func.value
        elif isinstance(e, ast.Subscript):
            e = e.value
        elif isinstance(e, ast.Attribute):
            if isinstance(e.value, ast.Name):
                return e.value.id, e.attr
            e = e.value
        elif isinstance(e, ast.Name):
            return e.id, None
        else:
            return None, None


def shared_state_writers():
    """every statement in the package that stores through a module- or class-level binding, directly or through a local alias of it
    that has not been replaced by a copy.  Returns [(file, function, line, text)]."""
    out = []
    for fn, path in _package_files():
        tree = ast.parse(open(path).read())
        mod, cls = _shared_bindings(tree)
        cls_names = {c_ for c_, _a in cls}

        # class-level mutable attributes that no method of the package re-binds on the instance (`self.X = ...`): reading them through `self` reaches the
        # one object shared by every instance, so `self.X[k] = v` / `self.X.append(v)` writes process-wide state
        cls_attrs = {a_ for _c, a_ in cls}
        rebound = {t_.attr for n_ in ast.walk(tree) for t_ in (n_.targets if isinstance(n_, ast.Assign) else [n_.target] if isinstance(n_, (ast.AnnAssign, ast.AugAssign)) else [])
                   if isinstance(t_, ast.Attribute) and isinstance(t_.value, ast.Name) and t_.value.id == "self"}
        via_self = cls_attrs - rebound

        def is_shared(e, aliases):
            a, b = _root(e)
            if a is None:
                return False
            if b is None:
                return a in mod or a in aliases
            if a == "self":
                return b in via_self
            return a == "cls" or a in cls_names or a in aliases or a in mod

        def fresh(e):
            return isinstance(e, ast.Call) and ((isinstance(e.func, ast.Attribute) and e.func.attr in FRESH_CALLS) or (isinstance(e.func, ast.Name) and e.func.id in FRESH_CALLS)) \
                or isinstance(e, (ast.Dict, ast.List, ast.Set, ast.DictComp, ast.ListComp, ast.SetComp, ast.Constant, ast.BinOp, ast.JoinedStr))

        def scan(stmts, aliases, fname):
            for s in stmts:
                for t in (s.targets if isinstance(s, (ast.Assign, ast.Delete)) else [s.target] if isinstance(s, (ast.AugAssign, ast.AnnAssign)) else []):
                    if isinstance(t, (ast.Subscript, ast.Attribute)) and not (isinstance(t, ast.Attribute) and isinstance(t.value, ast.Name) and t.value.id == "self"):
                        if is_shared(t.value if isinstance(t, ast.Subscript) else t, aliases):
                            out.append((fn, fname, s.lineno, ast.unparse(t)))
                for c_ in ast.walk(s) if not isinstance(s, (ast.If, ast.For, ast.While, ast.Try, ast.With, ast.FunctionDef, ast.ClassDef)) else []:
                    if isinstance(c_, ast.Call) and isinstance(c_.func, ast.Attribute) and c_.func.attr in MUTATORS and c_.func.attr != "write":
                        if is_shared(c_.func.value, aliases):
                            out.append((fn, fname, c_.lineno, ast.unparse(c_)[:80]))
                if isinstance(s, ast.Global):
                    out.append((fn, fname, s.lineno, "global " + ", ".join(s.names)))
                if isinstance(s, ast.Assign) and len(s.targets) == 1 and isinstance(s.targets[0], ast.Name):
                    nm = s.targets[0].id
                    if fresh(s.value):
                        aliases.discard(nm)
                    elif is_shared(s.value, aliases) and not isinstance(s.value, ast.Call) or \
                            (isinstance(s.value, ast.Call) and isinstance(s.value.func, ast.Attribute) and s.value.func.attr == "get" and is_shared(s.value, aliases)):
                        aliases.add(nm)
                    else:
                        aliases.discard(nm)
                for blk in ("body", "orelse", "finalbody"):
                    sub = getattr(s, blk, None)
                    if isinstance(sub, list) and sub and isinstance(sub[0], ast.stmt) and not isinstance(s, (ast.FunctionDef, ast.ClassDef)):
                        inner = set(aliases)
                        scan(sub, inner, fname)
                        aliases |= inner
                for h in getattr(s, "handlers", []) or []:
                    inner = set(aliases)
                    scan(h.body, inner, fname)
                    aliases |= inner

        for n in ast.walk(tree):
            if isinstance(n, ast.FunctionDef):
                scan(n.body, set(), n.name)
    return out


# the writers that exist on the verified tree, each with the reason it cannot change a later result
WRITERS_ALLOWED = {
    ("cmapdb.py", "get_cmap", "cls._cmap_cache[name]"): "cache fill: the stored value is a function of the key alone (the named predefined CMap file); CMap objects handed out are only read, use_cmap copies (contract above)",
    ("cmapdb.py", "get_unicode_map", "cls._umap_cache[name]"): "cache fill keyed by name: value = the named predefined unicode map file",
}


@exhaustive("inventory-of-stores-through-shared-bindings", props=["C12"],
            note="AST scan of every function in pdfminer/*.py: stores and mutating calls through a module-level name, a class attribute (cls.X / Class.X) or a local "
                 "alias of one that was not replaced by a copy; every hit must be a listed key-determined cache fill.  Instance attributes of module-level "
                 "objects (PSLiteralTable.dict via intern) are covered by the interning scenario; the `settings` module is written only by callers.")
def _():
    hits = shared_state_writers()
    fails = [dict(file=f, function=fu, line=ln, store=tx) for f, fu, ln, tx in hits if (f, fu, tx) not in WRITERS_ALLOWED]
    missing = [k for k in WRITERS_ALLOWED if k not in {(f, fu, tx) for f, fu, _ln, tx in hits}]
    return dict(cases=len(hits) + sum(1 for _ in _package_files()), failures=fails[:3], notes=["allow-listed writers no longer present: %r" % (missing,)] if missing else [])


NONDET_CALLS = {"id", "hash", "time", "random", "urandom", "uuid4", "uuid1", "getpid", "now", "today", "perf_counter", "monotonic", "getrandbits", "shuffle", "choice"}


def nondeterminism_sources():
    """calls whose value differs from run to run (id, hash, clocks, randomness, process ids), reads of os.environ, and iteration over sets"""
    out = []
    for fn, path in _package_files():
        tree = ast.parse(open(path).read())
        for f in ast.walk(tree):
            if not isinstance(f, ast.FunctionDef):
                continue
            setvars = set()
            for n in ast.walk(f):
                if isinstance(n, (ast.Assign, ast.AnnAssign)) and n.value is not None:
                    v = n.value
                    if isinstance(v, (ast.Set, ast.SetComp)) or (isinstance(v, ast.Call) and isinstance(v.func, ast.Name) and v.func.id in ("set", "frozenset")) or \
                            (isinstance(v, ast.Call) and isinstance(v.func, ast.Attribute) and v.func.attr in ("difference", "union", "intersection")):
                        for t in (n.targets if isinstance(n, ast.Assign) else [n.target]):
                            if isinstance(t, ast.Name):
                                setvars.add(t.id)
            for n in ast.walk(f):
                if isinstance(n, ast.Call):
                    nm = n.func.id if isinstance(n.func, ast.Name) else n.func.attr if isinstance(n.func, ast.Attribute) else None
                    if nm in NONDET_CALLS and not (isinstance(n.func, ast.Attribute) and nm in ("choice", "now", "today", "time") and "random" not in ast.unparse(n.func) and "time" not in ast.unparse(n.func) and "date" not in ast.unparse(n.func)):
                        out.append((fn, f.name, n.lineno, ast.unparse(n)[:60]))
                if isinstance(n, ast.Attribute) and n.attr == "environ":
                    out.append((fn, f.name, n.lineno, ast.unparse(n)))
                it = None
                if isinstance(n, (ast.For, ast.comprehension)):
                    it = n.iter
                if it is not None:
                    src = it
                    if isinstance(src, ast.Call) and isinstance(src.func, ast.Name) and src.func.id in ("list", "iter", "sorted", "enumerate", "tuple") and src.args:
                        if src.func.id == "sorted":
                            continue
                        src = src.args[0]
                    if isinstance(src, (ast.Set, ast.SetComp)) or (isinstance(src, ast.Name) and src.id in setvars) or \
                            (isinstance(src, ast.Call) and isinstance(src.func, ast.Name) and src.func.id in ("set", "frozenset")) or \
                            (isinstance(src, ast.Call) and isinstance(src.func, ast.Attribute) and src.func.attr in ("difference", "union", "intersection")):
                        out.append((fn, f.name, getattr(n, "lineno", getattr(it, "lineno", 0)), "iteration over a set: " + ast.unparse(it)[:50]))
    return out


NONDET_ALLOWED = {
    ("cmapdb.py", "_load_data", "os.environ"): "CMAP_PATH names an extra directory of predefined CMap files: configuration of the process, constant over the call histories the "
                                               "property speaks about (and confined by the C15 contract)",
}


@exhaustive("inventory-of-run-to-run-variation", props=["C12"],
            note="AST scan of pdfminer/*.py for id(), hash(), clocks, randomness, process ids, os.environ and iteration over sets; each hit must be listed with the reason "
                 "the extraction result does not depend on it")
def _():
    hits = nondeterminism_sources()
    fails = [dict(file=f, function=fu, line=ln, source=tx) for f, fu, ln, tx in hits if (f, fu, tx) not in NONDET_ALLOWED]
    return dict(cases=len(hits) + sum(1 for _ in _package_files()), failures=fails[:12])


# =====================================================================================================================================
# Bounded stand-in: the property's own scenarios over a pool of documents that share object numbers, font names and encodings
# =====================================================================================================================================
def doc_pool():
    from specs.pdfgen import build, Name, Ref, Stream
    FD = {"Type": Name("FontDescriptor"), "FontName": Name("F"), "Flags": 32, "FontBBox": [0, -200, 1000, 800], "ItalicAngle": 0, "Ascent": 800, "Descent": -200, "CapHeight": 700, "StemV": 80}

    def three_pages(font, extra=None, texts=("(ABC) Tj", "(BCA) Tj", "(CAB) Tj"), pre=("", "", "")):
        objs = {1: {"Type": Name("Catalog"), "Pages": Ref(2)}, 2: {"Type": Name("Pages"), "Kids": [Ref(3), Ref(13), Ref(23)], "Count": 3}, 5: font, 8: FD}
        for k, base in enumerate((3, 13, 23)):
            objs[base] = {"Type": Name("Page"), "Parent": Ref(2), "MediaBox": [0, 0, 300, 300], "Contents": Ref(base + 1), "Resources": {"Font": {"F1": Ref(5)}}}
            objs[base + 1] = Stream({}, ("%s BT /F1 10 Tf 20 %d Td %s ET" % (pre[k], 200 - 30 * k, texts[k])).encode())
        if extra:
            objs.update(extra)
        return build(objs, 1)

    def t1(enc=None):
        d = {"Type": Name("Font"), "Subtype": Name("Type1"), "BaseFont": Name("Shared"), "FirstChar": 32, "Widths": [500] * 95, "FontDescriptor": Ref(8)}
        if enc is not None:
            d["Encoding"] = enc
        return d
    pool = {}
    pool["winansi-differences"] = three_pages(t1({"Type": Name("Encoding"), "BaseEncoding": Name("WinAnsiEncoding"), "Differences": [65, Name("alpha"), Name("beta")]}))
    pool["winansi-plain"] = three_pages(t1(Name("WinAnsiEncoding")))
    pool["unknown-base-differences"] = three_pages(t1({"Type": Name("Encoding"), "BaseEncoding": Name("NoSuchEncoding"), "Differences": [66, Name("gamma"), 67, Name("delta")]}))
    pool["standard-implicit"] = three_pages(t1())
    pool["macroman-differences"] = three_pages(t1({"Type": Name("Encoding"), "BaseEncoding": Name("MacRomanEncoding"), "Differences": [67, Name("epsilon")]}))
    # two standard-14 fonts of one name: their width table is the process-wide FONT_METRICS entry itself, keyed by character text
    std = {"Type": Name("Font"), "Subtype": Name("Type1"), "BaseFont": Name("Helvetica")}
    pool["standard14-implicit-encoding"] = three_pages(std)
    pool["standard14-differences"] = three_pages(dict(std, Encoding={"Type": Name("Encoding"), "Differences": [65, Name("W"), Name("i"), Name("M")]}))
    # fonts written directly into each page's resource dictionary (no object number): the same resource name, a different font on every page
    objs = {1: {"Type": Name("Catalog"), "Pages": Ref(2)}, 2: {"Type": Name("Pages"), "Kids": [Ref(3), Ref(13), Ref(23)], "Count": 3}, 8: FD}
    for k, (base, diff) in enumerate(((3, "alpha"), (13, "beta"), (23, "gamma"))):
        f = dict(t1({"Type": Name("Encoding"), "BaseEncoding": Name("WinAnsiEncoding"), "Differences": [65, Name(diff)]}), Widths=[400 + 100 * k] * 95)
        objs[base] = {"Type": Name("Page"), "Parent": Ref(2), "MediaBox": [0, 0, 300, 300], "Contents": Ref(base + 1), "Resources": {"Font": {"F1": f}}}
        objs[base + 1] = Stream({}, ("BT /F1 10 Tf 20 %d Td (ABC) Tj ET" % (200 - 30 * k)).encode())
    pool["direct-fonts-same-name-per-page"] = build(objs, 1)
    # composite fonts: a predefined CMap, and an embedded CMap that uses it and adds a range (use_cmap must copy)
    cid = {"Type": Name("Font"), "Subtype": Name("CIDFontType0"), "BaseFont": Name("Shared"), "CIDSystemInfo": {"Registry": "Adobe", "Ordering": "Japan1", "Supplement": 2},
           "FontDescriptor": Ref(8), "DW": 1000}
    t0 = {"Type": Name("Font"), "Subtype": Name("Type0"), "BaseFont": Name("Shared"), "Encoding": Name("H"), "DescendantFonts": [Ref(6)]}
    cidtexts = ("<21212122> Tj", "<30213022> Tj", "<7E7E2121> Tj")
    pool["type0-predefined-H"] = three_pages(t0, {6: cid}, cidtexts)
    emb = ("/CIDInit /ProcSet findresource begin 12 dict begin begincmap /H usecmap /CMapName /Mine def 1 begincodespacerange <2121> <7E7E> endcodespacerange "
           "1 begincidrange <2121> <2122> 900 endcidrange endcmap CMapName currentdict /CMap defineresource pop end end")
    t0e = dict(t0, Encoding=Ref(7))
    pool["type0-embedded-encoding-stream"] = three_pages(t0e, {6: cid, 7: Stream({"Type": Name("CMap"), "CMapName": Name("Mine")}, emb.encode())}, cidtexts)
    # two composite fonts that share one descendant font object but differ in ToUnicode: the parent's entries must not stick to the shared object
    tou = (b"/CIDInit /ProcSet findresource begin 12 dict begin begincmap 1 begincodespacerange <0000> <FFFF> endcodespacerange 3 beginbfchar <0001> <0048> <0002> <0069> "
           b"<0003> <0021> endbfchar endcmap CMapName currentdict /CMap defineresource pop end end")
    cid2 = {"Type": Name("Font"), "Subtype": Name("CIDFontType2"), "BaseFont": Name("Shared"), "CIDSystemInfo": {"Registry": "Adobe", "Ordering": "Identity", "Supplement": 0},
            "FontDescriptor": Ref(8), "DW": 500}
    objs = {1: {"Type": Name("Catalog"), "Pages": Ref(2)}, 2: {"Type": Name("Pages"), "Kids": [Ref(3), Ref(13), Ref(23)], "Count": 3}, 8: FD, 6: cid2, 7: Stream({}, tou),
            5: {"Type": Name("Font"), "Subtype": Name("Type0"), "BaseFont": Name("Shared"), "Encoding": Name("Identity-H"), "DescendantFonts": [Ref(6)], "ToUnicode": Ref(7)},
            9: {"Type": Name("Font"), "Subtype": Name("Type0"), "BaseFont": Name("Shared"), "Encoding": Name("Identity-H"), "DescendantFonts": [Ref(6)]}}
    for k, (base, fnt) in enumerate(((3, "F1"), (13, "F2"), (23, "F1"))):
        objs[base] = {"Type": Name("Page"), "Parent": Ref(2), "MediaBox": [0, 0, 300, 300], "Contents": Ref(base + 1), "Resources": {"Font": {"F1": Ref(5), "F2": Ref(9)}}}
        objs[base + 1] = Stream({}, ("BT /%s 10 Tf 20 %d Td <000100020003> Tj ET" % (fnt, 200 - 30 * k)).encode())
    pool["type0-shared-descendant"] = build(objs, 1)
    # a horizontal and a vertical font of the same character collection (their collection Unicode maps differ on arrows, brackets, punctuation)
    cidj = dict(cid)
    fh = {"Type": Name("Font"), "Subtype": Name("Type0"), "BaseFont": Name("Shared"), "Encoding": Name("UniJIS-UCS2-H"), "DescendantFonts": [Ref(6)]}
    fv = dict(fh, Encoding=Name("UniJIS-UCS2-V"))
    objs = {1: {"Type": Name("Catalog"), "Pages": Ref(2)}, 2: {"Type": Name("Pages"), "Kids": [Ref(3), Ref(13), Ref(23)], "Count": 3}, 8: FD, 6: cidj, 5: fh, 9: fv}
    for k, (base, fnt) in enumerate(((3, "F1"), (13, "F2"), (23, "F1"))):
        objs[base] = {"Type": Name("Page"), "Parent": Ref(2), "MediaBox": [0, 0, 300, 300], "Contents": Ref(base + 1), "Resources": {"Font": {"F1": Ref(5), "F2": Ref(9)}}}
        objs[base + 1] = Stream({}, ("BT /%s 10 Tf 20 %d Td <30422192 2191300C 300D3001> Tj ET" % (fnt, 250 - 30 * k)).replace(" 2191", "2191").replace(" 300D", "300D").encode())
    pool["type0-horizontal-and-vertical-same-collection"] = build(objs, 1)
    # state that must not leak from page to page: an unbalanced q on page 1, Q first on page 2; text state set on page 1 only
    pool["unbalanced-q-across-pages"] = three_pages(t1(Name("WinAnsiEncoding")), None, ("(ABC) Tj", "(BCA) Tj", "(CAB) Tj"),
                                                    ("2 0 0 2 7 7 cm q 3 0 0 3 0 0 cm 5 Tc 50 Tz", "Q", "Q Q"))
    return pool


def page_sig(page):
    lay = real_module("pdfminer.layout")
    out = []

    def walk(o):
        if isinstance(o, lay.LTChar):
            out.append((o.get_text(), o.fontname, tuple(round(v, 4) for v in o.bbox), round(o.adv, 4)))
        elif isinstance(o, lay.LTAnno):
            out.append(o.get_text())
        elif isinstance(o, lay.LTContainer):
            out.append(type(o).__name__)
            for x in o:
                walk(x)
        else:
            out.append((type(o).__name__, tuple(round(v, 4) for v in getattr(o, "bbox", ()))))
    walk(page)
    return repr(out)


def extract_sigs(data, caching=True, page_numbers=None):
    import io
    hl = real_module("pdfminer.high_level")
    return [page_sig(p) for p in hl.extract_pages(io.BytesIO(data), caching=caching, page_numbers=page_numbers)]


_BASELINE_SCRIPT = r'''
import sys, json, hashlib
sys.path.insert(0, %(verif)r); sys.path.insert(0, %(repo)r)
import os
os.environ["PYVC_REPO"] = %(repo)r
from contracts.c12_purity import doc_pool, extract_sigs
pool = doc_pool()
name = sys.argv[1]
pages = [int(x) for x in sys.argv[2].split(",")] if len(sys.argv) > 2 and sys.argv[2] else None
print(json.dumps(extract_sigs(pool[name], page_numbers=pages)))
'''


@bounded("call-histories-interleavings-caching-and-page-subsets", props=["C12"],
         bound="pool of 13 three-page documents sharing object numbers, font name and encodings (WinAnsi with/without Differences, unknown base encoding with "
               "Differences, implicit Standard, MacRoman with Differences, two standard-14 Helvetica fonts (implicit encoding / Differences) whose width table is the shared FONT_METRICS entry, direct (unnumbered) fonts of one resource name that differ from page to page, Type0 with predefined CMap H, two Type0 fonts sharing one descendant, a horizontal and a vertical font of one character collection, Type0 with an embedded encoding CMap (pdfminer looks such a CMap up by name only: nothing decodes, but the lookup path runs), unbalanced q / text "
               "state across pages). Reference = each document extracted alone in a fresh interpreter process (all pages, and its middle page alone in another fresh process: both must agree). quick: 60 random call histories of length 2..6, all "
               "ordered pairs interleaved page by page, caching off, every single page and page pair extracted separately, the same document three times; thorough: 6000 histories")
def _(tier, seed):
    import io, json, random, subprocess, sys, itertools
    rng = random.Random(seed + 12)
    pool = doc_pool()
    names = sorted(pool)
    failures, evals, kinds = [], 0, set()
    verif = os.path.dirname(os.path.dirname(os.path.abspath(__file__)))
    base = {}
    for nm in names:
        r = subprocess.run([sys.executable, "-c", _BASELINE_SCRIPT % dict(verif=verif, repo=REPO), nm], capture_output=True, text=True, timeout=300)
        if r.returncode != 0:
            return dict(evaluations=0, distinct=0, failures=[dict(stage="baseline", document=nm, error=r.stderr[-600:])])
        base[nm] = json.loads(r.stdout.strip().splitlines()[-1])
        # the middle page alone, again in a fresh process: a process-wide cache filled by page 1 must not change page 2
        r = subprocess.run([sys.executable, "-c", _BASELINE_SCRIPT % dict(verif=verif, repo=REPO), nm, "1"], capture_output=True, text=True, timeout=300)
        if r.returncode != 0:
            return dict(evaluations=0, distinct=0, failures=[dict(stage="baseline", document=nm, error=r.stderr[-600:])])
        alone = json.loads(r.stdout.strip().splitlines()[-1])
        if alone != base[nm][1:2]:
            return dict(evaluations=1, distinct=1, failures=[dict(scenario="fresh-process: page 2 alone vs page 2 after page 1", document=nm,
                                                                 alone=alone[0][:300] if alone else None, after_page_1=base[nm][1][:300])])
    hl = real_module("pdfminer.high_level")

    def check(kind, nm, got, history):
        nonlocal evals
        evals += 1
        kinds.add(kind)
        if got != base[nm]:
            bad = [k for k in range(max(len(got), len(base[nm]))) if k >= len(got) or k >= len(base[nm]) or got[k] != base[nm][k]]
            failures.append(dict(scenario=kind, document=nm, history=history, pages_differing=bad, got=(got[bad[0]] if bad[0] < len(got) else None)[:300] if bad else None,
                                 alone_in_fresh_process=(base[nm][bad[0]] if bad and bad[0] < len(base[nm]) else None)[:300] if bad else None))
        return len(failures) >= 3
    # 1. repetition and histories
    for nm in names:
        for rep in range(3):
            if check("repeat", nm, extract_sigs(pool[nm]), [nm] * (rep + 1)):
                return dict(evaluations=evals, distinct=len(kinds), failures=failures)
    for it in range(60 if tier == "quick" else 6000):
        hist = [rng.choice(names) for _ in range(rng.randint(2, 6))]
        for k, nm in enumerate(hist):
            got = extract_sigs(pool[nm], caching=rng.random() < .8)
            if k == len(hist) - 1 or rng.random() < .3:
                if check("history", nm, got, hist[:k + 1]):
                    return dict(evaluations=evals, distinct=len(kinds), failures=failures)
    # 2. interleaved page iterators
    for a, b in itertools.permutations(names, 2):
        ia, ib = hl.extract_pages(io.BytesIO(pool[a])), hl.extract_pages(io.BytesIO(pool[b]))
        ga, gb = [], []
        for _k in range(3):
            ga.append(page_sig(next(ia))); gb.append(page_sig(next(ib)))
        if check("interleaved", a, ga, [a + "|" + b]) or check("interleaved", b, gb, [a + "|" + b]):
            return dict(evaluations=evals, distinct=len(kinds), failures=failures)
    # 3. caching off, page subsets
    for nm in names:
        if check("caching-off", nm, extract_sigs(pool[nm], caching=False), [nm]):
            break
        for sub in ([0], [1], [2], [0, 2], [1, 2]):
            got = extract_sigs(pool[nm], page_numbers=sub)
            evals += 1
            kinds.add("page-subset")
            want = [base[nm][k] for k in sub]
            if got != want:
                failures.append(dict(scenario="page-subset", document=nm, pages=sub, got=got[0][:300], with_all_pages=want[0][:300]))
                if len(failures) >= 3:
                    return dict(evaluations=evals, distinct=len(kinds), failures=failures)
    # 4. extract_text and the XML converter repeat themselves (string outputs)
    for nm in names:
        t1_, t2_ = hl.extract_text(io.BytesIO(pool[nm])), hl.extract_text(io.BytesIO(pool[nm]))
        x = []
        for _ in range(2):
            fp = io.BytesIO()
            hl.extract_text_to_fp(io.BytesIO(pool[nm]), fp, output_type="xml", codec="utf-8")
            x.append(fp.getvalue())
        evals += 2
        kinds.add("string-outputs")
        if t1_ != t2_ or x[0] != x[1]:
            failures.append(dict(scenario="string-outputs", document=nm, text_equal=t1_ == t2_, xml_equal=x[0] == x[1]))
    return dict(evaluations=evals, distinct=len(kinds), failures=failures[:3])


# -- parsed document objects (what the object cache holds) are not written by the code that reads them -------------------------------------------------
DOC_SOURCES = ("dict_value", "resolve1", "list_value", "stream_value", "resolve_all")


def stores_into_parsed_objects():
    """statements that store into (or call a mutator on) a value obtained from dict_value / resolve1 / list_value / stream_value / resolve_all - directly or
    through a local name - without a copy in between.  Such a store edits the object the document's cache hands to every later reader."""
    out = []
    for fn, path in _package_files():
        tree = ast.parse(open(path).read())
        for f in ast.walk(tree):
            if not isinstance(f, ast.FunctionDef):
                continue
            aliases = set()

            def from_doc(e):
                if isinstance(e, ast.Call):
                    g = e.func
                    nm = g.id if isinstance(g, ast.Name) else g.attr if isinstance(g, ast.Attribute) else None
                    if nm in DOC_SOURCES:
                        return True
                    if nm in FRESH_CALLS:
                        return False
                    if nm in ("get", "__getitem__") and isinstance(g, ast.Attribute):
                        return from_doc(g.value)
                    return False
                if isinstance(e, ast.Subscript):
                    return from_doc(e.value)
                if isinstance(e, ast.Name):
                    return e.id in aliases
                if isinstance(e, ast.IfExp):
                    return from_doc(e.body) or from_doc(e.orelse)
                if isinstance(e, ast.BoolOp):
                    return any(from_doc(v) for v in e.values)
                return False

            def scan(stmts):
                for s in stmts:
                    for t in (s.targets if isinstance(s, (ast.Assign, ast.Delete)) else [s.target] if isinstance(s, (ast.AugAssign, ast.AnnAssign)) else []):
                        if isinstance(t, ast.Subscript) and from_doc(t.value):
                            out.append((fn, f.name, s.lineno, ast.unparse(t)[:70]))
                    if not isinstance(s, (ast.If, ast.For, ast.While, ast.Try, ast.With)):
                        for c_ in ast.walk(s):
                            if isinstance(c_, ast.Call) and isinstance(c_.func, ast.Attribute) and c_.func.attr in MUTATORS and c_.func.attr != "write" and from_doc(c_.func.value):
                                out.append((fn, f.name, c_.lineno, ast.unparse(c_)[:70]))
                    if isinstance(s, ast.Assign) and len(s.targets) == 1 and isinstance(s.targets[0], ast.Name):
                        (aliases.add if from_doc(s.value) else aliases.discard)(s.targets[0].id)
                    for blk in ("body", "orelse", "finalbody"):
                        sub = getattr(s, blk, None)
                        if isinstance(sub, list) and sub and isinstance(sub[0], ast.stmt) and not isinstance(s, (ast.FunctionDef, ast.ClassDef)):
                            scan(sub)
                    for h in getattr(s, "handlers", []) or []:
                        scan(h.body)
            scan(f.body)
    return out


@exhaustive("inventory-of-stores-into-parsed-objects", props=["C12"],
            note="AST scan of pdfminer/*.py: no statement stores into a value obtained from dict_value/resolve1/list_value/stream_value/resolve_all (directly or through a local "
                 "name) without a copy in between; resolve_all and decipher_all, which edit their own argument by design, are under contract above")
def _():
    hits = stores_into_parsed_objects()
    return dict(cases=sum(1 for _ in _package_files()), failures=[dict(file=f, function=fu, line=ln, store=tx) for f, fu, ln, tx in hits][:5])


# get_font on a composite font: the descendant font dictionary taken from the document is left as it was
_cid = stub("pdfminer.pdffont:PDFCIDFont.__init__", ["self", "rsrcmgr", "spec", "strict"])
_cid.defaults["strict"] = False
c = contract("pdfminer.pdfinterp:PDFResourceManager.get_font#type0", props=["C12", "C07"])
c.modname, c.qualname = "pdfminer.pdfinterp", "PDFResourceManager.get_font"
c.param("self", _Fonts()).param("objid", T.OneOf(None, 7)).param("spec", T.Const("spec"))
c.skip_cross = True
c.mod("self._cached_fonts")


def _wire_type0(bound, ghosts):
    LIT = ps.LIT
    desc = {"Type": LIT("Font"), "Subtype": LIT("CIDFontType2"), "BaseFont": LIT("Comp")}
    bound["spec"] = {"Type": LIT("Font"), "Subtype": LIT("Type0"), "DescendantFonts": [desc], "Encoding": LIT("Identity-H"), "ToUnicode": "tounicode-stream"}
    ghosts["_desc"] = desc


c.wire = _wire_type0
c.stubs = {"pdfminer.pdffont:PDFCIDFont.__init__": _cid}
c.returns(T.Opaque("font"))
c.ens("descendant-dictionary-of-the-document-untouched-the-font-sees-a-private-copy-with-the-parent's-encoding", lambda spec, _desc, trace: And(
    sorted(_desc) == ["BaseFont", "Subtype", "Type"], spec["DescendantFonts"][0] is _desc,
    len(trace) == 1, trace[0][1]["spec"] is not _desc, sorted(trace[0][1]["spec"]) == ["BaseFont", "Encoding", "Subtype", "ToUnicode", "Type"],
    trace[0][1]["spec"]["ToUnicode"] == "tounicode-stream"))


# -- attributes that hold a process-wide object (a shared encoding table, a cached CMap, the built-in metrics) are only read ----------------------------
SHARED_RETURNING = ("get_encoding", "get_cmap", "get_unicode_map", "get_metrics")


def stores_through_shared_attributes():
    """(1) collect the attribute names that somewhere in the package are assigned the result of a function that may hand out a process-wide object
    (EncodingDB.get_encoding without Differences returns the class's own table; CMapDB.get_cmap / get_unicode_map return cached maps; FontMetricsDB.get_metrics
    the built-in tables); (2) report every store or mutating call through such an attribute, anywhere in the package."""
    attrs = set()
    trees = []
    for fn, path in _package_files():
        tree = ast.parse(open(path).read())
        trees.append((fn, tree))
        for n in ast.walk(tree):
            if isinstance(n, (ast.Assign, ast.AnnAssign)):
                v = n.value
                if isinstance(v, ast.Call) and isinstance(v.func, ast.Attribute) and v.func.attr in SHARED_RETURNING:
                    for t in (n.targets if isinstance(n, ast.Assign) else [n.target]):
                        for el in (t.elts if isinstance(t, ast.Tuple) else [t]):
                            if isinstance(el, ast.Attribute):
                                attrs.add(el.attr)
    # (1b) the same through local names and constructor parameters: `(d, w) = FontMetricsDB.get_metrics(..)`, `widths = cast(.., w)`,
    # `PDFSimpleFont.__init__(self, d, widths, spec)`, `PDFFont.__init__(self, descriptor, widths)`, `self.widths = resolve_all(widths)`
    # (resolve_all hands a dict argument back).  Fixpoint over (class, parameter position of __init__) pairs.
    PASS_THROUGH = ("cast", "resolve_all", "resolve1", "dict_value")
    inits = {}
    for fn, tree in trees:
        for cl in ast.walk(tree):
            if isinstance(cl, ast.ClassDef):
                for f in cl.body:
                    if isinstance(f, ast.FunctionDef) and f.name == "__init__":
                        inits[cl.name] = (f, [b.id for b in cl.bases if isinstance(b, ast.Name)])
    shared_params = set()          # (class name, parameter name)

    def carries(e, names):
        if isinstance(e, ast.Name):
            return e.id in names
        if isinstance(e, ast.Call):
            g = e.func
            nm = g.id if isinstance(g, ast.Name) else g.attr if isinstance(g, ast.Attribute) else None
            if nm in SHARED_RETURNING:
                return True
            if nm in PASS_THROUGH and e.args:
                return carries(e.args[-1] if nm == "cast" else e.args[0], names)
        return False
    changed = True
    while changed:
        changed = False
        for fn, tree in trees:
            for cl in ast.walk(tree):
                if not isinstance(cl, ast.ClassDef):
                    continue
                for f in cl.body:
                    if not isinstance(f, ast.FunctionDef):
                        continue
                    names = {pn for (cn, pn) in shared_params if cn == cl.name} if f.name == "__init__" else set()
                    for _round in range(3):
                        for n in ast.walk(f):
                            if isinstance(n, (ast.Assign, ast.AnnAssign)) and n.value is not None and carries(n.value, names):
                                for t in (n.targets if isinstance(n, ast.Assign) else [n.target]):
                                    for el in (t.elts if isinstance(t, ast.Tuple) else [t]):
                                        if isinstance(el, ast.Name):
                                            names.add(el.id)
                                        elif isinstance(el, ast.Attribute) and el.attr not in attrs:
                                            attrs.add(el.attr)
                                            changed = True
                    for n in ast.walk(f):
                        if isinstance(n, ast.Call) and isinstance(n.func, ast.Attribute) and n.func.attr == "__init__":
                            v = n.func.value
                            if isinstance(v, ast.Name) and v.id in inits:
                                target, args = v.id, n.args[1:]
                            elif isinstance(v, ast.Call) and isinstance(v.func, ast.Name) and v.func.id == "super":
                                bases = [b for b in inits.get(cl.name, (None, []))[1] if b in inits]
                                if not bases:
                                    continue
                                target, args = bases[0], n.args
                            else:
                                continue
                            params = [a.arg for a in inits[target][0].args.args][1:]
                            for k, a in enumerate(args):
                                if k < len(params) and carries(a, names) and (target, params[k]) not in shared_params:
                                    shared_params.add((target, params[k]))
                                    changed = True
    out = []
    for fn, tree in trees:
        for f in ast.walk(tree):
            if not isinstance(f, ast.FunctionDef):
                continue
            for n in ast.walk(f):
                tg = n.targets if isinstance(n, (ast.Assign, ast.Delete)) else [n.target] if isinstance(n, (ast.AugAssign, ast.AnnAssign)) else []
                for t in tg:
                    if isinstance(t, ast.Subscript) and isinstance(t.value, ast.Attribute) and t.value.attr in attrs:
                        out.append((fn, f.name, n.lineno, ast.unparse(t)[:70]))
                if isinstance(n, ast.Call) and isinstance(n.func, ast.Attribute) and n.func.attr in MUTATORS and n.func.attr != "write" \
                        and isinstance(n.func.value, ast.Attribute) and n.func.value.attr in attrs:
                    out.append((fn, f.name, n.lineno, ast.unparse(n)[:70]))
    return sorted(attrs), out


SHARED_ATTR_WRITERS_ALLOWED = {
    ("cmapdb.py", "do_keyword", "self.cmap.use_cmap(CMapDB.get_cmap(literal_name(cmapname)))"): "not a store: use_cmap copies the cached map into the parser's own map (contract above)",
}


@exhaustive("inventory-of-stores-through-attributes-holding-shared-objects", props=["C12"],
            note="AST scan: attributes ever assigned from EncodingDB.get_encoding / CMapDB.get_cmap / get_unicode_map / FontMetricsDB.get_metrics (cid2unicode, cmap, "
                 "unicode_map, ...) - directly, or through local names, cast/resolve_all and constructor parameters (descriptor, widths of a standard-14 font) - are never stored into or mutated through, anywhere in the package")
def _():
    attrs, hits = stores_through_shared_attributes()
    fails = [dict(file=f, function=fu, line=ln, store=tx, attribute_may_hold="a process-wide table or cached map") for f, fu, ln, tx in hits
             if (f, fu, tx) not in SHARED_ATTR_WRITERS_ALLOWED]
    return dict(cases=len(attrs) + sum(1 for _ in _package_files()), failures=fails[:5], notes=["attributes tracked: %s" % ", ".join(attrs)])


# -- extract_pages (C12: fresh managers per call; C11/C04: option plumbing): one new resource manager (with the caller's caching flag), one new aggregator and one
#    new interpreter per call; every selected page is processed once, in order, and its layout is handed out right after; the options reach get_pages unchanged ----
hlv = real_module("pdfminer.high_level")
_HL = {}
for _k, _ps in (("pdfminer.utils:open_filename.__init__", ["self", "filename", "mode"]), ("pdfminer.pdfinterp:PDFResourceManager.__init__", ["self", "caching"]),
                ("pdfminer.converter:PDFPageAggregator.__init__", ["self", "rsrcmgr", "pageno", "laparams"]), ("pdfminer.pdfinterp:PDFPageInterpreter.__init__", ["self", "rsrcmgr", "device"]),
                ("pdfminer.pdfinterp:PDFPageInterpreter.process_page", ["self", "page"]), ("pdfminer.converter:PDFPageAggregator.get_result", ["self"]),
                ("pdfminer.pdfpage:PDFPage.get_pages", ["cls", "fp", "pagenos", "maxpages", "password", "caching", "check_extractable"]),
                ("pdfminer.layout:LAParams.__init__", ["self"])):
    _HL[_k] = stub(_k, _ps)
_HL["pdfminer.utils:open_filename.__init__"].effect = lambda I, bound: bound["self"].f.update(file_handler="the-open-file", closing=False)
_HL["pdfminer.pdfpage:PDFPage.get_pages"].result_fn = ("pages", lambda fp: ["page-1", "page-2", "page-3"])
_HL["pdfminer.converter:PDFPageAggregator.get_result"].result_fn = ("layout", lambda self: ("layout-of", self.f.setdefault("_n", [0]).__setitem__(0, self.f["_n"][0] + 1) or self.f["_n"][0]))
_HL["pdfminer.pdfpage:PDFPage.get_pages"].defaults = {"pagenos": None, "maxpages": 0, "password": "", "caching": True, "check_extractable": False}
_HL["pdfminer.converter:PDFPageAggregator.__init__"].defaults = {"pageno": 1, "laparams": None}
_HL["pdfminer.pdfinterp:PDFResourceManager.__init__"].defaults = {"caching": True}
for _lapk in ("laparams-given", "laparams-default"):
    c = contract("pdfminer.high_level:extract_pages#%s" % _lapk, props=["C12", "C11", "C04"])
    c.param("pdf_file", T.Const("the-input")).param("password", T.OneOf("", "secret")).param("page_numbers", T.OneOf(None, (0, 2))).param("maxpages", T.OneOf(0, 2))
    c.param("caching", T.Bool()).param("laparams", T.Const("the-laparams") if _lapk == "laparams-given" else T.Const(None))
    c.skip_cross = True
    c.stubs = _HL
    c.returns(T.Opaque("layouts"))

    def _ep_spec(pdf_file, password, page_numbers, maxpages, caching, laparams, result, trace, _lapk):  # noqa: E306
        t = [(n.split(":")[-1], b) for n, b in trace]
        names = [n for n, _ in t]
        lap_calls = [b for n, b in t if n == "LAParams.__init__"]
        if (_lapk == "laparams-default") != (len(lap_calls) == 1):
            return False
        names = [n for n in names if n != "LAParams.__init__"]
        if names[:4] != ["open_filename.__init__", "PDFResourceManager.__init__", "PDFPageAggregator.__init__", "PDFPageInterpreter.__init__"]:
            return False
        by = {n: b for n, b in t}
        rm, dev, itp = by["PDFResourceManager.__init__"]["self"], by["PDFPageAggregator.__init__"]["self"], by["PDFPageInterpreter.__init__"]["self"]
        if by["open_filename.__init__"]["filename"] != pdf_file or by["PDFPageAggregator.__init__"]["rsrcmgr"] is not rm:
            return False
        if by["PDFPageInterpreter.__init__"]["rsrcmgr"] is not rm or by["PDFPageInterpreter.__init__"]["device"] is not dev:
            return False
        if _lapk == "laparams-given" and by["PDFPageAggregator.__init__"]["laparams"] != "the-laparams":
            return False
        if _lapk == "laparams-default" and by["PDFPageAggregator.__init__"]["laparams"] is not lap_calls[0]["self"]:
            return False
        gp = by["PDFPage.get_pages"]
        if gp["fp"] != "the-open-file" or gp["pagenos"] != page_numbers or gp["maxpages"] != maxpages or gp["password"] != password:
            return False
        rest = names[5:]
        if rest != ["PDFPageInterpreter.process_page", "PDFPageAggregator.get_result"] * 3:
            return False
        pages = [b["page"] for n, b in t if n == "PDFPageInterpreter.process_page"]
        if pages != ["page-1", "page-2", "page-3"] or list(result) != [("layout-of", 1), ("layout-of", 2), ("layout-of", 3)]:
            return False
        return And(Iff(by["PDFResourceManager.__init__"]["caching"], caching), Iff(gp["caching"], caching))
    c.ens("fresh-manager-aggregator-interpreter-options-forwarded-each-page-processed-once-in-order",
          (lambda k, f: lambda pdf_file, password, page_numbers, maxpages, caching, laparams, result, trace: f(pdf_file, password, page_numbers, maxpages, caching, laparams, result, trace, k))(_lapk, _ep_spec))


# -- extract_text: as extract_pages, with a text converter writing into a private string sink whose contents are returned ---------------------------------------
_HL2 = dict(_HL)
_HL2["pdfminer.converter:TextConverter.__init__"] = stub("pdfminer.converter:TextConverter.__init__", ["self", "rsrcmgr", "outfp", "codec", "pageno", "laparams", "showpageno", "imagewriter"])
_HL2["pdfminer.converter:TextConverter.__init__"].defaults = {"codec": "utf-8", "pageno": 1, "laparams": None, "showpageno": False, "imagewriter": None}
for _lapk in ("laparams-given", "laparams-default"):
    c = contract("pdfminer.high_level:extract_text#%s" % _lapk, props=["C12", "C11"])
    c.param("pdf_file", T.Const("the-input")).param("password", T.OneOf("", "secret")).param("page_numbers", T.OneOf(None, (0, 2))).param("maxpages", T.OneOf(0, 2))
    c.param("caching", T.Bool()).param("codec", T.OneOf("utf-8", "latin-1")).param("laparams", T.Const("the-laparams") if _lapk == "laparams-given" else T.Const(None))
    c.skip_cross = True
    c.stubs = _HL2
    c.returns(T.Opaque("text"))

    def _et_spec(pdf_file, password, page_numbers, maxpages, caching, codec, laparams, result, trace, _lapk):  # noqa: E306
        t = [(n.split(":")[-1], b) for n, b in trace]
        lap_calls = [b for n, b in t if n == "LAParams.__init__"]
        if (_lapk == "laparams-default") != (len(lap_calls) == 1):
            return False
        names = [n for n, _ in t if n != "LAParams.__init__"]
        if names != ["open_filename.__init__", "PDFResourceManager.__init__", "TextConverter.__init__", "PDFPageInterpreter.__init__", "PDFPage.get_pages"] + ["PDFPageInterpreter.process_page"] * 3:
            return False
        by = {n: b for n, b in t}
        rm, dev = by["PDFResourceManager.__init__"]["self"], by["TextConverter.__init__"]["self"]
        tc, gp = by["TextConverter.__init__"], by["PDFPage.get_pages"]
        sink = tc["outfp"]
        if tc["rsrcmgr"] is not rm or tc["codec"] != codec or tc["imagewriter"] is not None or by["PDFPageInterpreter.__init__"]["rsrcmgr"] is not rm or by["PDFPageInterpreter.__init__"]["device"] is not dev:
            return False
        if (tc["laparams"] != "the-laparams") if _lapk == "laparams-given" else (tc["laparams"] is not lap_calls[0]["self"]):
            return False
        if not (isinstance(result, tuple) and result[0] == "text-written-to" and result[1] is sink):
            return False
        if gp["fp"] != "the-open-file" or gp["pagenos"] != page_numbers or gp["maxpages"] != maxpages or gp["password"] != password:
            return False
        if [b["page"] for n, b in t if n == "PDFPageInterpreter.process_page"] != ["page-1", "page-2", "page-3"]:
            return False
        return And(Iff(by["PDFResourceManager.__init__"]["caching"], caching), Iff(gp["caching"], caching))
    c.ens("fresh-manager-converter-on-a-private-sink-options-forwarded-pages-in-order-sink-contents-returned",
          (lambda k, f: lambda pdf_file, password, page_numbers, maxpages, caching, codec, laparams, result, trace: f(pdf_file, password, page_numbers, maxpages, caching, codec, laparams, result, trace, k))(_lapk, _et_spec))


# -- extract_text_to_fp (text and xml): converter class by output_type, the caller's sink, codec, laparams, strip_control; an image writer only when an output
#    directory is given; caching = not disable_caching for manager and pages; each page's rotation is increased by `rotation` (mod 360) before it is processed;
#    the converter is closed at the end; an unknown output type is an error -----------------------------------------------------------------------------------
_HL3 = dict(_HL2)
_HL3["pdfminer.converter:XMLConverter.__init__"] = stub("pdfminer.converter:XMLConverter.__init__", ["self", "rsrcmgr", "outfp", "codec", "pageno", "laparams", "imagewriter", "stripcontrol"])
_HL3["pdfminer.converter:XMLConverter.__init__"].defaults = {"codec": "utf-8", "pageno": 1, "laparams": None, "imagewriter": None, "stripcontrol": False}
_HL3["pdfminer.image:ImageWriter.__init__"] = stub("pdfminer.image:ImageWriter.__init__", ["self", "outdir"])
for _cls in ("TextConverter", "XMLConverter", "PDFConverter"):
    _HL3["pdfminer.converter:%s.close" % _cls] = stub("pdfminer.converter:%s.close" % _cls, ["self"])
_HL3["pdfminer.pdfdevice:PDFDevice.close"] = stub("pdfminer.pdfdevice:PDFDevice.close", ["self"])


def _pages_with_rotation(I, bound):
    pass


class _RotPages(T.Sort):
    def fresh(self, ctx, name):
        rots = [T.Int(0, 359).fresh(ctx, "rotate%d" % k) for k in range(2)]
        return [SObj(None, {"rotate": r, "_tag": "page-%d" % (k + 1), "_rot0": r}, "page%d" % k) for k, r in enumerate(rots)]
    def sample(self, rng):
        return None
    def from_model(self, ev, v):
        return [p.f["_tag"] for p in v]


_gp3 = stub("pdfminer.pdfpage:PDFPage.get_pages", ["cls", "fp", "pagenos", "maxpages", "password", "caching", "check_extractable"])
_gp3.defaults = {"pagenos": None, "maxpages": 0, "password": "", "caching": True, "check_extractable": False}
_gp3.result_fn = ("pages", lambda fp: PAGES3[0])
PAGES3 = [None]
_HL3["pdfminer.pdfpage:PDFPage.get_pages"] = _gp3
_pp3 = stub("pdfminer.pdfinterp:PDFPageInterpreter.process_page", ["self", "page"])
_pp3.effect = lambda I, bound: bound["page"].f.__setitem__("_rot_when_processed", bound["page"].f["rotate"])
_HL3["pdfminer.pdfinterp:PDFPageInterpreter.process_page"] = _pp3
c = contract("pdfminer.high_level:extract_text_to_fp", props=["C11", "C12", "C04", "C18"])
c.param("inf", T.Const("the-open-file")).param("outfp", T.Const("the-sink")).param("output_type", T.OneOf("text", "xml", "pdf"))
c.param("codec", T.Const("latin-1")).param("laparams", T.OneOf(None, "the-laparams")).param("maxpages", T.Const(2)).param("page_numbers", T.Const((0, 2)))
c.param("password", T.Const("secret")).param("scale", T.Const(1.0)).param("rotation", T.Int(0, 720)).param("layoutmode", T.Const("normal"))
c.param("output_dir", T.OneOf(None, "", "outdir")).param("strip_control", T.Bool()).param("debug", T.Const(False)).param("disable_caching", T.Bool())
c.ghost("pages", _RotPages())
c.skip_cross = True
c.wire = lambda bound, ghosts: PAGES3.__setitem__(0, ghosts["pages"])
c.stubs = _HL3
c.mod("pages[*]")
c.may_raise(real_module("pdfminer.pdfexceptions").PDFValueError, lambda output_type: output_type == "pdf")


def _etf_spec(outfp, output_type, codec, laparams, maxpages, page_numbers, password, rotation, output_dir, strip_control, disable_caching, pages, trace):
    t = [(n.split(":")[-1], b) for n, b in trace]
    names = [n for n, _ in t]
    conv = {"text": "TextConverter", "xml": "XMLConverter"}[output_type]
    want = (["ImageWriter.__init__"] if output_dir else []) + ["PDFResourceManager.__init__", conv + ".__init__", "PDFPageInterpreter.__init__", "PDFPage.get_pages"] \
        + ["PDFPageInterpreter.process_page"] * 2
    if names[:len(want)] != want or len(names) != len(want) + 1 or not names[-1].endswith(".close"):
        return False
    by = {n: b for n, b in t}
    rm, dev = by["PDFResourceManager.__init__"]["self"], by[conv + ".__init__"]["self"]
    cv, gp = by[conv + ".__init__"], by["PDFPage.get_pages"]
    if cv["rsrcmgr"] is not rm or cv["outfp"] != outfp or cv["codec"] != codec or cv["laparams"] != laparams or t[-1][1]["self"] is not dev:
        return False
    if (cv["imagewriter"] is not by["ImageWriter.__init__"]["self"] or by["ImageWriter.__init__"]["outdir"] != output_dir) if output_dir else (cv["imagewriter"] is not None):
        return False
    if by["PDFPageInterpreter.__init__"]["rsrcmgr"] is not rm or by["PDFPageInterpreter.__init__"]["device"] is not dev:
        return False
    if gp["fp"] != "the-open-file" or gp["pagenos"] != page_numbers or gp["maxpages"] != maxpages or gp["password"] != password:
        return False
    if [b["page"]._tag for n, b in t if n == "PDFPageInterpreter.process_page"] != ["page-1", "page-2"]:
        return False
    conds = [Iff(by["PDFResourceManager.__init__"]["caching"], Not(disable_caching)), Iff(gp["caching"], Not(disable_caching))]
    if output_type == "xml":
        conds.append(Iff(cv["stripcontrol"], strip_control))
    from pyvc.logic import mod as _mod
    for pg in pages:
        conds.append(eq(pg._rot_when_processed, _mod(pg._rot0 + rotation, 360)))
    return And(*conds)


c.ens("converter-by-output-type-options-forwarded-rotation-added-pages-in-order-converter-closed", _etf_spec)
