"""C14 (+ lexical layer of C01) - the tokenizer's scanner functions: total, progressing, position-correct,
and independent of where the buffer is cut."""
import ast
import z3
from pyvc.contracts import contract, fragment, lemma, bounded, exhaustive, scenario, stub, Contract, REGISTRY
from pyvc.logic import And, Or, Not, Implies, Iff, eq, le, lt, If, ne, ForAllInt, any_z3, to_z3
from pyvc import sorts as T
from pyvc.values import SObj, SBytes, SList, SymFn
from pyvc.absval import SFun
from pyvc.extract import real_module
from pyvc.summaries import as_sbytes, sbytes_eq, sbytes_concat

ps = real_module("pdfminer.psparser")
RANK = {"_parse_main": 0, "_parse_comment": 1, "_parse_literal": 1, "_parse_number": 1, "_parse_float": 1, "_parse_keyword": 1,
        "_parse_string": 1, "_parse_hexstring": 1, "_parse_wclose": 1, "_parse_literal_hex": 2, "_parse_string_1": 2,
        "_parse_wopen": 2, "_parse_string_2": 2}


def ln(x):
    return x.n if isinstance(x, (SBytes, SList)) else len(x)


def at(x, k):
    return x.at(k) if hasattr(x, "at") else x[k]


def beq(a, b):
    if isinstance(a, (bytes, bytearray)) and isinstance(b, (bytes, bytearray)):
        return bytes(a) == bytes(b)
    return sbytes_eq(as_sbytes(a), as_sbytes(b))


def bcat(a, b):
    if isinstance(a, (bytes, bytearray)) and isinstance(b, (bytes, bytearray)):
        return bytes(a) + bytes(b)
    return sbytes_concat(as_sbytes(a), as_sbytes(b))


def bslice(s, lo, hi):
    if isinstance(s, (bytes, bytearray)):
        return bytes(s[lo:hi])
    d = to_z3(hi) - to_z3(lo)
    return SBytes(z3.simplify(z3.If(d > 0, d, 0)), lambda k: s.at(lo + k), s.elem_range, s.kind)


def mode(self):
    m = self._parse1
    return getattr(m, "name", None) or getattr(m, "__name__", None)


def _intern_stub():
    c = stub("pdfminer.psparser:PSSymbolTable.intern", ["self", "name"])
    c.result_fn = ("interned", lambda self, name: SObj(self.klass, {"name": name}, "sym"))
    return c


HEXD = lambda c: Or(And(le(48, c), le(c, 57)), And(le(65, c), le(c, 70)), And(le(97, c), le(c, 102)))
OCTD = lambda c: And(le(48, c), le(c, 55))


class Lex(T.Sort):
    """the lexer state sigma = (mode, curtoken, tokpos, queue, paren, oct, hex) plus the window position"""
    def __init__(self, m):
        self.m = m
    def fresh(self, ctx, name):
        cur = T.Bytes().fresh(ctx, "cur")
        o = SObj(ps.PSBaseParser, {"bufpos": T.Int(0).fresh(ctx, "bufpos"), "_curtoken": cur, "_curtokenpos": T.Int(0).fresh(ctx, "tokpos"),
                                   "_tokens": [], "_parse1": None}, name)
        o.f["_parse1"] = SymFn(None, self.m)
        o.f["_parse1"].name = self.m
        if self.m in ("_parse_string", "_parse_string_1", "_parse_string_2"):
            o.f["paren"] = T.Int(1).fresh(ctx, "paren")
        if self.m == "_parse_string_1":
            oc = T.Bytes().fresh(ctx, "oct")
            ctx.assume(z3.And(oc.n >= 0, oc.n <= 3))
            q = z3.Int(ctx.fresh_name("q"))
            ctx.assume(z3.ForAll([q], z3.Implies(z3.And(q >= 0, q < oc.n), to_z3(OCTD(oc.at(q))))))
            o.f["oct"] = oc
        if self.m == "_parse_literal_hex":
            hx = T.Bytes().fresh(ctx, "hex")
            ctx.assume(z3.And(hx.n >= 0, hx.n <= 2))
            q = z3.Int(ctx.fresh_name("q"))
            ctx.assume(z3.ForAll([q], z3.Implies(z3.And(q >= 0, q < hx.n), to_z3(HEXD(hx.at(q))))))
            o.f["hex"] = hx
        return o
    def sample(self, rng):
        return None
    def from_model(self, ev, v):
        cur = v.f["_curtoken"]
        n = max(0, min(64, int(ev(cur.n))))
        d = dict(bufpos=int(ev(v.f["bufpos"])), cur=bytes(int(ev(cur.at(k))) % 256 for k in range(n)).hex(), tokpos=int(ev(v.f["_curtokenpos"])))
        for k in ("oct", "hex"):
            if k in v.f:
                m = max(0, min(4, int(ev(v.f[k].n))))
                d[k] = bytes(int(ev(v.f[k].at(t))) % 256 for t in range(m)).hex()
        if "paren" in v.f:
            d["paren"] = int(ev(v.f["paren"]))
        return d


def scanner(name, extra_mod=()):
    c = contract("pdfminer.psparser:PSBaseParser.%s" % name, props=["C14", "C01"])
    c.param("self", Lex(name)).param("s", T.Bytes(minlen=1)).param("i", T.Int(0))
    c.req("index-inside-buffer", lambda s, i: lt(i, ln(s)))
    c.req("token-started-before-the-cursor", lambda self, i: le(self._curtokenpos, self.bufpos + i) if name != "_parse_main" else True)
    c.abstract_numbers = True
    c.skip_cross = True          # the whole tokenizer is cross-checked natively in the bounded stand-in below
    c.stubs = {"pdfminer.psparser:PSSymbolTable.intern": _intern_stub()}
    for f in ("_curtoken", "_curtokenpos", "_tokens", "_parse1", "paren", "oct", "hex") + tuple(extra_mod):
        c.mod("self." + f)
    c.returns(T.Int())
    c.ens("O2-result-inside-buffer", lambda s, i, result: And(le(i, result), le(result, ln(s))))
    c.ens("O3-progress", lambda self, i, result: Or(lt(i, result), RANK[mode(self)] < RANK[name]))
    c.ens("O5-at-most-one-token", lambda self: len(self._tokens) <= 1)
    c.ens("O4-token-position-inside-consumed-input", lambda self, s, result: (
        And(eq(self._tokens[0][0], self._curtokenpos), le(0, self._tokens[0][0]), lt(self._tokens[0][0], self.bufpos + ln(s)))
        if self._tokens else True))
    c.ens("O4-token-start-never-moves-back", lambda self, old: le(old.self._curtokenpos, self._curtokenpos) if name != "_parse_main" else True)
    c.ens("mode-is-a-scanner", lambda self: mode(self) in RANK)
    # the representation invariant that the digit-collecting states assume on entry is re-established whenever such a state is the next one:
    # at most 3 octal digits in `oct` (so int(oct, 8) cannot fail), at most 2 hexadecimal digits in `hex`
    c.ens("digit-buffer-invariant-of-the-next-state", lambda self: (
        _digits_inv(self.f.get("oct"), OCTD, 3) if mode(self) == "_parse_string_1"
        else _digits_inv(self.f.get("hex"), HEXD, 2) if mode(self) == "_parse_literal_hex" else True))
    # likewise the two other assumptions every scanner makes about the state it is entered in
    c.ens("string-depth-invariant-of-the-next-state", lambda self: (
        (self.f.get("paren") is not None and le(1, self.f.get("paren"))) if mode(self) in ("_parse_string", "_parse_string_1", "_parse_string_2") else True))
    c.ens("token-start-not-after-the-cursor-for-the-next-call", lambda self, result: (
        le(self._curtokenpos, self.bufpos + result) if mode(self) != "_parse_main" else True))
    return c


def _digits_inv(x, pred, maxn):
    if x is None:
        return False
    if isinstance(x, (bytes, bytearray)):
        return len(x) <= maxn and all(bool(pred_concrete(pred, b)) for b in x)
    return And(le(ln(x), maxn), ForAllInt(0, ln(x), lambda t: pred(at(x, t)), "t"))


def pred_concrete(pred, b):
    r = pred(b)
    if isinstance(r, bool):
        return r
    return z3.is_true(z3.simplify(to_z3(r)))


def first_delim(s, i, j, cls):
    """j is the first index >= i whose byte is in the class (cls: predicate on a byte)"""
    return And(le(i, j), lt(j, ln(s)), cls(at(s, j)), ForAllInt(i, j, lambda t: Not(cls(at(s, t))), "t"))


def none_in(s, i, cls):
    return ForAllInt(i, ln(s), lambda t: Not(cls(at(s, t))), "t")


def cls_of(pat):
    from pyvc.methods import pattern_class, byte_class_pred
    pred = byte_class_pred(pattern_class(pat))
    return lambda c: pred(c) if not isinstance(c, int) else bool(pred(c))


# ISO 32000-1 7.2.2: white space = NUL HT LF FF CR SP; delimiters = ( ) < > [ ] { } / %
ISO_WS = [0, 9, 10, 12, 13, 32]
ISO_DELIM = [ord(ch) for ch in "()<>[]{}/%"]
iso_end = lambda c: Or(*[eq(c, v) for v in ISO_WS + ISO_DELIM])

c = scanner("_parse_main")
c.ens("token-starts-at-first-non-white-byte", lambda self, s, i, result, old: Or(
    And(eq(result, ln(s)), none_in(s, i, cls_of(ps.NONSPC)), mode(self) == "_parse_main", len(self._tokens) == 0),
    And(lt(result, ln(s) + 1), first_delim(s, i, result - 1, cls_of(ps.NONSPC)),
        Or(eq(self._curtokenpos, self.bufpos + result - 1), eq(at(s, result - 1), 0)))))

c = scanner("_parse_comment")
c = scanner("_parse_literal")
c.ens("name-runs-to-the-first-delimiter", lambda self, s, i, result, old: Or(
    And(eq(result, ln(s)), none_in(s, i, cls_of(ps.END_LITERAL)), mode(self) == "_parse_literal", len(self._tokens) == 0,
        beq(self._curtoken, bcat(old.self._curtoken, bslice(s, i, ln(s))))),
    And(mode(self) == "_parse_literal_hex", first_delim(s, i, result - 1, cls_of(ps.END_LITERAL)), eq(at(s, result - 1), 35),
        beq(self._curtoken, bcat(old.self._curtoken, bslice(s, i, result - 1))), eq(ln(self.hex), 0) if mode(self) == "_parse_literal_hex" else True,
        len(self._tokens) == 0),
    And(mode(self) == "_parse_main", first_delim(s, i, result, cls_of(ps.END_LITERAL)), ne(at(s, result), 35), len(self._tokens) == 1,
        lambda: _lit_token_is(self._tokens[0][1], bcat(old.self._curtoken, bslice(s, i, result))))))
c.ens("ISO-delimiters-and-white-space-end-a-name", lambda s: ForAllInt(0, 256, lambda b: Implies(iso_end(b), cls_of(ps.END_LITERAL)(b))))


def _lit_token_is(tok, content):
    """the token is the literal whose name is the utf-8 decoding of `content`, or the raw bytes when undecodable"""
    if not isinstance(tok, SObj) or tok.cls is not ps.PSLiteral:
        return False
    nm = tok.f["name"]
    if isinstance(nm, SFun) and nm.name == "str":
        return beq(nm.args[0], content)
    return beq(nm, content)


c = scanner("_parse_literal_hex")
c.ens("two-hex-digits-make-one-byte", lambda self, s, i, result, old: If(
    And(HEXD(at(s, i)), lt(ln(old.self.hex), 2)),
    And(eq(result, i + 1), mode(self) == "_parse_literal_hex", eq(ln(self.hex), ln(old.self.hex) + 1),
        eq(at(self.hex, ln(old.self.hex)), at(s, i)), beq(self._curtoken, old.self._curtoken)),
    And(eq(result, i), mode(self) == "_parse_literal",
        If(eq(ln(old.self.hex), 0), beq(self._curtoken, old.self._curtoken),
           And(eq(ln(self._curtoken), ln(old.self._curtoken) + 1),
               eq(at(self._curtoken, ln(old.self._curtoken)), _hexval(old.self.hex)))))))


def _hv(c):
    return If(le(c, 57), c - 48, If(le(c, 70), c - 55, c - 87))


def _hexval(h):
    return If(eq(ln(h), 1), _hv(at(h, 0)), _hv(at(h, 0)) * 16 + _hv(at(h, 1)))


c = scanner("_parse_number")
c = scanner("_parse_float")
c = scanner("_parse_keyword")
c.ens("ISO-delimiters-and-white-space-end-a-keyword", lambda s: ForAllInt(0, 256, lambda b: Implies(iso_end(b), cls_of(ps.END_KEYWORD)(b))))
c = scanner("_parse_string")
c.ens("balanced-parentheses-are-data", lambda self, s, i, result, old: Or(
    And(eq(result, ln(s)), none_in(s, i, cls_of(ps.END_STRING)), mode(self) == "_parse_string"),
    And(first_delim(s, i, result - 1, cls_of(ps.END_STRING)),
        If(eq(at(s, result - 1), 92), And(mode(self) == "_parse_string_1", eq(self.paren, old.self.paren)),
           If(eq(at(s, result - 1), 40), And(mode(self) == "_parse_string", eq(self.paren, old.self.paren + 1), len(self._tokens) == 0),
              If(eq(old.self.paren, 1), And(mode(self) == "_parse_main", len(self._tokens) == 1,
                                            lambda: beq(self._tokens[0][1], bcat(old.self._curtoken, bslice(s, i, result - 1)))),
                 And(mode(self) == "_parse_string", eq(self.paren, old.self.paren - 1), len(self._tokens) == 0)))))))
c.ens("string-state-invariant", lambda self: le(1, self.paren) if mode(self) in ("_parse_string", "_parse_string_1", "_parse_string_2") else True)
c = scanner("_parse_string_1")
c = scanner("_parse_string_2")
c.ens("skips-only-the-LF-of-a-CRLF-continuation", lambda self, s, i, result, old: And(
    mode(self) == "_parse_string", eq(result, If(eq(at(s, i), 10), i + 1, i)), beq(self._curtoken, old.self._curtoken)))
c = scanner("_parse_wopen")
c = scanner("_parse_wclose")
c = scanner("_parse_hexstring")


@exhaustive("hex-string-bytes-are-digits-or-white-space", props=["C14", "C01"],
            note="every byte that does not end a hex string is removed by SPC or is a hex digit, so int(pair, 16) cannot fail (256-entry check on the real compiled patterns)")
def _():
    fails = []
    for b in range(256):
        ch = bytes([b])
        if not ps.END_HEX_STRING.match(ch):
            if not (ps.SPC.match(ch) or ps.HEX.match(ch)):
                fails.append(dict(byte=b))
    return dict(cases=256, failures=fails)


@exhaustive("escape-table-is-ISO-table-3", props=["C01"], note="ESC_STRING against ISO 32000-1 Table 3")
def _():
    iso = {b"n": 10, b"r": 13, b"t": 9, b"b": 8, b"f": 12, b"(": 40, b")": 41, b"\\": 92}
    fails = [] if dict(ps.ESC_STRING) == iso else [dict(table={k.decode(): v for k, v in ps.ESC_STRING.items()})]
    return dict(cases=8, failures=fails)


# -- O6: the result does not depend on where the buffer is cut ---------------------------------------------------------
class LexPair(T.Sort):
    """two lexers in the same state (b is the one that will see the input in two pieces)"""
    def __init__(self, m):
        self.m = m
    def fresh(self, ctx, name):
        a = Lex(self.m).fresh(ctx, "a")
        b = SObj(a.cls, dict(a.f), "b")
        b.f["_tokens"] = []
        pa, pb = SymFn(None, self.m), SymFn(None, self.m)
        pa.name = pb.name = self.m
        a.f["_parse1"], b.f["_parse1"] = pa, pb
        return (a, b)
    def sample(self, rng):
        return None
    def from_model(self, ev, v):
        return Lex(self.m).from_model(ev, v[0])


def tok_eq(x, y):
    if isinstance(x, SObj) and isinstance(y, SObj):
        if x.cls is not y.cls:
            return False
        # the name is a function of the accumulated bytes (utf-8 text, or the bytes themselves when undecodable)
        nx, ny = x.f["name"], y.f["name"]
        nx = nx.args[0] if isinstance(nx, SFun) and nx.name == "str" else nx
        ny = ny.args[0] if isinstance(ny, SFun) and ny.name == "str" else ny
        return beq(nx, ny)
    if isinstance(x, SFun) or isinstance(y, SFun):
        return x.__sym_eq__(None, y) if isinstance(x, SFun) and isinstance(y, SFun) else False
    if isinstance(x, bool) or isinstance(y, bool):
        return x is y
    if isinstance(x, (SBytes, bytes)) and isinstance(y, (SBytes, bytes)):
        return beq(x, y)
    return x is y


def lex_eq(a, b):
    cl = [mode(a) == mode(b), beq(a._curtoken, b._curtoken), eq(a._curtokenpos, b._curtokenpos), len(a._tokens) == len(b._tokens)]
    if len(a._tokens) == len(b._tokens):
        for (p1, t1), (p2, t2) in zip(a._tokens, b._tokens):
            cl += [eq(p1, p2), tok_eq(t1, t2)]
    for k in ("paren",):
        if k in a.f or k in b.f:
            cl.append(eq(a.f.get(k), b.f.get(k)) if k in a.f and k in b.f else False)
    for k in ("hex", "oct"):
        if (k in a.f) and (k in b.f) and mode(a) in ("_parse_literal_hex", "_parse_string_1"):
            cl.append(beq(a.f[k], b.f[k]))
    return And(*cl)


def _consistent(ctx):
    """whether int()/float() accept a lexeme is a function of its bytes: both runs make the same decision"""
    log = ctx.choice_log
    return len(set(log)) <= 1


_SEARCHERS = {"_parse_main": ps.NONSPC, "_parse_comment": ps.EOL, "_parse_literal": ps.END_LITERAL, "_parse_number": ps.END_NUMBER,
              "_parse_float": ps.END_NUMBER, "_parse_keyword": ps.END_KEYWORD, "_parse_string": ps.END_STRING, "_parse_hexstring": ps.END_HEX_STRING}
_ONEBYTE = ["_parse_literal_hex", "_parse_string_1", "_parse_string_2", "_parse_wopen", "_parse_wclose"]


def _mk_split(name, kind):
    if kind == "prefix":
        src = '''
def prefix_stable_%s(pair, s, i, k):
    a, b = pair
    r = a.%s(s, i)
    r1 = b.%s(s[:k], i)
    return (r, r1)
''' % (name[1:], name, name)
    else:
        src = '''
def restart_%s(pair, s, i, k):
    a, b = pair
    r = a.%s(s, i)
    r1 = b.%s(s[:k], i)
    b.bufpos += k
    r2 = b.%s(s[k:], 0)
    return (r, r1, r2)
''' % (name[1:], name, name, name)
    c = scenario("pdfminer.psparser", ("prefix_stable_" if kind == "prefix" else "restart_") + name[1:], src, props=["C14", "C01"])
    c.param("pair", LexPair(name)).param("s", T.Bytes(minlen=2)).param("i", T.Int(0)).param("k", T.Int(1))
    c.req("cut-strictly-inside-the-unread-part", lambda s, i, k: And(lt(i, k), lt(k, ln(s))))
    c.req("token-started-before-the-cursor", lambda pair, i: le(pair[0]._curtokenpos, pair[0].bufpos + i) if name != "_parse_main" else True)
    c.abstract_numbers = True
    c.inline_callees = True
    c.skip_cross = True
    c.stubs = {"pdfminer.psparser:PSSymbolTable.intern": _intern_stub()}
    c.mod("pair")
    return c


for _nm, _pat in _SEARCHERS.items():
    c = _mk_split(_nm, "prefix")
    c.ghost("j", T.Int(0))
    c.req("the-scanner-s-delimiter-occurs-before-the-cut", (lambda pat: lambda s, i, k, j: And(le(i, j), lt(j, k), cls_of(pat)(at(s, j))))(_pat))
    c.ens("P1-call-on-the-prefix-window-is-the-same-call", lambda pair, result, ctx: Implies(
        _consistent(ctx), lambda: And(eq(result[0], result[1]), lex_eq(pair[0], pair[1]))))
    c = _mk_split(_nm, "restart")
    c.req("no-delimiter-before-the-cut", (lambda pat: lambda s, i, k: ForAllInt(i, k, lambda t: Not(cls_of(pat)(at(s, t))), "t"))(_pat))
    c.ens("P2-first-piece-consumed-whole-then-restart-reaches-the-same-state", lambda pair, k, result, ctx: Implies(
        _consistent(ctx), lambda: And(eq(result[1], k), eq(result[0], k + result[2]), lex_eq(pair[0], pair[1]))))

for _nm in _ONEBYTE:
    c = _mk_split(_nm, "prefix")
    c.ens("P1-reads-only-the-current-byte", lambda pair, result: And(eq(result[0], result[1]), lex_eq(pair[0], pair[1])))


def _sample_regex(pat, rng):
    """a byte string matched by the (bytes) pattern, drawn with a small generator over CPython's own parse of it; None when a construct is not handled"""
    try:
        import re._parser as sp
        import re._constants as sc
    except ImportError:                      # Python < 3.11
        import sre_parse as sp
        import sre_constants as sc

    def gen(items):
        out = b""
        for op, av in items:
            op = str(op)
            if op == "LITERAL":
                out += bytes((av,))
            elif op == "NOT_LITERAL":
                out += bytes((rng.choice([c for c in b"aZ0 (/" if c != av]),))
            elif op == "ANY":
                out += bytes((rng.choice(b"a0 /"),))
            elif op == "IN":
                neg = av and str(av[0][0]) == "NEGATE"
                members = []
                for o2, a2 in av:
                    o2 = str(o2)
                    if o2 == "LITERAL":
                        members.append(a2)
                    elif o2 == "RANGE":
                        members += [a2[0], a2[1], (a2[0] + a2[1]) // 2]
                    elif o2 == "CATEGORY":
                        cat = str(a2)
                        members += list({"CATEGORY_DIGIT": b"059", "CATEGORY_SPACE": b" \n\r\t", "CATEGORY_WORD": b"aZ_0",
                                         "CATEGORY_NOT_SPACE": b"a0/(", "CATEGORY_NOT_DIGIT": b"a /", "CATEGORY_NOT_WORD": b" /("}.get(cat, b"a"))
                if neg:
                    members = [c for c in b"aZ09 /()<>[]{}%#\\.+-" if c not in members] or [ord("a")]
                out += bytes((rng.choice(members),))
            elif op in ("MAX_REPEAT", "MIN_REPEAT"):
                lo, hi, sub = av
                for _ in range(rng.randint(lo, min(max(lo, 1) + 1, hi if isinstance(hi, int) and hi < 100 else lo + 2))):
                    out += gen(sub)
            elif op == "SUBPATTERN":
                out += gen(av[-1])
            elif op == "BRANCH":
                out += gen(rng.choice(av[1]))
            elif op == "AT":
                pass
            elif op == "CATEGORY":
                out += bytes((rng.choice({"CATEGORY_DIGIT": b"059", "CATEGORY_SPACE": b" \n\r"}.get(str(av), b"a")),))
            else:
                raise ValueError(op)
        return out
    try:
        return gen(sp.parse(pat))
    except Exception:  # noqa: BLE001
        return None


def source_derived_fragments(rng):
    """regular-expression literals of pdfminer/psparser.py in the working tree -> sampled matches, embedded next to token starts"""
    import ast as _ast
    import os as _os
    from pyvc.extract import REPO as _REPO
    tree = _ast.parse(open(_os.path.join(_REPO, "pdfminer", "psparser.py")).read())
    pats = []
    for n in _ast.walk(tree):
        if isinstance(n, _ast.Call) and isinstance(n.func, _ast.Attribute) and n.func.attr in ("compile", "match", "search", "sub", "fullmatch") \
                and isinstance(n.func.value, _ast.Name) and n.func.value.id == "re" and n.args and isinstance(n.args[0], _ast.Constant) and isinstance(n.args[0].value, bytes):
            pats.append(n.args[0].value)
    out = []
    for pat in sorted(set(pats)):
        for _ in range(4):
            smp = _sample_regex(pat, rng)
            if not smp:
                continue
            for pre in (b"", b"1", b"12.5", b"-.5", b"/a", b"(a", b"<4", b"a"):
                for post in (b"", b" ", b"1 ", b")", b">"):
                    out.append(pre + smp + post)
    return out


@bounded("all-strings-over-lexical-alphabet-all-buffer-sizes", props=["C14"],
         bound="quick: every byte string of length <= 4 over a 17-letter alphabet with one representative per lexical class (83k strings at BUFSIZ 4096, a seeded 6% of them also at BUFSIZ 1,2,3,5) plus samples of every regular-expression literal of psparser.py next to token starts at BUFSIZ 1,2,3,5, plus 1500 random strings of length <= 40; thorough: length <= 5 and all of BUFSIZ 1..7")
def _(tier, seed):
    import io, itertools, random
    rng = random.Random(seed + 14)
    PS = real_module("pdfminer.psparser")
    alpha = [b"a", b"1", b".", b"-", b" ", b"\n", b"\r", b"\x00", b"/", b"#", b"%", b"(", b")", b"\\", b"<", b">", b"7"]
    saved = PS.PSBaseParser.BUFSIZ

    def run(data, bs):
        PS.PSBaseParser.BUFSIZ = bs
        p = PS.PSBaseParser(io.BytesIO(data))
        out = []
        for _ in range(4 * len(data) + 8):
            try:
                out.append(p.nexttoken())
            except PS.PSEOF:
                return out, None
            except Exception as e:  # noqa: BLE001
                return out, "%s: %s" % (type(e).__name__, e)
        return out, "no termination within %d tokens" % (4 * len(data) + 8)

    def norm(toks):
        return [(pos, (type(t).__name__, getattr(t, "name", t))) for pos, t in toks]

    failures, evals, distinct = [], 0, 0
    L_ = 4 if tier == "quick" else 5
    sizes = [1, 2, 3, 5] if tier == "quick" else [1, 2, 3, 4, 5, 6, 7]
    try:
        def check(data, all_sizes):
            nonlocal evals
            ref, err = run(data, 4096)
            evals += 1
            bad = None
            if err:
                bad = dict(data=data.hex(), bufsiz=4096, error=err)
            else:
                pos = [p for p, _t in ref]
                if pos != sorted(pos) or any(not (0 <= p < len(data)) for p in pos):
                    bad = dict(data=data.hex(), bufsiz=4096, error="positions not non-decreasing inside the input", tokens=str(norm(ref)))
            if not bad and all_sizes:
                for bs in sizes:
                    got, err2 = run(data, bs)
                    evals += 1
                    if err2 or norm(got) != norm(ref):
                        bad = dict(data=data.hex(), bufsiz=bs, error=err2, tokens=str(norm(got))[:300], reference=str(norm(ref))[:300])
                        break
            if bad:
                failures.append(bad)
        for n in range(0, L_ + 1):
            for tup in itertools.product(alpha, repeat=n):
                distinct += 1
                check(b"".join(tup), n <= 3 or rng.random() < 0.06)
                if len(failures) >= 3:
                    raise StopIteration
        # two-byte constructs that a buffer cut can split: raw CR LF inside a string, escapes, hex pairs, name escapes, >> and <<
        for frag in (b"(\r\n)", b"(a\r\nb)", b"(\r\r\n\n)", b"(a\\\r\nb)", b"(\\053)", b"(\\5)", b"<41 4>", b"<4\n1>", b"/A#41#4", b"/#412", b"<<>>", b"<< >>", b"[<<>>]", b"%c\r1", b"%c\r\n1",
                     b"1.5e", b"-.5", b"+", b"-", b"(()\\))", b"/a/b", b"true[false]",
                     # a number followed directly by regular characters that other syntaxes read as part of it (exponents, second sign or point, radix)
                     b"12.5e3", b"1.0E-3", b".5e+2", b"1e5", b"1.5e-", b"1.5E+(", b"1.5.5", b"1-2", b"+1+2", b"16#FF", b"1.5e3e4", b"0x1F"):
            distinct += 1
            check(frag, True)
            check(b" " + frag + b" ", True)
            if len(failures) >= 3:
                raise StopIteration
        # syntax the scanner's own source mentions: every regular expression literal in psparser.py (read from the working tree) is sampled and the samples are
        # put behind / in front of the starts of a number, a name, a string and a hex string, at every buffer size - so a pattern that is added or widened
        # (an exponent, a radix, a new escape) is exercised across buffer cuts even when the contracts on its function can no longer be decided
        for frag in source_derived_fragments(rng):
            distinct += 1
            check(frag, True)
            if len(failures) >= 3:
                raise StopIteration
        for _ in range(1500 if tier == "quick" else 30000):
            data = b"".join(rng.choice(alpha + [b"true", b"(a\\\r\nb)", b"<4 1>", b"/A#41", b"\\053", b"12.5"]) for _k in range(rng.randint(1, 12)))
            distinct += 1
            check(data, True)
            if len(failures) >= 3:
                break
    except StopIteration:
        pass
    finally:
        PS.PSBaseParser.BUFSIZ = saved
    return dict(evaluations=evals, distinct=distinct, failures=failures[:3])
