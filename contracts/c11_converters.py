"""C11 - converters: the text output is the tree's text; the XML output is well-formed and faithful; sinks and codecs."""
import ast
import z3
from pyvc.contracts import contract, fragment, lemma, bounded, exhaustive, scenario, stub, REGISTRY
from pyvc.logic import And, Or, Not, Implies, Iff, eq, le, lt, If, ne
from pyvc import sorts as T
from pyvc.values import SObj
from pyvc.extract import real_module

conv = real_module("pdfminer.converter")
lay = real_module("pdfminer.layout")
ut = real_module("pdfminer.utils")

XML_SPECIAL = '<&"'


def tree_text(item):
    """the reference reading of the hierarchy (property C11): leaves in order, a line break after each text box"""
    out = []

    def walk(o):
        if isinstance(o, lay.LTContainer):
            for ch in o:
                walk(ch)
        elif isinstance(o, lay.LTText):
            out.append(o.get_text())
        if isinstance(o, lay.LTTextBox):
            out.append("\n")
    walk(item)
    return "".join(out)


def xml_tree(node):
    """(tag, attrs, children | text) of a parsed element, white-space-only text between elements dropped"""
    kids = []
    for ch in node.childNodes:
        if ch.nodeType == ch.ELEMENT_NODE:
            kids.append(xml_tree(ch))
        elif ch.nodeType in (ch.TEXT_NODE, ch.CDATA_SECTION_NODE) and node.tagName == "text":
            kids.append(ch.data)
    return (node.tagName, dict(node.attributes.items()), kids)


def expected_xml(item, imagewriter=False, stripcontrol=False):
    """what the XML must contain for a layout item: same hierarchy, boxes, fonts, sizes, character data"""
    import re
    b = lambda bb: "%.3f,%.3f,%.3f,%.3f" % tuple(bb)          # the documented attribute format, written out here (not the library's own helper)
    if isinstance(item, lay.LTPage):
        kids = [expected_xml(c_, imagewriter, stripcontrol) for c_ in item]
        if item.groups is not None:
            def grp(g):
                if isinstance(g, lay.LTTextBox):
                    return ("textbox", {"id": str(g.index), "bbox": b(g.bbox)}, [])
                return ("textgroup", {"bbox": b(g.bbox)}, [grp(x) for x in g])
            kids.append(("layout", {}, [grp(g) for g in item.groups]))
        return ("page", {"id": str(item.pageid), "bbox": b(item.bbox), "rotate": "%d" % item.rotate}, kids)
    if isinstance(item, lay.LTLine):
        return ("line", {"linewidth": "%d" % item.linewidth, "bbox": b(item.bbox)}, [])
    if isinstance(item, lay.LTRect):
        return ("rect", {"linewidth": "%d" % item.linewidth, "bbox": b(item.bbox)}, [])
    if isinstance(item, lay.LTCurve):
        return ("curve", {"linewidth": "%d" % item.linewidth, "bbox": b(item.bbox), "pts": ",".join("%.3f,%.3f" % (px, py) for px, py in item.pts)}, [])
    if isinstance(item, lay.LTFigure):
        return ("figure", {"name": item.name, "bbox": b(item.bbox)}, [expected_xml(c_, imagewriter, stripcontrol) for c_ in item])
    if isinstance(item, lay.LTTextLine):
        return ("textline", {"bbox": b(item.bbox)}, [expected_xml(c_, imagewriter, stripcontrol) for c_ in item])
    if isinstance(item, lay.LTTextBox):
        at = {"id": str(item.index), "bbox": b(item.bbox)}
        if isinstance(item, lay.LTTextBoxVertical):
            at["wmode"] = "vertical"
        return ("textbox", at, [expected_xml(c_, imagewriter, stripcontrol) for c_ in item])
    if isinstance(item, lay.LTChar):
        t = item.get_text()
        if stripcontrol:
            t = re.sub("[\x00-\x08\x0b-\x0c\x0e-\x1f]", "", t)
        return ("text", {"font": item.fontname, "bbox": b(item.bbox), "colourspace": item.ncs.name, "ncolour": str(item.graphicstate.ncolor),
                         "size": "%.3f" % item.size}, [t] if t else [])
    if isinstance(item, lay.LTText):
        t = item.get_text()
        return ("text", {}, [t] if t.strip() or t else [])
    if isinstance(item, lay.LTImage):
        return ("image", {"width": "%d" % item.width, "height": "%d" % item.height}, [])
    raise AssertionError(item)


def norm_tree(t):
    """XML parsers normalise line ends in character data and white space in attribute values: compare modulo that"""
    tag, at, kids = t
    at = {k: " ".join(v.replace("\r", " ").replace("\n", " ").replace("\t", " ").split(" ")) if False else v.replace("\r\n", " ").replace("\r", " ").replace("\n", " ").replace("\t", " ") for k, v in at.items()}
    out = []
    for k in kids:
        if isinstance(k, str):
            k = k.replace("\r\n", "\n").replace("\r", "\n")
            if out and isinstance(out[-1], str):
                out[-1] += k
            else:
                out.append(k)
        else:
            out.append(norm_tree(k))
    return (tag, at, out)


HOSTILE_NAMES = ['a"b', "a<b", "a&b", "a'b", "x\"><y z=\"", "&amp;", "]]>", "a>b", "caf\xe9", "n\x01m"]
HOSTILE_TEXT = ["<", "&", '"', ">", "'", "\x01", "\x0b", "\x7f", "\xe9", "A", "\x00", "\x08", "\x0c", "\x0e", "\x1f", "\x1e"]


def gen_doc(rng):
    """one page with text in a font whose name, glyph text (via ToUnicode-less Differences? no: latin-1 codes), XObject names and colour-space names
    are drawn from hostile alphabets; returns the PDF bytes"""
    from specs.pdfgen import build, Name, Ref, Stream, simple_font, Raw
    fontbase = rng.choice(["Helvetica", "Custom"] + HOSTILE_NAMES)
    objs = {}
    # the glyph codes are latin-1 bytes; a ToUnicode map turns some of them into hostile characters
    codes = [rng.choice([65, 66, 67, 32, 60, 38, 34, 39, 62, 233]) for _ in range(rng.randint(1, 6))]
    tomap = {}
    if rng.random() < .6:
        for c_ in set(codes):
            if rng.random() < .5:
                tomap[c_] = rng.choice(HOSTILE_TEXT)
    font = simple_font(widths=[500] * 224, first=32, base=fontbase)
    if tomap:
        bf = "\n".join("<%02X> <%s>" % (c_, "".join("%04X" % ord(ch) for ch in t)) for c_, t in sorted(tomap.items()))
        cmap = ("/CIDInit /ProcSet findresource begin 12 dict begin begincmap /CMapName /X def 1 begincodespacerange <00> <FF> endcodespacerange "
                "%d beginbfchar\n%s\nendbfchar endcmap end end" % (len(tomap), bf))
        objs[6] = Stream({}, cmap.encode())
        font["ToUnicode"] = Ref(6)
    objs[5] = font
    xname = rng.choice(["Fm0"] + HOSTILE_NAMES)
    csname = rng.choice(["CS0"] + HOSTILE_NAMES[:8])
    form = Stream({"Type": Name("XObject"), "Subtype": Name("Form"), "BBox": [0, 0, 100, 100], "Resources": {"Font": {"F1": Ref(5)}}},
                  b"BT /F1 10 Tf 5 5 Td (" + bytes(rng.choice([65, 66, 60, 38]) for _ in range(2)) + b") Tj ET 0 0 10 10 re f")
    objs[7] = form
    img = Stream({"Type": Name("XObject"), "Subtype": Name("Image"), "Width": 2, "Height": 2, "BitsPerComponent": 8, "ColorSpace": Name("DeviceGray")}, b"\x00\x40\x80\xff")
    objs[8] = img
    iname = rng.choice(["Im0"] + HOSTILE_NAMES[:8])
    res = {"Font": {"F1": Ref(5)}, "XObject": {xname: Ref(7), iname: Ref(8)}, "ColorSpace": {csname: [Name("ICCBased"), Ref(9)]}}
    objs[9] = Stream({"N": 3}, b"")
    from specs.pdfgen import ser
    txt = bytes(codes).replace(b"\\", b"\\\\").replace(b"(", b"\\(").replace(b")", b"\\)")
    # the text starts anywhere, also left of / below the page origin and at fractional positions
    tx, ty = rng.choice([72, 72, -6.5, 0, 1234.125, -0.0004]), rng.choice([700, 700, -3.25, 0.5, 12.0625])
    content = b"q " + ser(Name(csname)) + (" cs 0.1 0.2 0.3 sc BT /F1 12 Tf %s %s Td (" % (tx, ty)).encode() + txt + b") Tj 0 -20 Td (" + txt[::-1] + b") Tj ET Q "
    if rng.random() < .7:
        content += b"q 1 0 0 1 100 100 cm " + ser(Name(xname)) + b" Do Q "
    if rng.random() < .7:
        content += b"q 20 0 0 20 300 300 cm " + ser(Name(iname)) + b" Do Q "
    if rng.random() < .5:
        content += b"BT /F1 12 Tf 400 700 Td (A) Tj 0 -12 Td (B) Tj 0 -12 Td (C) Tj ET "          # a stacked run: a vertical box with detect_vertical
    content += b"10 10 50 20 re S 0 0 m 30 40 l S 0 0 m 10 10 20 20 30 5 c S"
    objs[1] = {"Type": Name("Catalog"), "Pages": Ref(2)}
    objs[2] = {"Type": Name("Pages"), "Kids": [Ref(3)], "Count": 1}
    objs[3] = {"Type": Name("Page"), "Parent": Ref(2), "MediaBox": [0, 0, 612, 792], "Contents": Ref(4), "Resources": res, "Rotate": rng.choice([0, 0, 90])}
    objs[4] = Stream({}, content)
    return build(objs, 1)


@bounded("text-and-xml-output-reproduce-the-layout-tree", props=["C11"],
         bound="quick: 250 generated one-page documents (hostile font, form, image and colour-space names; glyph text mapped to XML-special, control and "
               "non-ASCII characters; form with text and a path; image; line, rect, curve) x LAParams {default, boxes_flow None, all_texts, detect_vertical, no layout} x "
               "{text, xml} x {StringIO, BytesIO with utf-8, latin-1 (text representable) and utf-16} x strip_control; XML parsed with xml.dom.minidom "
               "(expat) and compared element by element with the LTPage tree of extract_pages on the same bytes; thorough: 6000")
def _(tier, seed):
    import io, random
    from xml.dom import minidom
    hl = real_module("pdfminer.high_level")
    rng = random.Random(seed + 11)
    n = 250 if tier == "quick" else 6000
    failures, evals, shapes, known = [], 0, set(), []
    CTRL = set(map(chr, list(range(0, 9)) + [11, 12] + list(range(14, 32))))
    for it in range(n):
        data = gen_doc(rng)
        lp = rng.choice([lay.LAParams(), lay.LAParams(boxes_flow=None), lay.LAParams(all_texts=True), lay.LAParams(detect_vertical=True), None])
        try:
            pages = list(hl.extract_pages(io.BytesIO(data), laparams=lp)) if lp is not None else None
        except Exception as e:  # noqa: BLE001
            failures.append(dict(stage="extract_pages", error="%s: %s" % (type(e).__name__, e), pdf=data.hex()[:3000]))
            break
        for out_type in ("text", "xml"):
            for sink, codec in (("str", None), ("bytes", "utf-8"), ("bytes", "latin-1"), ("bytes", "utf-16")):
                strip = rng.random() < .5
                evals += 1
                shapes.add((out_type, sink, codec, strip, lp is None))
                fp = io.StringIO() if sink == "str" else io.BytesIO()
                problem = None
                try:
                    hl.extract_text_to_fp(io.BytesIO(data), fp, output_type=out_type, codec=codec or ("utf-8" if out_type == "text" else ""), laparams=lp,
                                          strip_control=strip)
                    raw = fp.getvalue()
                    if sink == "bytes":
                        try:
                            got = raw.decode(codec)
                        except UnicodeDecodeError as e:
                            got, problem = None, "output is not %s: %s" % (codec, e)
                    else:
                        got = raw
                    if problem is None and lp is not None:
                        if out_type == "text":
                            want = "".join(tree_text(p) + "\f" for p in pages)
                            if codec == "latin-1":
                                want_l = want.encode("latin-1", "ignore").decode("latin-1")
                                if want_l != want:
                                    want = None          # not representable: outside the property
                            if want is not None and got != want:
                                problem = "text %r, tree %r" % (got[:120], want[:120])
                        else:
                            try:
                                dom = minidom.parseString(raw if sink == "bytes" else got.encode("utf-8").replace(b'<?xml version="1.0" ?>', b'<?xml version="1.0" encoding="utf-8"?>'))
                            except Exception as e:  # noqa: BLE001
                                dom = None
                                problem = "not well-formed: %s" % e
                            if dom is not None:
                                gt = norm_tree(xml_tree(dom.documentElement))
                                wt = norm_tree(("pages", {}, [expected_xml(p, False, strip) for p in pages]))
                                if gt != wt:
                                    problem = "XML tree differs from the layout tree: %s" % first_diff(gt, wt)
                except UnicodeEncodeError:
                    problem = None if codec == "latin-1" else "UnicodeEncodeError with %s" % codec
                except Exception as e:  # noqa: BLE001
                    problem = "%s: %s" % (type(e).__name__, e)
                if problem:
                    # finding F37: C0 control characters cannot be represented in XML 1.0 at all; written raw unless strip_control (names: always)
                    alltext = "".join(tree_text(p) for p in pages) if pages else ""
                    names = []
                    if pages:
                        def coll(o):
                            if isinstance(o, lay.LTChar):
                                names.append(o.fontname); names.append(o.ncs.name)
                            if isinstance(o, lay.LTFigure):
                                names.append(o.name)
                            if isinstance(o, lay.LTContainer):
                                for x in o:
                                    coll(x)
                        for p in pages:
                            coll(p)
                    ctrl = (not strip and any(ch in CTRL for ch in alltext)) or any(ch in CTRL for nm in names for ch in nm)
                    rec = dict(output=out_type, sink=sink, codec=codec, strip_control=strip, laparams=None if lp is None else {k: getattr(lp, k) for k in ("boxes_flow", "all_texts", "detect_vertical")},
                               problem=problem[:400], pdf=data.hex())
                    if out_type == "xml" and ctrl and problem.startswith("not well-formed"):
                        known.append(dict(rec, known="F37", pdf=rec["pdf"][:200]))
                    else:
                        failures.append(rec)
                        if len(failures) >= 3:
                            return dict(evaluations=evals, distinct=len(shapes), failures=failures)
    return dict(evaluations=evals, distinct=len(shapes), failures=(failures + known[:1])[:3], known_F37_count=len(known))


def first_diff(a, b, path="pages"):
    if isinstance(a, str) or isinstance(b, str):
        return "%s: %r vs %r" % (path, a, b) if a != b else None
    if a[0] != b[0]:
        return "%s: element <%s> vs <%s>" % (path, a[0], b[0])
    if a[1] != b[1]:
        ks = [k for k in set(a[1]) | set(b[1]) if a[1].get(k) != b[1].get(k)]
        return "%s/<%s>: attribute %s: %r vs %r" % (path, a[0], ks[0], a[1].get(ks[0]), b[1].get(ks[0]))
    if len(a[2]) != len(b[2]):
        return "%s/<%s>: %d children vs %d: %r vs %r" % (path, a[0], len(a[2]), len(b[2]), [x if isinstance(x, str) else x[0] for x in a[2]][:8], [x if isinstance(x, str) else x[0] for x in b[2]][:8])
    for k, (x, y) in enumerate(zip(a[2], b[2])):
        d = first_diff(x, y, "%s/%s[%d]" % (path, a[0], k))
        if d:
            return d
    return None


# =====================================================================================================================================
# Contracts
# =====================================================================================================================================
import html as _html
from pyvc import builtins_model
from pyvc.summaries import MARKUP_CHARS

_AMP_OK = z3.Function("entity-refs-only", z3.StringSort(), z3.BoolSort())


def _escape_model(I, args, kw, node):
    """html.escape: assumed contract A-ESCAPE - the result has no '<', '>', '"', "'" and every '&' in it starts an entity reference
    (checked for every character in the exhaustive clause below)"""
    x = args[0]
    if isinstance(x, str):
        return _html.escape(x, *args[1:], **kw)
    r = z3.String(I.ctx.fresh_name("escaped"))
    I.ctx.assume(z3.And(_AMP_OK(r), *[z3.Not(z3.Contains(r, z3.StringVal(ch))) for ch in '<>"\'']))
    I.trace.append(("html.escape", {"s": x, "__result__": r}))
    return r


builtins_model.LIB[_html.escape] = _escape_model


def leaves(t):
    if isinstance(t, str):
        return []
    if z3.is_string_value(t):
        return []
    if z3.is_app(t) and t.decl().kind() == z3.Z3_OP_SEQ_CONCAT:
        return [x for ch in t.children() for x in leaves(ch)]
    return [t]


def flat(t):
    if z3.is_app(t) and t.decl().kind() == z3.Z3_OP_SEQ_CONCAT:
        return [x for ch in t.children() for x in flat(ch)]
    return [t]


def markup_safe(text):
    """every interpolated (non-literal) piece of the written text is free of '<' and '"' and contains '&' only in entity references"""
    ls = leaves(text)
    return And(*[And(z3.Not(z3.Contains(p, z3.StringVal("<"))), z3.Not(z3.Contains(p, z3.StringVal('"'))),
                     z3.Or(_AMP_OK(p), z3.Not(z3.Contains(p, z3.StringVal("&"))))) for p in ls])


@exhaustive("enc-escapes-every-character", props=["C11"],
            note="utils.enc on each of the 1 114 112 code points (html.escape works character by character): no raw < > \" ' and & only as the start "
                 "of a reference that html.unescape maps back to the character")
def _():
    fails = []
    for cp in range(0x110000):
        ch = chr(cp)
        e = ut.enc(ch)
        if any(x in e for x in '<>"\'') or ("&" in e and not e.startswith("&")) or _html.unescape(e) != ch and not (0xD800 <= cp <= 0xDFFF or cp in (0, 0xD) or 0x80 <= cp <= 0x9F or 0xFDD0 <= cp <= 0xFDEF or (cp & 0xFFFE) == 0xFFFE or cp < 0x20 or cp == 0x7F):
            fails.append(dict(code_point=cp, got=e))
    return dict(cases=0x110000, failures=fails[:3])


# -- sinks ------------------------------------------------------------------------------------------------------------------------------
class _Sink(T.Sort):
    KINDS = ["binary-mode-file", "text-mode-file", "BytesIO", "StringIO", "TextIOBase", "modeless-object"]
    def fresh(self, ctx, name):
        import io
        k = ctx.choose(self.KINDS, "sink")
        if k == "binary-mode-file":
            o = SObj(None, {"mode": "wb"}, name)
        elif k == "text-mode-file":
            o = SObj(None, {"mode": "w"}, name)
        elif k == "BytesIO":
            o = SObj(io.BytesIO, {}, name)
        elif k == "StringIO":
            o = SObj(io.StringIO, {}, name)
        elif k == "TextIOBase":
            o = SObj(io.TextIOWrapper, {}, name)
        else:
            o = SObj(object, {}, name)
        o.kind = k
        return o
    def sample(self, rng):
        return None
    def from_model(self, ev, v):
        return v.kind


c = contract("pdfminer.converter:PDFConverter._is_binary_stream", props=["C11"])
c.param("outfp", _Sink())
c.skip_cross = True
c.returns(T.Bool())
c.ens("binary-unless-known-to-be-text", lambda outfp, result: result == (outfp.kind not in ("text-mode-file", "StringIO", "TextIOBase")))


def _fp_stub():
    st = stub("sink.write", ["data"])
    return st


class _Out(T.Sort):
    """a sink that records what is written to it"""
    def fresh(self, ctx, name):
        o = SObj(None, {"_written": []}, name)
        from pyvc.values import SymFn
        o.f["write"] = SymFn(lambda I, data, o=o: o.f["_written"].append(data), "write")
        return o
    def sample(self, rng):
        return None
    def from_model(self, ev, v):
        return "sink"


_enc = stub("pdfminer.converter:PDFConverter._encode", ["self", "text", "errors"])
_enc.defaults["errors"] = "strict"
_enc.result_fn = ("encoded", lambda self, text, errors: ("bytes-in-codec", self.codec, text, errors))

c = contract("pdfminer.converter:TextConverter.write_text", props=["C11"])
c.param("self", T.Obj("pdfminer.converter:TextConverter", outfp=_Out(), codec=T.OneOf("utf-8", "latin-1", "utf-16"), outfp_binary=T.Bool())).param("text", T.Str())
c.skip_cross = True
c.stubs = {"pdfminer.converter:PDFConverter._encode": _enc}
c.mod("self.outfp._written")
c.ens("text-sink-gets-the-characters-binary-sink-their-encoding-in-the-requested-codec", lambda self, text: And(
    len(self.outfp._written) == 1,
    Implies(self.outfp_binary, lambda: _is_enc(self.outfp._written[0], self.codec, text)),
    Implies(Not(self.outfp_binary), lambda: _is_text(self.outfp._written[0], text))))


def _is_enc(w, codec, text):
    return isinstance(w, tuple) and w[0] == "bytes-in-codec" and w[1] == codec and (w[2] is text or eq(w[2], text))


def _is_text(w, text):
    return (not isinstance(w, tuple)) and (w is text or eq(w, text))


c = contract("pdfminer.converter:XMLConverter.write", props=["C11"])
c.param("self", T.Obj("pdfminer.converter:XMLConverter", outfp=_Out(), codec=T.OneOf("utf-8", "latin-1", ""))).param("text", T.Str())
c.skip_cross = True
c.stubs = {"pdfminer.converter:PDFConverter._encode": _enc}
c.mod("self.outfp._written")
c.ens("with-a-codec-the-encoded-text-else-the-characters", lambda self, text: And(
    len(self.outfp._written) == 1,
    _is_enc(self.outfp._written[0], self.codec, text) if self.codec else _is_text(self.outfp._written[0], text)))


# character data goes through enc (after the optional control-character filter)
_wr = stub("pdfminer.converter:XMLConverter.write", ["self", "text"])
_wr.req("every-interpolated-piece-is-escaped-or-numeric", lambda text: markup_safe(text))
c = contract("pdfminer.converter:XMLConverter.write_text", props=["C11"])
c.param("self", T.Obj("pdfminer.converter:XMLConverter", stripcontrol=T.Bool())).param("text", T.Str())
c.skip_cross = True
c.inline = True
c.markup_strings = True
c.stubs = {"pdfminer.converter:XMLConverter.write": _wr}
c.ens("exactly-one-write-of-escaped-text", lambda trace: len([1 for n, b in trace if n.endswith("XMLConverter.write")]) == 1)


# -- tree rendering ---------------------------------------------------------------------------------------------------------------------------
class _Tree(T.Sort):
    """a page holding one item of every kind, with symbolic numbers and document-controlled strings:
    page[ line, rect, curve, figure[char], textbox[textline[char, anno]], image ] + layout groups"""
    def fresh(self, ctx, name):
        S = lambda n: z3.String(ctx.fresh_name(n))
        R4 = lambda n: tuple(ctx.fresh_real("%s.%d" % (n, k)) for k in range(4))
        Int = lambda n: ctx.fresh_int(n)

        def char(n):
            return SObj(lay.LTChar, {"fontname": S(n + ".fontname"), "bbox": R4(n + ".bbox"), "ncs": SObj(None, {"name": S(n + ".ncs.name")}, n + ".ncs"),
                                     "graphicstate": SObj(None, {"ncolor": T.Opaque("colour").fresh(ctx, n + ".ncolor")}, n + ".gs"),
                                     "size": ctx.fresh_real(n + ".size"), "_text": S(n + ".text")}, n)
        c_fig, c_line = char("c_fig"), char("c_line")
        anno = SObj(lay.LTAnno, {"_text": "\n"}, "anno")
        tl = SObj(lay.LTTextLineHorizontal, {"bbox": R4("tl.bbox"), "_objs": [c_line, anno]}, "textline")
        vertical = ctx.choose([False, True], "vertical-box")
        tb = SObj(lay.LTTextBoxVertical if vertical else lay.LTTextBoxHorizontal, {"bbox": R4("tb.bbox"), "index": Int("tb.index"), "_objs": [tl]}, "textbox")
        fig = SObj(lay.LTFigure, {"name": S("fig.name"), "bbox": R4("fig.bbox"), "_objs": [c_fig]}, "figure")
        line = SObj(lay.LTLine, {"linewidth": Int("line.lw"), "bbox": R4("line.bbox")}, "line")
        rect = SObj(lay.LTRect, {"linewidth": Int("rect.lw"), "bbox": R4("rect.bbox")}, "rect")
        curve = SObj(lay.LTCurve, {"linewidth": Int("curve.lw"), "bbox": R4("curve.bbox"), "pts": [(ctx.fresh_real("px"), ctx.fresh_real("py")), (ctx.fresh_real("qx"), ctx.fresh_real("qy"))]}, "curve")
        img = SObj(lay.LTImage, {"width": ctx.fresh_real("img.w"), "height": ctx.fresh_real("img.h"), "name": S("img.name")}, "image")
        grp = SObj(lay.LTTextGroupLRTB, {"bbox": R4("grp.bbox"), "_objs": [tb]}, "group")
        grouped = ctx.choose([True, False], "groups")
        page = SObj(lay.LTPage, {"pageid": Int("pageid"), "bbox": R4("page.bbox"), "rotate": Int("rotate"), "groups": [grp] if grouped else None,
                                 "_objs": [line, rect, curve, fig, tb, img]}, name)
        page.parts = dict(c_fig=c_fig, c_line=c_line, anno=anno)
        return page
    def sample(self, rng):
        return None
    def from_model(self, ev, v):
        out = {}
        for nm, ch in v.parts.items():
            if nm.startswith("c_"):
                out[nm] = {k: str(ev(ch.f[k])) for k in ("fontname", "_text")}
                out[nm]["ncs.name"] = str(ev(ch.f["ncs"].f["name"]))
        for o in v.f["_objs"]:
            if o.name == "figure":
                out["figure.name"] = str(ev(o.f["name"]))
        return out


c = contract("pdfminer.converter:XMLConverter.receive_layout", props=["C11"])
c.param("self", T.Obj("pdfminer.converter:XMLConverter", imagewriter=T.Const(None), stripcontrol=T.Bool())).param("ltpage", _Tree())
c.skip_cross = True
c.markup_strings = True
c.stubs = {"pdfminer.converter:XMLConverter.write": _wr}


def _xml_shape(trace):
    """the sequence of written templates with interpolations blanked: must be the element structure of the tree"""
    out = []
    for n, b in trace:
        if not n.endswith("XMLConverter.write"):
            continue
        t = b["text"]
        if isinstance(t, str):
            out.append(t)
        else:
            out.append("".join(p.as_string() if z3.is_string_value(p) else "{}" for p in flat(t)))
    return out


def _want_shape(page):
    vertical = page.f["_objs"][4].cls is lay.LTTextBoxVertical
    w = ['<page id="{}" bbox="{},{},{},{}" rotate="{}">\n',
         '<line linewidth="{}" bbox="{},{},{},{}" />\n', '<rect linewidth="{}" bbox="{},{},{},{}" />\n', '<curve linewidth="{}" bbox="{},{},{},{}" pts="{},{},{},{}"/>\n',
         '<figure name="{}" bbox="{},{},{},{}">\n', '<text font="{}" bbox="{},{},{},{}" colourspace="{}" ncolour="{}" size="{}">', "{}", "</text>\n", "</figure>\n",
         '<textbox id="{}" bbox="{},{},{},{}"%s>\n' % (' wmode="vertical"' if vertical else ""), '<textline bbox="{},{},{},{}">\n',
         '<text font="{}" bbox="{},{},{},{}" colourspace="{}" ncolour="{}" size="{}">', "{}", "</text>\n", "<text>\n</text>\n", "</textline>\n", "</textbox>\n",
         '<image width="{}" height="{}" />\n']
    if page.f["groups"] is not None:
        w += ["<layout>\n", '<textgroup bbox="{},{},{},{}">\n', '<textbox id="{}" bbox="{},{},{},{}" />\n', "</textgroup>\n", "</layout>\n"]
    return w + ["</page>\n"]


c.ens("elements-mirror-the-tree-in-order", lambda ltpage, trace: _xml_shape(trace) == _want_shape(ltpage))
c.ens("character-data-is-the-glyph-text-escaped", lambda ltpage, trace: _chardata_ok(ltpage, trace))


def _chardata_ok(page, trace):
    """each glyph's character data is enc(text) (or enc of the control-filtered text): read from the html.escape calls"""
    esc = [b for n, b in trace if n == "html.escape"]
    texts = [page.parts["c_fig"].f["_text"], page.parts["c_line"].f["_text"]]
    names = [page.parts[k].f[f] if f != "ncs" else page.parts[k].f["ncs"].f["name"] for k in ("c_fig", "c_line") for f in ("fontname", "ncs")]
    seen = [b["s"] for b in esc]
    # every document-controlled string reaches the output through html.escape
    def through(v):
        return any((s is v) or (L_is(s) and L_is(v) and s.eq(v)) for s in seen)
    return all(through(n_) for n_ in names) and through(page.f["_objs"][3].f["name"]) and (len(esc) >= 9)


def L_is(x):
    return isinstance(x, z3.ExprRef)


# the plain-text rendering: leaves in order, a line break after each text box, a form feed after the page
_wt = stub("pdfminer.converter:TextConverter.write_text", ["self", "text"])
c = contract("pdfminer.converter:TextConverter.receive_layout", props=["C11"])
c.param("self", T.Obj("pdfminer.converter:TextConverter", imagewriter=T.Const(None), showpageno=T.OneOf(False, True))).param("ltpage", _Tree())
c.skip_cross = True
c.markup_strings = True
c.stubs = {"pdfminer.converter:TextConverter.write_text": _wt}


DEBUG = False


def _text_trace_ok(self, page, trace):
    got = [b["text"] for n, b in trace if n.endswith("TextConverter.write_text")]
    cf, cl = page.parts["c_fig"].f["_text"], page.parts["c_line"].f["_text"]
    want = [cf, cl, "\n", "\n", "\f"]          # figure glyph, line glyph, the line's own break, the break after the box, the form feed
    if self.showpageno:
        if DEBUG:
            print("GOT", got)
        if not got or isinstance(got[0], str) or _xml_shape([("XMLConverter.write", {"text": got[0]})]) != ["Page {}\n"]:
            return False
        got = got[1:]
    return len(got) == len(want) and all((g is w) or (isinstance(g, str) and g == w) or (L_is(g) and L_is(w) and g.eq(w)) for g, w in zip(got, want))


c.ens("text-is-the-in-order-concatenation-with-box-breaks-and-form-feed", lambda self, ltpage, trace: _text_trace_ok(self, ltpage, trace))


# -- every piece of output is encoded by ONE incremental encoder of the requested codec, whatever the text is ----------------------------------------
import codecs as _codecs


def _getinc_model(I, args, kw, node):
    codec = args[0]
    I.trace.append(("codecs.getincrementalencoder", {"codec": codec}))

    def factory(I2, errors="strict"):
        enc = SObj(None, {"_codec": codec, "_errors": errors, "_fed": []}, "encoder")
        from pyvc.values import SymFn
        enc.f["encode"] = SymFn(lambda I3, text, enc=enc: (enc.f["_fed"].append(text), ("bytes-of", len(enc.f["_fed"])))[1], "encode")
        I2.trace.append(("encoder-created", {"codec": codec, "errors": errors, "encoder": enc}))
        return enc
    from pyvc.values import SymFn
    return SymFn(factory, "IncrementalEncoder")


builtins_model.LIB[_codecs.getincrementalencoder] = _getinc_model

sc = scenario("pdfminer.converter", "one-encoder-for-the-whole-output", """
def encode_three_pieces(conv, a, b, c):
    x = conv._encode(a)
    y = conv._encode(b)
    z = conv._encode(c)
    return (x, y, z, conv._encoder)
""", props=["C11"])
sc.param("conv", T.Obj("pdfminer.converter:PDFConverter", codec=T.OneOf("utf-8", "utf-16", "latin-1"), _encoder=T.Const(None)))
sc.param("a", T.Str()).param("b", T.Str()).param("c", T.Str())
sc.skip_cross = True
sc.inline_callees = True
sc.mod("conv._encoder")
sc.returns(T.Opaque("tuple"))
def _one_encoder(conv, a, b, c, result, trace):
    names = [n for n, _b in trace]
    if names != ["codecs.getincrementalencoder", "encoder-created"] or trace[0][1]["codec"] != conv.codec:
        return False
    enc = trace[1][1]["encoder"]
    if not (isinstance(result, tuple) and len(result) == 4 and result[3] is enc and len(enc.f["_fed"]) == 3):
        return False
    fed = enc.f["_fed"]
    return fed[0] is a and fed[1] is b and fed[2] is c and tuple(result[:3]) == (("bytes-of", 1), ("bytes-of", 2), ("bytes-of", 3))


sc.ens("every-piece-whatever-its-characters-goes-through-the-single-encoder-of-the-requested-codec", _one_encoder)



@exhaustive("strip-control-removes-every-forbidden-control-character", props=["C11"],
            note="the real XMLConverter.write_text with stripcontrol=True on each of the first 65 536 code points (one at a time, and inside 'a?b'): the written "
                 "character data contains no C0 control character other than TAB, LF, CR, and every other character survives (escaped)")
def _():
    import io
    fails = []
    forbidden = set(range(0, 9)) | {11, 12} | set(range(14, 32))
    rs = real_module("pdfminer.pdfinterp").PDFResourceManager()
    for cp in range(0x10000):
        if 0xD800 <= cp <= 0xDFFF:
            continue
        out = io.StringIO()
        cv = conv.XMLConverter(rs, out, codec="", stripcontrol=True)
        start = len(out.getvalue())
        cv.write_text("a" + chr(cp) + "b")
        got = out.getvalue()[start:]
        want = "ab" if cp in forbidden else "a" + _html.escape(chr(cp)) + "b"
        if got != want:
            fails.append(dict(code_point=cp, got=got, want=want))
            if len(fails) >= 3:
                break
    return dict(cases=0x10000 - 2048, failures=fails)


# -- converter constructors (C11: "a binary sink with any codec ... yields the same characters" rests on the codec and the sink kind reaching the writer) -------
_la_init = stub("pdfminer.converter:PDFLayoutAnalyzer.__init__", ["self", "rsrcmgr", "pageno", "laparams"])
_la_init.defaults = {"pageno": 1, "laparams": None}
_isbin = stub("pdfminer.converter:PDFConverter._is_binary_stream", ["outfp"], T.Bool())
c = contract("pdfminer.converter:PDFConverter.__init__", props=["C11"])
c.param("self", T.Obj("pdfminer.converter:PDFConverter")).param("rsrcmgr", T.Const("rm")).param("outfp", T.Const("the-sink")).param("codec", T.OneOf("utf-8", "latin-1", "utf-16", None))
c.param("pageno", T.OneOf(1, 7)).param("laparams", T.OneOf(None, "the-laparams"))
c.skip_cross = True
c.inline = True
c.stubs = {"pdfminer.converter:PDFLayoutAnalyzer.__init__": _la_init, "pdfminer.converter:PDFConverter._is_binary_stream": _isbin}
c.mod("self.*")
c.ens("sink-codec-and-sink-kind-stored-page-number-and-layout-parameters-handed-to-the-analyzer-no-encoder-yet", lambda self, outfp, codec, pageno, laparams, trace: (
    len(trace) == 2 and trace[0][0].endswith("PDFLayoutAnalyzer.__init__") and trace[0][1]["rsrcmgr"] == "rm" and trace[0][1]["pageno"] == pageno
    and trace[0][1]["laparams"] == laparams and trace[1][0].endswith("_is_binary_stream") and trace[1][1]["outfp"] == outfp
    and self.outfp == outfp and self.codec == codec and self._encoder is None) and Iff(self.outfp_binary, trace[1][1]["__result__"]))

_pc_init = stub("pdfminer.converter:PDFConverter.__init__", ["self", "rsrcmgr", "outfp", "codec", "pageno", "laparams"])
_pc_init.defaults = {"codec": "utf-8", "pageno": 1, "laparams": None}
c = contract("pdfminer.converter:TextConverter.__init__", props=["C11"])
c.param("self", T.Obj("pdfminer.converter:TextConverter")).param("rsrcmgr", T.Const("rm")).param("outfp", T.Const("the-sink")).param("codec", T.OneOf("utf-8", "latin-1", "utf-16"))
c.param("pageno", T.OneOf(1, 7)).param("laparams", T.OneOf(None, "the-laparams")).param("showpageno", T.Bool()).param("imagewriter", T.OneOf(None, "the-image-writer"))
c.skip_cross = True
c.inline = True
c.stubs = {"pdfminer.converter:PDFConverter.__init__": _pc_init}
c.mod("self.*")
c.ens("every-argument-reaches-the-base-class-or-its-own-attribute", lambda self, rsrcmgr, outfp, codec, pageno, laparams, showpageno, imagewriter, trace: (
    len(trace) == 1 and trace[0][1]["rsrcmgr"] == rsrcmgr and trace[0][1]["outfp"] == outfp and trace[0][1]["codec"] == codec and trace[0][1]["pageno"] == pageno
    and trace[0][1]["laparams"] == laparams and self.imagewriter == imagewriter) and Iff(self.showpageno, showpageno))


def _pc_effect(I, bound):
    bound["self"].f.update(codec=bound["codec"], outfp=bound["outfp"], outfp_binary=I.ghosts["binary"])


_pc_init2 = stub("pdfminer.converter:PDFConverter.__init__", ["self", "rsrcmgr", "outfp", "codec", "pageno", "laparams"])
_pc_init2.defaults = {"codec": "utf-8", "pageno": 1, "laparams": None}
_pc_init2.effect = _pc_effect
_wh = stub("pdfminer.converter:XMLConverter.write_header", ["self"])
c = contract("pdfminer.converter:XMLConverter.__init__", props=["C11"])
c.param("self", T.Obj("pdfminer.converter:XMLConverter")).param("rsrcmgr", T.Const("rm")).param("outfp", T.Const("the-sink")).param("codec", T.OneOf("utf-8", "utf-16", None, ""))
c.param("pageno", T.OneOf(1, 7)).param("laparams", T.OneOf(None, "the-laparams")).param("imagewriter", T.OneOf(None, "the-image-writer")).param("stripcontrol", T.Bool())
c.ghost("binary", T.OneOf(True, False))
c.skip_cross = True
c.inline = True
c.stubs = {"pdfminer.converter:PDFConverter.__init__": _pc_init2, "pdfminer.converter:XMLConverter.write_header": _wh}
c.mod("self.*")
c.may_raise(real_module("pdfminer.pdfexceptions").PDFValueError, lambda codec, binary: binary == (not codec))
c.ens("arguments-forwarded-binary-sink-needs-a-codec-text-sink-none-header-written-last", lambda self, rsrcmgr, outfp, codec, pageno, laparams, imagewriter, stripcontrol, trace: (
    len(trace) == 2 and trace[0][1]["outfp"] == outfp and trace[0][1]["codec"] == codec and trace[0][1]["pageno"] == pageno and trace[0][1]["laparams"] == laparams
    and trace[1][0].endswith("write_header") and self.imagewriter == imagewriter) and Iff(self.stripcontrol, stripcontrol))

_dev_init = stub("pdfminer.pdfdevice:PDFDevice.__init__", ["self", "rsrcmgr"])
c = contract("pdfminer.converter:PDFLayoutAnalyzer.__init__", props=["C11", "C08"])
c.param("self", T.Obj("pdfminer.converter:PDFLayoutAnalyzer")).param("rsrcmgr", T.Const("rm")).param("pageno", T.OneOf(1, 7)).param("laparams", T.OneOf(None, "the-laparams"))
c.skip_cross = True
c.inline = True
c.stubs = {"pdfminer.pdfdevice:PDFDevice.__init__": _dev_init, "pdfminer.pdfdevice:PDFTextDevice.__init__": _dev_init}
c.mod("self.*")
c.ens("page-number-layout-parameters-stored-empty-figure-stack", lambda self, pageno, laparams, trace: (
    len(trace) == 1 and trace[0][1]["rsrcmgr"] == "rm" and self.pageno == pageno and self.laparams == laparams and self._stack == []))

_la_init2 = stub("pdfminer.converter:PDFLayoutAnalyzer.__init__", ["self", "rsrcmgr", "pageno", "laparams"])
_la_init2.defaults = {"pageno": 1, "laparams": None}
c = contract("pdfminer.converter:PDFPageAggregator.__init__", props=["C11", "C08", "C12"])
c.param("self", T.Obj("pdfminer.converter:PDFPageAggregator")).param("rsrcmgr", T.Const("rm")).param("pageno", T.OneOf(1, 7)).param("laparams", T.OneOf(None, "the-laparams"))
c.skip_cross = True
c.inline = True
c.stubs = {"pdfminer.converter:PDFLayoutAnalyzer.__init__": _la_init2}
c.mod("self.*")
c.ens("arguments-forwarded-no-result-yet", lambda self, pageno, laparams, trace: (
    len(trace) == 1 and trace[0][1]["rsrcmgr"] == "rm" and trace[0][1]["pageno"] == pageno and trace[0][1]["laparams"] == laparams and self.result is None))

c = contract("pdfminer.converter:PDFPageAggregator.receive_layout", props=["C11", "C08", "C12"])
c.param("self", T.Obj("pdfminer.converter:PDFPageAggregator", result=T.OneOf(None, "previous-page"))).param("ltpage", T.Const("this-page"))
c.skip_cross = True
c.inline = True
c.mod("self.result")
c.ens("the-page-just-finished-is-the-result", lambda self: self.result == "this-page")

c = contract("pdfminer.converter:PDFPageAggregator.get_result", props=["C11", "C08", "C12"])
c.param("self", T.Obj("pdfminer.converter:PDFPageAggregator", result=T.Const("this-page")))
c.skip_cross = True
c.inline = True
c.returns(T.Opaque("page"))
c.ens("hands-out-the-stored-page-unchanged", lambda self, result: result == "this-page" and self.result == "this-page")
