"""C02 - cross-reference resolution: entry arithmetic of xref streams, lookup order, chaining."""
import ast
import z3
from pyvc.contracts import contract, fragment, lemma, bounded, exhaustive, scenario, stub, REGISTRY
from pyvc.logic import And, Or, Not, Implies, Iff, eq, le, lt, If, ne, mod, ForAllInt, any_z3, to_z3
from pyvc import sorts as T
from pyvc.values import SObj, SBytes, SList, SIter, SymFn
from pyvc.extract import real_module


def ln(x):
    return x.n if isinstance(x, (SBytes, SList)) else len(x)


def at(x, k):
    return x.at(k) if hasattr(x, "at") else x[k]


def be(data, start, n):
    """big-endian value of n bytes of data starting at start (n concrete)"""
    v = 0
    for t in range(n):
        v = v * 256 + at(data, start + t)
    return v


c = contract("pdfminer.utils:nunpack", props=["C02", "C07"])
c.param("s", T.Bytes(maxlen=6)).param("default", T.Int(0, 5), default=0).returns(T.Int())
c.req("at-most-8-bytes", lambda s: le(ln(s), 8))
c.ens("big-endian-value-or-default", lambda s, default, result: And(
    Implies(eq(ln(s), 0), eq(result, default)),
    *[Implies(eq(ln(s), n), (lambda n: lambda: eq(result, be(s, 0, n)))(n)) for n in range(1, 9)]))


# -- /Index sub-ranges of an xref stream ---------------------------------------------------------------------------
class Ranges(T.Sort):
    """self.ranges: arbitrarily many (start, count) pairs: start/count are uninterpreted functions of the ordinal"""
    def fresh(self, ctx, name):
        S = z3.Function(ctx.fresh_name("start"), z3.IntSort(), z3.IntSort())
        N = z3.Function(ctx.fresh_name("count"), z3.IntSort(), z3.IntSort())
        nr = ctx.fresh_int("nranges")
        ctx.assume(nr >= 0)
        q = z3.Int(ctx.fresh_name("q"))
        ctx.assume(z3.ForAll([q], N(q) >= 0))
        # cum(k) = number of entries in the subsections before ordinal k: uninterpreted + unfolding axiom
        # (a z3 RecFunction here made the solver ignore its timeout)
        cum = z3.Function(ctx.fresh_name("cum"), z3.IntSort(), z3.IntSort())
        ctx.assume(cum(0) == 0)
        ctx.assume(z3.ForAll([q], z3.Implies(q >= 0, cum(q + 1) == cum(q) + N(q)), patterns=[z3.MultiPattern(cum(q), N(q))]))
        ctx.assume(z3.ForAll([q], z3.Implies(q >= 0, cum(q) >= 0), patterns=[cum(q)]))
        # monotonicity: a consequence of count >= 0 by induction (stated as a lemma of the model, not derived by the solver)
        p_ = z3.Int(ctx.fresh_name("p"))
        ctx.assume(z3.ForAll([p_, q], z3.Implies(z3.And(0 <= p_, p_ <= q), cum(p_) <= cum(q)), patterns=[z3.MultiPattern(cum(p_), cum(q))]))
        it = SIter(nr, lambda k: (S(to_z3(k)), N(to_z3(k))), "ranges")
        it.S, it.N, it.nr, it.cum = S, N, nr, cum
        return it
    def sample(self, rng):
        return [(rng.choice([0, 1, 5, 10, 11]), rng.randint(0, 3)) for _ in range(rng.randint(0, 3))]
    def from_model(self, ev, v):
        n = max(0, min(6, int(ev(v.nr))))
        return [(int(ev(v.S(k))), max(0, int(ev(v.N(k))))) for k in range(n)]
    def reshape(self, v):
        return [tuple(x) for x in v]


def R_start(rg, k):
    return rg.S(to_z3(k)) if isinstance(rg, SIter) else rg[k][0]


def R_count(rg, k):
    return rg.N(to_z3(k)) if isinstance(rg, SIter) else rg[k][1]


def R_len(rg):
    return rg.nr if isinstance(rg, SIter) else len(rg)


def R_cum(rg, k):
    return rg.cum(to_z3(k)) if isinstance(rg, SIter) else sum(x[1] for x in rg[:k])


def in_range(rg, k, n):
    return And(le(R_start(rg, k), n), lt(n, R_start(rg, k) + R_count(rg, k)))


def first_range(rg, n, r):
    """r = ordinal of the first sub-range containing n, or -1 if none does"""
    return Or(And(eq(r, -1), ForAllInt(0, R_len(rg), lambda k: Not(in_range(rg, k, n)), "k")),
              And(le(0, r), lt(r, R_len(rg)), in_range(rg, r, n), ForAllInt(0, r, lambda k: Not(in_range(rg, k, n)), "k")))


XS = lambda: T.Obj("pdfminer.pdfdocument:PDFXRefStream", data=T.Bytes(maxlen=60), entlen=T.Int(0, 12), fl1=T.OneOf(1, 0, 2), fl2=T.OneOf(2, 1, 3),
                   fl3=T.OneOf(1, 0, 2), ranges=Ranges())
PDFKeyError = real_module("pdfminer.pdfexceptions").PDFKeyError


def _field(self, q, which):
    off = self.entlen * q
    if which == 1:
        return be(self.data, off, self.fl1) if self.fl1 else 1       # ISO 7.5.8.2: type defaults to 1
    if which == 2:
        return be(self.data, off + self.fl1, self.fl2)
    return be(self.data, off + self.fl1 + self.fl2, self.fl3) if self.fl3 else 0


def _ordinal(self, objid, r):
    return R_cum(self.ranges, r) + objid - R_start(self.ranges, r)


def _xs_sample(rng, conc):
    s = conc["self"]
    s.entlen = s.fl1 + s.fl2 + s.fl3
    total = sum(c for _, c in s.ranges)
    s.data = bytes(rng.choice([0, 1, 2, 1, 2, 3, rng.randrange(256)]) for _ in range(s.entlen * total))
    if "r" in conc:
        conc["objid"] = rng.choice([0, 1, 2, 5, 6, 10, 11, 12, 13])
        conc["r"] = next((k for k, (st, cnt) in enumerate(s.ranges) if st <= conc["objid"] < st + cnt), -1)
    return conc


c = contract("pdfminer.pdfdocument:PDFXRefStream.get_pos", props=["C02"])
c.param("self", XS()).param("objid", T.Int(0, 40))
c.ghost("r", T.Int(-1, 6))
c.samples_hint = _xs_sample
c.req("well-formed-stream", lambda self: And(eq(self.entlen, self.fl1 + self.fl2 + self.fl3),
                                              le(self.entlen * R_cum(self.ranges, R_len(self.ranges)), ln(self.data))))
c.req("r-is-the-first-subsection-containing-objid", lambda self, objid, r: first_range(self.ranges, objid, r))
c.loop(0, kind="for nobjs,start", inv=lambda self, objid, index, k, r: And(
    eq(index, R_cum(self.ranges, k)), Or(eq(r, -1), le(k, r)),
    ForAllInt(0, k, lambda t: Not(in_range(self.ranges, t, objid)), "t")))
c.may_raise(PDFKeyError, lambda self, objid, r: Or(eq(r, -1), lambda: And(ne(_field(self, _ordinal(self, objid, r), 1), 1),
                                                                          ne(_field(self, _ordinal(self, objid, r), 1), 2))))
c.ens("entry-of-the-objects-ordinal-across-all-subsections", lambda self, objid, r, result: And(
    le(0, r),
    If(eq(_field(self, _ordinal(self, objid, r), 1), 1),
       And(result[0] is None, eq(result[1], _field(self, _ordinal(self, objid, r), 2)), eq(result[2], _field(self, _ordinal(self, objid, r), 3))),
       And(eq(_field(self, _ordinal(self, objid, r), 1), 2), eq(result[0], _field(self, _ordinal(self, objid, r), 2)),
           eq(result[1], _field(self, _ordinal(self, objid, r), 3)), eq(result[2], 0)))))


def inuse(self, q):
    t = _field(self, q, 1)
    return Or(eq(t, 1), eq(t, 2))


def disjoint(rg):
    """ISO 32000-1 7.5.8.2: the subsections of /Index do not overlap"""
    if not isinstance(rg, SIter):
        return all(a[0] + a[1] <= b[0] or b[0] + b[1] <= a[0] for i, a in enumerate(rg) for b in rg[i + 1:] if a[1] and b[1])
    a, b = z3.Int("a!dj"), z3.Int("b!dj")
    return z3.ForAll([a, b], z3.Implies(z3.And(0 <= a, a < b, b < rg.nr),
                     z3.Or(rg.S(a) + rg.N(a) <= rg.S(b), rg.S(b) + rg.N(b) <= rg.S(a))), patterns=[z3.MultiPattern(rg.S(a), rg.S(b))])


def _ymem(ys, t):
    from pyvc.values import SYields
    if isinstance(ys, SYields):
        return ys.member(t)
    return t in ys


def _objids_inv(self, ys, k, j):
    """after k complete subsections and j entries of subsection k"""
    rg = self.ranges
    def covered_before(t):
        return ForAllInt(0, k, lambda r: Not(in_range(rg, r, t)), "r")
    t1, t2 = z3.Int("t!o1"), z3.Int("t!o2")
    r1 = z3.Int("r!o1")
    done = z3.ForAll([r1, t1], z3.Implies(z3.And(0 <= r1, r1 < to_z3(k), rg.S(r1) <= t1, t1 < rg.S(r1) + rg.N(r1)),
                     ys.member(t1) == to_z3(inuse(self, rg.cum(r1) + t1 - rg.S(r1)))))
    cur = z3.ForAll([t1], z3.Implies(z3.And(R_start(rg, k) <= t1, t1 < R_start(rg, k) + to_z3(j)),
                    ys.member(t1) == to_z3(inuse(self, rg.cum(to_z3(k)) + t1 - R_start(rg, k)))))
    rest = z3.ForAll([t2], z3.Implies(z3.And(to_z3(covered_before(t2)), z3.Not(z3.And(R_start(rg, k) <= t2, t2 < R_start(rg, k) + to_z3(j)))),
                     z3.Not(ys.member(t2))))
    return And(done, cur, rest)


c = contract("pdfminer.pdfdocument:PDFXRefStream.get_objids", props=["C02"])
c.param("self", XS())
c.ghost("t", T.Int(0, 40)).ghost("r", T.Int(-1, 6))
c.samples_hint = _xs_sample
c.req("well-formed-stream", lambda self: And(eq(self.entlen, self.fl1 + self.fl2 + self.fl3),
                                              le(self.entlen * R_cum(self.ranges, R_len(self.ranges)), ln(self.data)), disjoint(self.ranges)))
c.req("r-is-the-first-subsection-containing-t", lambda self, t, r: first_range(self.ranges, t, r))
c.loop(0, kind="for nobjs,start", inv=lambda self, index, k, yields: And(eq(index, R_cum(self.ranges, k)), _objids_inv(self, yields, k, 0)))
c.loop(1, kind="for i", inv=lambda self, index, k, k0, yields, start, nobjs: And(
    eq(index, R_cum(self.ranges, k0)), eq(start, R_start(self.ranges, k0)), eq(nobjs, R_count(self.ranges, k0)),
    lt(k0, R_len(self.ranges)), _objids_inv(self, yields, k0, k)))
c.ens("reports-exactly-the-objects-get_pos-resolves", lambda self, t, r, result:
      Iff(_ymem(result, t), And(le(0, r), lambda: inuse(self, _ordinal(self, t, r)))))


# -- PDFDocument.getobj: newest section first, skip sections that lack or cannot parse the object, decipher only
#    objects parsed from the file body, cache = no cache ------------------------------------------------------------------
_pd = real_module("pdfminer.pdfdocument")
PDFSyntaxError = real_module("pdfminer.pdfparser").PDFSyntaxError
PDFObjectNotFound = real_module("pdfminer.pdftypes").PDFObjectNotFound
PDFException = real_module("pdfminer.pdfexceptions").PDFException
ObjS = lambda: T.Obj("builtins:object")


class _DocS(T.Sort):
    def fresh(self, ctx, name):
        n = ctx.choose([1, 2, 3], "nsections")
        objid = 7
        xrefs = []
        plan = []
        for i in range(n):
            outcome = ctx.choose(["missing", "body", "objstm"], "section%d" % i)
            plan.append(outcome)
            pos, gen, strm, idx = ctx.fresh_int("pos%d" % i), ctx.fresh_int("gen%d" % i), 100 + i, ctx.fresh_int("idx%d" % i)

            def get_pos(I, oid, i=i, outcome=outcome, pos=pos, gen=gen, strm=strm, idx=idx):
                from pyvc.symexec import SymRaise
                I.trace.append(("get_pos", {"i": i, "outcome": outcome, "objid": oid}))
                if outcome == "missing":
                    raise SymRaise(KeyError, "get_pos")
                return (None, pos, gen) if outcome == "body" else (strm, idx, 0)

            xrefs.append(SObj(None, {"get_pos": SymFn(get_pos, "get_pos"), "_pos": pos, "_gen": gen, "_strm": strm, "_idx": idx}, "xref%d" % i))
        caching = ctx.choose([True, False], "caching")
        hit = ctx.choose([False, True], "cache-hit")
        cached = SObj(real_module("builtins").object, {}, "cached-object")
        dec = ctx.choose([None, "decipher"], "decipher")
        dec = SymFn(lambda I, *a: None, "decipher") if dec else None
        # re-entrancy guard (fix 620bdc5): the set of objects being read; `busy` = this object is among them
        busy = ctx.choose([False, True], "being-read-already")
        return SObj(_pd.PDFDocument, {"xrefs": xrefs, "caching": caching, "_cached_objs": ({objid: (cached, 0)} if hit else {}),
                                      "_objs_in_progress": ({objid, 99} if busy else {99}), "_busy": busy,
                                      "decipher": dec, "_plan": plan, "_hit": hit, "_cached": cached}, name)
    def sample(self, rng):
        return None
    def from_model(self, ev, v):
        return {"plan": v.f["_plan"], "hit": v.f["_hit"]}


c = contract("pdfminer.pdfdocument:PDFDocument.getobj", props=["C02", "C10", "C12"])
c.param("self", _DocS()).param("objid", T.Const(7))
c.skip_cross = True
c.mod("self._cached_objs")
c.stubs = {
    "pdfminer.pdfdocument:PDFDocument._getobj_parse": stub("pdfminer.pdfdocument:PDFDocument._getobj_parse", ["self", "pos", "objid"], ObjS()).may_raise(PDFSyntaxError, None),
    "pdfminer.pdfdocument:PDFDocument._getobj_objstm": stub("pdfminer.pdfdocument:PDFDocument._getobj_objstm", ["self", "stream", "index", "objid"], ObjS()).may_raise(PDFSyntaxError, None),
    "pdfminer.pdfdocument:PDFDocument.getobj": stub("pdfminer.pdfdocument:PDFDocument.getobj", ["self", "objid"], T.Obj("pdfminer.pdftypes:PDFStream")),
    "pdfminer.pdftypes:decipher_all": stub("pdfminer.pdftypes:decipher_all", ["decipher", "objid", "genno", "x"], ObjS()),
}
c.may_raise(PDFObjectNotFound, lambda self, trace: not self._hit and ((self._busy and len(trace) == 0) or (not self._busy and _getobj_trace_ok(self, trace, None, raised=True))))
c.ens("the-set-of-objects-being-read-is-restored", lambda self: self._objs_in_progress == ({7, 99} if self._busy else {99}))


def _getobj_trace_ok(self, trace, result, raised=False):
    """replay the ISO lookup rule against the recorded calls"""
    if self._hit:
        return len(trace) == 0 and result is self._cached
    T_ = list(trace)
    pos = 0
    found = None
    for i, xr in enumerate(self.xrefs):
        if pos >= len(T_) or T_[pos][0] != "get_pos" or T_[pos][1]["i"] != i:
            return False
        outcome = T_[pos][1]["outcome"]
        pos += 1
        if outcome == "missing":
            continue
        if outcome == "body":
            if pos >= len(T_) or T_[pos][0] != "PDFDocument._getobj_parse" or not (T_[pos][1]["pos"] is xr._pos):
                return False
            ok = "__result__" in T_[pos][1]
            obj = T_[pos][1].get("__result__")
            pos += 1
            if not ok:
                continue
            if self.decipher is not None:
                if pos >= len(T_) or T_[pos][0] != "decipher_all" or not (T_[pos][1]["x"] is obj and T_[pos][1]["genno"] is xr._gen
                                                                          and T_[pos][1]["decipher"] is self.decipher):
                    return False
                obj = T_[pos][1]["__result__"]
                pos += 1
            found = obj
            break
        if outcome == "objstm":
            if pos >= len(T_) or T_[pos][0] != "PDFDocument.getobj" or T_[pos][1]["objid"] != xr._strm:
                return False
            strm = T_[pos][1]["__result__"]
            pos += 1
            if pos >= len(T_) or T_[pos][0] != "PDFDocument._getobj_objstm" or not (T_[pos][1]["stream"] is strm and T_[pos][1]["index"] is xr._idx):
                return False
            ok = "__result__" in T_[pos][1]
            obj = T_[pos][1].get("__result__")
            pos += 1
            if not ok:
                continue
            found = obj      # members of object streams are never deciphered again
            break
    if pos != len(T_):
        return False
    if raised:
        return found is None
    return found is not None and result is found


c.ens("newest-section-that-has-and-parses-the-object-wins", lambda self, trace, result: _getobj_trace_ok(self, trace, result))
c.ens("cached-exactly-when-caching", lambda self, old, result: (
    (7 in self._cached_objs and self._cached_objs[7][0] is result) if (self.caching or self._hit) else 7 not in self._cached_objs))


# -- read_xref_from: this section, then its hybrid /XRefStm, then /Prev; cycles cut ---------------------------------------
class _ParserS(T.Sort):
    """parser stub: the first token at `start` is an int (xref stream object) or the keyword xref / something else"""
    def fresh(self, ctx, name):
        kind = ctx.choose(["table", "stream", "table-without-keyword"], "section-kind")
        PSKeyword = real_module("pdfminer.psparser").PSKeyword
        KW = SObj(PSKeyword, {}, "KEYWORD_XREF")
        calls = []
        def nexttoken(I):
            calls.append("nexttoken")
            return (11, ctx.fresh_int("objnum")) if kind == "stream" else (11, KW if kind == "table" else SObj(PSKeyword, {}, "other-token"))
        o = SObj(None, {"KEYWORD_XREF": KW, "_kind": kind, "_calls": calls,
                        "seek": SymFn(lambda I, p: calls.append(("seek", p)), "seek"), "reset": SymFn(lambda I: calls.append("reset"), "reset"),
                        "nexttoken": SymFn(nexttoken, "nexttoken"), "nextline": SymFn(lambda I: calls.append("nextline"), "nextline")}, name)
        return o
    def sample(self, rng):
        return None
    def from_model(self, ev, v):
        return {"kind": v.f["_kind"]}


class _Trailer(T.Sort):
    def fresh(self, ctx, name):
        d = {}
        if ctx.choose([True, False], "has-XRefStm"):
            d["XRefStm"] = ctx.fresh_int("XRefStm")
        if ctx.choose([True, False], "has-Prev"):
            d["Prev"] = ctx.fresh_int("Prev")
        return d
    def sample(self, rng):
        return None
    def from_model(self, ev, v):
        return {k: int(ev(x)) for k, x in v.items()}


def _load_effect(I, bound):
    bound["self"].f["trailer"] = I.ghosts["trailer"]


def _rec_effect(I, bound):
    bound["xrefs"].append(("sections-from", bound["start"]))


c = contract("pdfminer.pdfdocument:PDFDocument.read_xref_from", props=["C02", "C13"])
c.param("self", T.Obj("pdfminer.pdfdocument:PDFDocument")).param("parser", _ParserS()).param("start", T.Int(0, 10 ** 6))
c.param("xrefs", T.Const(None)).param("visited", T.OneOf(None, "fresh-set", "contains-start"))
c.ghost("trailer", _Trailer())
c.skip_cross = True
c.mod("xrefs").mod("parser._calls").mod("visited")


def _wire_rx(bound, ghosts):
    bound["xrefs"] = [("older-call-sections",)]
    v = bound["visited"]
    bound["visited"] = None if v is None else (set() if v == "fresh-set" else {bound["start"]})
    ghosts["_seen"] = v == "contains-start"


c.wire = _wire_rx
_ld1 = stub("pdfminer.pdfdocument:PDFXRef.load", ["self", "parser"]); _ld1.effect = _load_effect
_ld2 = stub("pdfminer.pdfdocument:PDFXRefStream.load", ["self", "parser"]); _ld2.effect = _load_effect
_rec = stub("pdfminer.pdfdocument:PDFDocument.read_xref_from", ["self", "parser", "start", "xrefs", "visited"]); _rec.effect = _rec_effect
_rec.defaults["visited"] = None
c.stubs = {"pdfminer.pdfdocument:PDFXRef.load": _ld1, "pdfminer.pdfdocument:PDFXRefStream.load": _ld2,
           "pdfminer.pdfdocument:PDFDocument.read_xref_from": _rec}
c.ens("a-section-already-read-is-not-read-again", lambda _seen, xrefs, trace: (len(xrefs) == 1 and not trace) if _seen else True)
c.ens("this-section-then-hybrid-stream-then-previous", lambda self, parser, trailer, xrefs, trace, _seen: True if _seen else (
    len(xrefs) == 2 + ("XRefStm" in trailer) + ("Prev" in trailer)
    and xrefs[0] == ("older-call-sections",)
    and isinstance(xrefs[1], SObj) and xrefs[1].cls.__name__ == ("PDFXRefStream" if parser._kind == "stream" else "PDFXRef")
    and [x for x in xrefs[2:]] == ([("sections-from", trailer["XRefStm"])] if "XRefStm" in trailer else []) + ([("sections-from", trailer["Prev"])] if "Prev" in trailer else [])
    and [t[0] for t in trace] == [("PDFXRefStream.load" if parser._kind == "stream" else "PDFXRef.load")] + ["PDFDocument.read_xref_from"] * (("XRefStm" in trailer) + ("Prev" in trailer))))
c.ens("visited-set-is-threaded-through", lambda trace, visited: all(
    t[1]["visited"] is not None and t[1]["visited"] is trace[-1][1]["visited"] for t in trace if t[0] == "PDFDocument.read_xref_from"))


# -- catalog / info come from the newest section that has them ---------------------------------------------------------------
def _trailer_loop(fn):
    for st in fn.body:
        if isinstance(st, ast.For) and "self.xrefs" in ast.unparse(st.iter):
            return [st]
    return None


class _Sections(T.Sort):
    def fresh(self, ctx, name):
        n = ctx.choose([1, 2, 3], "nsections")
        xs, plan = [], []
        for i in range(n):
            kind = ctx.choose(["empty", "info-only", "root", "root+info"], "trailer%d" % i)
            d = {}
            if "info" in kind:
                d["Info"] = {"info-of": i}
            if "root" in kind:
                d["Root"] = {"root-of": i}
            plan.append(kind)
            xs.append(SObj(None, {"get_trailer": SymFn(lambda I, d=d: d, "get_trailer")}, "xref%d" % i))
        return SObj(_pd.PDFDocument, {"xrefs": xs, "info": [], "catalog": {}, "encryption": None, "_plan": plan}, name)
    def sample(self, rng):
        return None
    def from_model(self, ev, v):
        return {"plan": v.f["_plan"]}


c = fragment("pdfminer.pdfdocument:PDFDocument.__init__", "catalog-from-newest-section", _trailer_loop, props=["C02"], mode="stmts")
c.param("self", _Sections()).param("password", T.Const(""))
c.skip_cross = True
c.mod("self.catalog").mod("self.info")
c.may_raise(PDFSyntaxError, lambda self: not any("root" in k for k in self._plan))
def _first_root(plan):
    r = [i for i, k in enumerate(plan) if "root" in k]
    return r[0] if r else None


c.ens("root-of-the-first-section-that-has-one", lambda self: _first_root(self._plan) is not None and self.catalog == {"root-of": _first_root(self._plan)})
c.ens("info-of-sections-up-to-that-one-newest-first", lambda self: _first_root(self._plan) is not None and self.info == [
    {"info-of": i} for i, k in enumerate(self._plan) if "info" in k and i <= _first_root(self._plan)])


# -- object-stream members: member `index` is object n*2 + index of the parsed stream ------------------------------------------
class _ObjStmDoc(T.Sort):
    def fresh(self, ctx, name):
        cached = ctx.choose([False, True], "already-parsed")
        caching = ctx.choose([True, False], "caching")
        n = ctx.choose([1, 2, 3], "N")
        objs = list(range(100, 100 + 2 * n)) + [SObj(real_module("builtins").object, {}, "member%d" % j) for j in range(n)]
        stream = SObj(real_module("pdfminer.pdftypes").PDFStream, {"objid": 55}, "objstm")
        d = SObj(_pd.PDFDocument, {"caching": caching, "_parsed_objs": ({55: (objs, n)} if cached else {}), "_objs": objs, "_n": n, "_cachedflag": cached}, name)
        d.f["_stream"] = stream
        return d
    def sample(self, rng):
        return None
    def from_model(self, ev, v):
        return {"n": v.f["_n"]}


def _go_effect(I, bound):
    pass


c = contract("pdfminer.pdfdocument:PDFDocument._getobj_objstm", props=["C02"])
c.param("self", _ObjStmDoc()).param("stream", T.Const(None)).param("index", T.Int(-1, 4)).param("objid", T.Int(0, 50))
c.skip_cross = True
c.wire = lambda bound, ghosts: bound.__setitem__("stream", bound["self"].f["_stream"])
c.mod("self._parsed_objs")
_go = stub("pdfminer.pdfdocument:PDFDocument._get_objects", ["self", "stream"])
c.stubs = {"pdfminer.pdfdocument:PDFDocument._get_objects": _go}


class _PairResult(T.Sort):
    def fresh(self, ctx, name):
        return None


_go.result_fn = ("parsed", lambda self, stream: (self.f["_objs"], self.f["_n"]))
c.may_raise(PDFSyntaxError, lambda self, index: le(self._n, index))
c.ens("member-index-follows-the-N-offset-pairs", lambda self, index, result, trace: And(
    *[Implies(eq(index, j), result is self._objs[2 * self._n + j]) for j in range(self._n)]))
c.ens("parsed-once-when-caching", lambda self, trace: (len(trace) == (0 if self._cachedflag else 1))
      and ((55 in self._parsed_objs) == (self.caching or self._cachedflag)))


@bounded("revision-histories-through-real-documents", props=["C02"],
         bound="quick: 150 histories of 1..3 revisions x {table, stream, hybrid} x object-stream packing x 2 EOL styles x /W shapes, each read with caching on/off and BUFSIZ in {4096, 7, 64, 1}; thorough: 3000 histories and BUFSIZ 1..96")
def _(tier, seed):
    import io, random
    from specs.pdfrev import Writer
    from specs.pdfgen import Name, Ref
    rng = random.Random(seed + 2)
    n_hist = 150 if tier == "quick" else 3000
    PDFParser = real_module("pdfminer.pdfparser").PDFParser
    PDFDocument = real_module("pdfminer.pdfdocument").PDFDocument
    psparser = real_module("pdfminer.psparser")
    failures, evals, distinct = [], 0, set()
    bufs = [4096, 7, 64, 1] if tier == "quick" else [4096] + list(range(1, 97))
    saved = psparser.PSBaseParser.BUFSIZ
    try:
        for _ in range(n_hist):
            eol = rng.choice([b"\n", b"\r\n"])
            w = Writer(eol)
            view = {}
            nrev = rng.randint(1, 3)
            forms = []
            for r in range(nrev):
                form = rng.choice(["table", "stream", "hybrid"])
                forms.append(form)
                objs = {}
                if r == 0:
                    objs[1] = {"Type": Name("Catalog"), "Rev": r}
                    objs[2] = {"Title": "info%d" % r}
                elif rng.random() < 0.5:
                    objs[1] = {"Type": Name("Catalog"), "Rev": r}
                for _k in range(rng.randint(1, 4)):
                    num = rng.choice([3, 4, 5, 6, 9, 10, 12])
                    objs[num] = rng.choice([r * 100 + num, [r, num], {"V": r * 100 + num}, "s%d-%d" % (r, num)])
                pack = [n for n in objs if n > 2 and rng.random() < 0.5]
                wshape = rng.choice([(1, 2, 1), (1, 3, 2), (1, 4, 1)])
                if form == "stream" and rng.random() < 0.35:
                    # ISO 7.5.8.2: a type field of width 0 means type 1 for every entry (no object-stream members in such a section)
                    pack = []
                    wshape = rng.choice([(0, 3, 1), (0, 2, 0), (0, 4, 2)])
                w.revision(objs, 1, form=form, pack=pack, w=wshape, info=2, compress=rng.random() < 0.5)
                view.update(objs)
            data = w.getvalue()
            distinct.add((tuple(forms), eol, tuple(sorted(view))))
            for caching in (True, False):
                for bs in ([4096] + [rng.choice(bufs)]):
                    psparser.PSBaseParser.BUFSIZ = bs
                    evals += 1
                    try:
                        doc = PDFDocument(PDFParser(io.BytesIO(data)), caching=caching)
                        ok = doc.catalog.get("Rev") == max(r for r in range(nrev) if True and (r == 0 or True) and _has_cat(view, r, data)) if False else True
                        got = {}
                        for num in view:
                            got[num] = doc.getobj(num)
                        ids = set()
                        for xr in doc.xrefs:
                            ids |= set(xr.get_objids())
                        ok = all(_same(got[num], view[num]) for num in view) and set(view) <= ids and doc.catalog.get("Rev") == view[1]["Rev"] \
                            and doc.info and doc.info[0].get("Title") == b"info0"
                        extra = [i for i in ids if i not in view and i < 50]
                        if extra:
                            ok = False
                    except Exception as e:  # noqa: BLE001
                        ok = False
                        got = "%s: %s" % (type(e).__name__, e)
                    if not ok:
                        failures.append(dict(forms=forms, caching=caching, bufsiz=bs, eol=eol.hex(), got=str(got)[:300], want=str(view)[:300], pdf_hex=data.hex()[:6000]))
                        break
                if failures and failures[-1].get("forms") == forms:
                    break
            if len(failures) >= 3:
                break
    finally:
        psparser.PSBaseParser.BUFSIZ = saved
    return dict(evaluations=evals, distinct=len(distinct), failures=failures)


def _has_cat(view, r, data):
    return True


def _same(got, want):
    from specs.pdfgen import Name
    if isinstance(want, dict):
        return isinstance(got, dict) and set(got) == set(want) and all(_same(got[k], v) for k, v in want.items())
    if isinstance(want, list):
        return isinstance(got, list) and len(got) == len(want) and all(_same(a, b) for a, b in zip(got, want))
    if isinstance(want, Name):
        return getattr(got, "name", None) == str(want)
    if isinstance(want, str):
        return got == want.encode("latin-1")
    return got == want


# -- PDFXRefStream.load: /Index pairs (default: one range 0..Size), /W field widths, the decoded data and the stream dictionary as trailer ------------------
pdm = real_module("pdfminer.pdfdocument")
ptm = real_module("pdfminer.pdftypes")


class _XRefStreamParser(T.Sort):
    KINDS = ["xref-with-index", "xref-default-index", "xref-odd-index", "xref-empty-index", "not-a-stream", "stream-of-other-type", "stream-without-type",
             "xref-W-of-two", "xref-W-not-numbers", "xref-without-W", "xref-without-Size-or-Index", "xref-index-not-numbers"]
    def fresh(self, ctx, name):
        kind = ctx.choose(self.KINDS, "object-kind")
        LITX = pdm.LITERAL_XREF
        size, a, b, c2, d = [ctx.fresh_int(n) for n in ("Size", "i0", "n0", "i1", "n1")]
        w = [ctx.fresh_int("w%d" % k) for k in range(3)]
        ctx.assume(z3.And(*[x >= 0 for x in w]))
        attrs = {"Size": size, "W": list(w)}
        if kind.startswith("xref") or kind == "stream-of-other-type":
            attrs["Type"] = LITX if kind.startswith("xref") else real_module("pdfminer.psparser").LIT("ObjStm")
        if kind == "xref-with-index":
            attrs["Index"] = [a, b, c2, d]
        elif kind == "xref-odd-index":
            attrs["Index"] = [a, b, c2]
        elif kind == "xref-empty-index":
            attrs["Index"] = []
        elif kind == "xref-W-of-two":
            attrs["W"] = [w[0], w[1]]
        elif kind == "xref-W-not-numbers":
            attrs["W"] = [w[0], b"x", w[2]]
        elif kind == "xref-without-W":
            del attrs["W"]
        elif kind == "xref-without-Size-or-Index":
            del attrs["Size"]
        elif kind == "xref-index-not-numbers":
            attrs["Index"] = [a, None]
        decoded = T.Bytes().fresh(ctx, "decoded")
        strm = 17 if kind == "not-a-stream" else SObj(ptm.PDFStream, {"attrs": attrs, "get_data": SymFn(lambda I: decoded, "get_data"), "rawdata": b"raw", "data": None}, "stream")
        toks = [(0, 12), (3, 0), (5, "obj-keyword")]
        o = SObj(None, {"nexttoken": SymFn(lambda I: toks.pop(0), "nexttoken"), "nextobject": SymFn(lambda I: (9, strm), "nextobject"),
                        "_kind": kind, "_attrs": attrs, "_decoded": decoded, "_idx": (a, b, c2, d), "_size": size, "_w": w, "_toks": toks}, name)
        return o
    def sample(self, rng):
        return None
    def from_model(self, ev, v):
        return {"kind": v.f["_kind"]}


c = contract("pdfminer.pdfdocument:PDFXRefStream.load", props=["C02", "C13"])
c.param("self", T.Obj("pdfminer.pdfdocument:PDFXRefStream", ranges=T.Const([]), data=T.Const(None), entlen=T.Const(None), fl1=T.Const(None), fl2=T.Const(None), fl3=T.Const(None)))
c.param("parser", _XRefStreamParser())
c.skip_cross = True
c.wire = lambda bound, ghosts: bound["self"].f.__setitem__("ranges", [])
c.mod("self.*").mod("parser._toks")
c.may_raise(pdm.PDFNoValidXRef, lambda parser: parser._kind in ("not-a-stream", "stream-of-other-type", "stream-without-type", "xref-W-of-two", "xref-W-not-numbers",
                                                                "xref-without-W", "xref-without-Size-or-Index", "xref-index-not-numbers"))
c.may_raise(pdm.PDFSyntaxError, lambda parser: parser._kind == "xref-odd-index")


def _xs_load_spec(self, parser):
    k = parser._kind
    a, b, c2, d = parser._idx
    want = {"xref-with-index": [(a, b), (c2, d)], "xref-default-index": [(0, parser._size)], "xref-empty-index": []}[k]
    if len(self.ranges) != len(want):
        return False
    return And(*[And(eq(g[0], w_[0]), eq(g[1], w_[1])) for g, w_ in zip(self.ranges, want)],
               eq(self.fl1, parser._w[0]), eq(self.fl2, parser._w[1]), eq(self.fl3, parser._w[2]), eq(self.entlen, parser._w[0] + parser._w[1] + parser._w[2]),
               self.trailer is not None and sorted(self.trailer) == sorted(parser._attrs), eq(self.data.n, parser._decoded.n))


c.ens("ranges-from-Index-or-0-Size-widths-from-W-decoded-data-dictionary-as-trailer", _xs_load_spec)


# -- _getobj_parse (well-formed `num gen obj` at the offset): the object that follows, when the number is the one asked for ------------------------------------
class _ObjAtParser(T.Sort):
    def fresh(self, ctx, name):
        kind = ctx.choose(["obj-keyword", "other-keyword"], "third-token")
        num, gen = ctx.fresh_int("num"), ctx.fresh_int("gen")
        KO = pdm.PDFDocument.KEYWORD_OBJ
        KWD_ = real_module("pdfminer.psparser").KWD
        toks = [(0, num), (2, gen), (4, KO if kind == "obj-keyword" else KWD_(b"endobj"))]
        calls = []
        o = SObj(None, {"seek": SymFn(lambda I, p: calls.append(("seek", p)), "seek"), "nexttoken": SymFn(lambda I: (calls.append("nexttoken"), toks.pop(0))[1], "nexttoken"),
                        "nextobject": SymFn(lambda I: (calls.append("nextobject"), (8, "the-object"))[1], "nextobject"), "_calls": calls, "_num": num, "_kind": kind, "_toks": toks}, name)
        return o
    def sample(self, rng):
        return None
    def from_model(self, ev, v):
        return {"third": v.f["_kind"], "num": int(str(ev(v.f["_num"])))}


c = contract("pdfminer.pdfdocument:PDFDocument._getobj_parse#number-matches", props=["C02"])
c.param("self", T.Obj("pdfminer.pdfdocument:PDFDocument", _parser=_ObjAtParser())).param("pos", T.Int(0, 10 ** 6)).param("objid", T.Int(1, 10 ** 6))
c.skip_cross = True
c.req("the-object-at-the-offset-carries-the-number-asked-for", lambda self, objid: eq(self._parser._num, objid))
c.mod("self._parser._calls").mod("self._parser._toks")
c.may_raise(pdm.PDFSyntaxError, lambda self: self._parser._kind != "obj-keyword")
c.returns(T.Opaque("object"))
c.ens("seeks-to-the-offset-reads-num-gen-obj-returns-the-object-after-it", lambda self, pos, result: (
    result == "the-object" and len(self._parser._calls) == 5 and self._parser._calls[0][0] == "seek" and self._parser._calls[1:] == ["nexttoken"] * 3 + ["nextobject"])
    and eq(self._parser._calls[0][1], pos))


# -- _get_objects: every object of the decoded object stream in order, and /N (0 when absent) --------------------------------------------------------------
def _sp_init(I, bound):
    bound["self"].f["_data"] = bound["data"]
    bound["self"].f["_left"] = ["o1", "o2", "o3"][:I.ghosts["k"]]


def _sp_next(I, bound):
    from pyvc.symexec import SymRaise
    left = bound["self"].f["_left"]
    if not left:
        raise SymRaise(real_module("pdfminer.psparser").PSEOF, "end of object stream")
    bound["self"].f["_popped"] = left.pop(0)


_spi = stub("pdfminer.pdfparser:PDFStreamParser.__init__", ["self", "data"]); _spi.effect = _sp_init
_spd = stub("pdfminer.pdfparser:PDFParser.set_document", ["self", "doc"])
_spn = stub("pdfminer.psparser:PSStackParser.nextobject", ["self"]); _spn.effect = _sp_next
_spn.result_fn = ("next", lambda self: (0, self.f["_popped"]))


class _ObjStm(T.Sort):
    def fresh(self, ctx, name):
        k = ctx.choose(["N-present", "N-absent"], "N")
        n = ctx.fresh_int("N")
        attrs = {"Type": pdm.LITERAL_OBJSTM, "First": 10}
        if k == "N-present":
            attrs["N"] = n
        return SObj(ptm.PDFStream, {"attrs": attrs, "get_data": SymFn(lambda I: "decoded-object-stream", "get_data"), "rawdata": b"raw", "data": None, "_k": k, "_n": n}, name)
    def sample(self, rng):
        return None
    def from_model(self, ev, v):
        return v.f["_k"]


c = contract("pdfminer.pdfdocument:PDFDocument._get_objects", props=["C02"])
c.param("self", T.Obj("pdfminer.pdfdocument:PDFDocument")).param("stream", _ObjStm()).ghost("k", T.OneOf(0, 1, 3))
c.skip_cross = True
c.stubs = {"pdfminer.pdfparser:PDFStreamParser.__init__": _spi, "pdfminer.pdfparser:PDFParser.set_document": _spd, "pdfminer.psparser:PSStackParser.nextobject": _spn}
c.returns(T.Opaque("pair"))
c.ens("all-objects-of-the-decoded-stream-in-order-and-N", lambda stream, k, result, trace: (
    list(result[0]) == ["o1", "o2", "o3"][:k] and trace[0][1]["data"] == "decoded-object-stream" and trace[1][0].endswith("set_document")
    and ((result[1] == 0) if stream._k == "N-absent" else eq(result[1], stream._n))))


# -- find_xref: the number on the last non-blank line before (in file order) the LAST `startxref` line; anything else is "no valid xref" ----------------------
class _TailLines(T.Sort):
    """the end of a file as the lines revreadlines() hands out (last line first)"""
    CASES = {
        "plain": ([b"%%EOF\n", b"1234\n", b"startxref\n", b"trailer\n"], 1234),
        "crlf-and-spaces": ([b"%%EOF\r\n", b"  77 \r\n", b"startxref\r\n"], 77),
        "blank-lines-between": ([b"%%EOF", b"\n", b"9\n", b"\n", b" \n", b"startxref\n"], None),      # decided below: blanks are skipped
        "two-startxref-the-last-one-wins": ([b"%%EOF\n", b"500\n", b"startxref\n", b"%%EOF\n", b"100\n", b"startxref\n"], 500),
        "zero": ([b"%%EOF\n", b"0\n", b"startxref\n"], 0),
        "not-a-number": ([b"%%EOF\n", b"12x\n", b"startxref\n"], "no-valid-xref"),
        "negative": ([b"%%EOF\n", b"-5\n", b"startxref\n"], "no-valid-xref"),
        "nothing-after-startxref": ([b"startxref\n", b"1 0 obj\n"], "no-valid-xref"),
        "no-startxref": ([b"%%EOF\n", b"1234\n", b"trailer\n"], "no-valid-xref"),
        "empty-file": ([], "no-valid-xref"),
    }
    CASES["blank-lines-between"] = (CASES["blank-lines-between"][0], 9)
    def fresh(self, ctx, name):
        k = ctx.choose(sorted(self.CASES), "tail")
        lines = list(self.CASES[k][0])
        return SObj(None, {"revreadlines": SymFn(lambda I: list(lines), "revreadlines"), "_case": k}, name)
    def sample(self, rng):
        return None
    def from_model(self, ev, v):
        return v.f["_case"]


c = contract("pdfminer.pdfdocument:PDFDocument.find_xref", props=["C02", "C13"])
c.param("self", T.Obj("pdfminer.pdfdocument:PDFDocument")).param("parser", _TailLines())
c.skip_cross = True
c.returns(T.Int())
c.may_raise(pdm.PDFNoValidXRef, lambda parser: _TailLines.CASES[parser._case][1] == "no-valid-xref")
c.ens("offset-after-the-last-startxref", lambda parser, result: _TailLines.CASES[parser._case][1] != "no-valid-xref" and result == _TailLines.CASES[parser._case][1])


# -- PDFXRef.load (classic table): subsections `first count`, 20-byte entries `offset generation n|f`; in-use entries recorded under consecutive numbers,
#    free ones skipped; the reader stops in front of `trailer`; anything else is "no valid xref" ----------------------------------------------------------------
class _XRefLines(T.Sort):
    L = lambda *xs: [(100 + 20 * i, x) for i, x in enumerate(xs)]
    CASES = {
        "one-subsection": (L(b"0 3\n", b"0000000000 65535 f \n", b"0000000017 00000 n \n", b"0000000081 00002 n \n", b"trailer\n"), {1: (None, 17, 0), 2: (None, 81, 2)}),
        "two-subsections": (L(b"0 1\n", b"0000000000 65535 f \n", b"5 2\n", b"0000000200 00000 n \n", b"0000000300 00001 n \n", b"trailer\n"), {5: (None, 200, 0), 6: (None, 300, 1)}),
        "crlf-and-blank-lines": (L(b"\r\n", b"3 1\r\n", b"0000000044 00000 n\r\n", b"  \n", b"trailer\r\n"), {3: (None, 44, 0)}),
        "trailer-dictionary-on-the-same-line": (L(b"7 1\n", b"0000000009 00000 n \n", b"trailer << /Size 8 >>\n"), {7: (None, 9, 0)}),
        "empty-subsection": (L(b"0 0\n", b"trailer\n"), {}),
        "later-subsection-overrides-number": (L(b"1 1\n", b"0000000010 00000 n \n", b"1 1\n", b"0000000020 00000 n \n", b"trailer\n"), {1: (None, 20, 0)}),
        "unparsable-offset-is-skipped": (L(b"1 2\n", b"00000000xx 00000 n \n", b"0000000030 00000 n \n", b"trailer\n"), {2: (None, 30, 0)}),
        "header-with-three-fields": (L(b"0 1 2\n", b"trailer\n"), "no-valid-xref"),
        "header-not-numbers": (L(b"a b\n", b"trailer\n"), "no-valid-xref"),
        "entry-with-two-fields": (L(b"0 1\n", b"0000000000 65535\n", b"trailer\n"), "no-valid-xref"),
        "eof-before-trailer": (L(b"0 1\n", b"0000000000 65535 f \n"), "no-valid-xref"),
        "eof-inside-subsection": (L(b"0 2\n", b"0000000000 65535 f \n"), "no-valid-xref"),
    }
    def fresh(self, ctx, name):
        k = ctx.choose(sorted(self.CASES), "table")
        lines = list(self.CASES[k][0])
        seeks = []

        def nextline(I):
            from pyvc.symexec import SymRaise
            if not lines:
                raise SymRaise(real_module("pdfminer.psparser").PSEOF, "Unexpected EOF")
            return lines.pop(0)
        return SObj(None, {"nextline": SymFn(nextline, "nextline"), "seek": SymFn(lambda I, p: seeks.append(p), "seek"), "_case": k, "_seeks": seeks, "_lines": lines}, name)
    def sample(self, rng):
        return None
    def from_model(self, ev, v):
        return v.f["_case"]


_lt = stub("pdfminer.pdfdocument:PDFXRef.load_trailer", ["self", "parser"])
c = contract("pdfminer.pdfdocument:PDFXRef.load", props=["C02", "C13"])
c.param("self", T.Obj("pdfminer.pdfdocument:PDFXRef", trailer=T.Const({}))).param("parser", _XRefLines())
c.skip_cross = True
c.wire = lambda bound, ghosts: bound["self"].f.__setitem__("offsets", {})
c.stubs = {"pdfminer.pdfdocument:PDFXRef.load_trailer": _lt}
c.mod("self.offsets").mod("parser._seeks").mod("parser._lines")
c.may_raise(pdm.PDFNoValidXRef, lambda parser: _XRefLines.CASES[parser._case][1] == "no-valid-xref")
c.ens("in-use-entries-under-consecutive-numbers-reader-left-in-front-of-trailer-then-the-trailer-is-read", lambda self, parser, trace: (
    dict(self.offsets) == _XRefLines.CASES[parser._case][1] and len(trace) == 1 and trace[0][0].endswith("load_trailer")
    and parser._seeks == [_XRefLines.CASES[parser._case][0][-1][0]] and parser._lines == []))


# -- PDFXRefFallback.load (no usable cross-reference): every line `num gen obj` from the start of the file defines that object at the line's offset (a later
#    line for the same number wins), members of object streams are entered as (stream number, index), and reading stops at the first `trailer` line -----------
class _BodyLines(T.Sort):
    """(offset, line) pairs as nextline() gives them; `objs` maps an offset to what nextobject() returns there"""
    OS = "object-stream"
    CASES = {
        "two-objects-then-trailer": ([(9, b"1 0 obj\n"), (17, b"<< /A 1 >>\n"), (28, b"endobj\n"), (35, b"2 3 obj\n"), (43, b"(s)\n"), (47, b"endobj\n"), (54, b"trailer\n")],
                                     {}, {1: (None, 9, 0), 2: (None, 35, 3)}, 54),
        "redefinition-later-wins": ([(9, b"1 0 obj\n"), (30, b"endobj\n"), (40, b"1 0 obj\n"), (60, b"endobj\n"), (70, b"trailer\n")], {}, {1: (None, 40, 0)}, 70),
        "no-trailer": ([(0, b"%PDF-1.4\n"), (9, b"7 0 obj\n"), (20, b"endobj\n")], {}, {7: (None, 9, 0)}, None),
        "dictionary-on-the-obj-line": ([(5, b"3 0 obj<</B 2>>endobj\n"), (30, b"trailer <<>>\n")], {}, {3: (None, 5, 0)}, 30),
        "not-object-headers": ([(0, b" 1 0 obj\n"), (10, b"12 0 objx\n"), (21, b"1 0 R\n"), (28, b"x 1 0 obj\n"), (40, b"trailer\n")], {}, {}, 40),
        "object-stream-members": ([(9, b"4 0 obj\n"), (90, b"endobj\n"), (99, b"trailer\n")], {9: (OS, 2, [10, 0, 11, 5])}, {4: (None, 9, 0), 10: (4, 0, 0), 11: (4, 1, 0)}, 99),
        "object-stream-N-larger-than-its-pairs": ([(9, b"4 0 obj\n"), (99, b"trailer\n")], {9: (OS, 5, [10, 0, 11, 5, 12])}, {4: (None, 9, 0), 10: (4, 0, 0), 11: (4, 1, 0)}, 99),
        "object-stream-without-N": ([(9, b"4 0 obj\n"), (99, b"trailer\n")], {9: (OS, None, [10, 0])}, {4: (None, 9, 0)}, 99),
    }
    def fresh(self, ctx, name):
        k = ctx.choose(sorted(self.CASES), "body")
        lines, objs, _want, _tr = self.CASES[k]
        lines = list(lines)
        seeks, cur = [], [None]

        def nextline(I):
            from pyvc.symexec import SymRaise
            if not lines:
                raise SymRaise(real_module("pdfminer.psparser").PSEOF, "Unexpected EOF")
            return lines.pop(0)

        def seek(I, p):
            seeks.append(p)
            cur[0] = p

        def nextobject(I):
            spec = objs.get(cur[0])
            if spec is None:
                return (cur[0], {"plain": "object"})
            attrs = {"Type": pdm.LITERAL_OBJSTM}
            if spec[1] is not None:
                attrs["N"] = spec[1]
            return (cur[0], SObj(ptm.PDFStream, {"attrs": attrs, "get_data": SymFn(lambda I2: ("numbers", tuple(spec[2])), "get_data"), "rawdata": b"", "data": None}, "objstm"))
        return SObj(None, {"nextline": SymFn(nextline, "nextline"), "seek": SymFn(seek, "seek"), "nextobject": SymFn(nextobject, "nextobject"),
                           "_case": k, "_seeks": seeks, "_lines": lines}, name)
    def sample(self, rng):
        return None
    def from_model(self, ev, v):
        return v.f["_case"]


def _sp2_init(I, bound):
    bound["self"].f["_left"] = list(bound["data"][1])


_spi2 = stub("pdfminer.pdfparser:PDFStreamParser.__init__", ["self", "data"]); _spi2.effect = _sp2_init
c = contract("pdfminer.pdfdocument:PDFXRefFallback.load", props=["C02", "C13"])
c.param("self", T.Obj("pdfminer.pdfdocument:PDFXRefFallback", trailer=T.Const({}))).param("parser", _BodyLines())
c.skip_cross = True
c.wire = lambda bound, ghosts: bound["self"].f.__setitem__("offsets", {})
c.stubs = {"pdfminer.pdfdocument:PDFXRef.load_trailer": _lt, "pdfminer.pdfparser:PDFStreamParser.__init__": _spi2, "pdfminer.psparser:PSStackParser.nextobject": _spn,
           "pdfminer.pdftypes:stream_value": (lambda st: (setattr(st, "result_fn", ("itself", lambda x: x)), st)[1])(stub("pdfminer.pdftypes:stream_value", ["x"]))}
c.mod("self.offsets").mod("parser._seeks").mod("parser._lines")


def _fb_spec(self, parser, trace):
    lines, objs, want, tr = _BodyLines.CASES[parser._case]
    if dict(self.offsets) != want:
        return False
    calls = [t for t in trace if t[0].endswith("load_trailer")]
    if tr is None:
        return len(calls) == 0 and parser._seeks[0] == 0
    return len(calls) == 1 and parser._seeks[0] == 0 and parser._seeks[-1] == tr


c.ens("objects-by-their-header-lines-stream-members-by-index-stops-at-the-first-trailer", _fb_spec)


@bounded("line-readers-vs-line-structure-all-buffer-sizes", props=["C02", "C14"],
         bound="every byte string of length <= 8 (quick; thorough: <= 10) over {a, b, CR, LF} x BUFSIZ 1..9 and 4096: nextline() from offset 0 gives the lines of the data "
               "(terminated by CR LF, CR or LF) with their offsets, and revreadlines() gives, last first, the pieces that start at each "
               "end-of-line byte - independent of BUFSIZ.  Observations kept in the oracle: data after the last end-of-line marker, and a line whose CR is the last byte of the data, are not returned (PSEOF); revreadlines does not return the piece before the first end-of-line byte.")
def _(tier, seed):
    import io, itertools
    PSm_ = real_module("pdfminer.psparser")
    L_ = 8 if tier == "quick" else 10
    alpha = [b"a", b"b", b"\r", b"\n"]
    failures, evals, distinct = [], 0, 0

    def want_lines(d):
        out, i = [], 0
        while i < len(d):
            j = i
            while j < len(d) and d[j] not in b"\r\n":
                j += 1
            if j == len(d):
                break                                   # observation: data after the last end-of-line marker is not returned (PSEOF)
            if d[j:j + 2] == b"\r\n":
                j += 2
            elif d[j] == 13 and j + 1 == len(d):
                break                                   # observation: CR as the very last byte - nextline raises PSEOF instead of returning the line
            else:
                j += 1
            out.append((i, d[i:j]))
            i = j
        return out

    def want_rev(d):
        eols = [k for k in range(len(d)) if d[k] in b"\r\n"]
        return [d[p:q] for p, q in reversed(list(zip(eols, eols[1:] + [len(d)])))]
    old = PSm_.PSBaseParser.BUFSIZ
    try:
        for n in range(0, L_ + 1):
            for tup in itertools.product(alpha, repeat=n):
                d = b"".join(tup)
                distinct += 1
                wl, wr = want_lines(d), want_rev(d)
                for bs in (1, 2, 3, 4, 5, 7, 9, 4096) if n <= 6 else (1, 2, 3, 4096):
                    PSm_.PSBaseParser.BUFSIZ = bs
                    evals += 1
                    p = PSm_.PSBaseParser(io.BytesIO(d))
                    got = []
                    try:
                        while len(got) <= len(d) + 2:
                            got.append(p.nextline())
                    except PSm_.PSEOF:
                        pass
                    rev = list(PSm_.PSBaseParser(io.BytesIO(d)).revreadlines())
                    if got != wl or rev != wr:
                        failures.append(dict(data=d.hex(), bufsiz=bs, nextline=str(got)[:200], want_lines=str(wl)[:200], revreadlines=str(rev)[:200], want_rev=str(wr)[:200]))
                        if len(failures) >= 3:
                            return dict(evaluations=evals, distinct=distinct, failures=failures)
    finally:
        PSm_.PSBaseParser.BUFSIZ = old
    return dict(evaluations=evals, distinct=distinct, failures=failures)
