"""C08 - layout analysis conserves content: container primitives, the char -> line grouping step, line/box/group ordering keys,
index assignment; whole analyses as a bounded stand-in.  (C09 predicates live in c09_margins.py and share the sorts below.)"""
import ast
import z3
from pyvc.contracts import contract, fragment, lemma, bounded, exhaustive, scenario, stub, REGISTRY
from pyvc.logic import And, Or, Not, Implies, Iff, eq, le, lt, If, ne, Min, Max, ForAllInt
from pyvc import sorts as T
from pyvc.values import SObj
from pyvc.extract import real_module

lay = real_module("pdfminer.layout")
INF = real_module("pdfminer.utils").INF


class Comp(T.Sort):
    """an LTComponent after set_bbox: the derived fields agree with the box (class invariant established by set_bbox, which is
    itself under contract below); `nonempty` adds x0 <= x1, y0 <= y1 (glyph boxes come from get_bound hulls)"""
    def __init__(self, cls="pdfminer.layout:LTChar", ordered=True, **extra):
        self.cls_path, self.ordered, self.extra = cls, ordered, extra
    def cls(self):
        return T.Obj(self.cls_path).cls()
    def fresh(self, ctx, name):
        x0, y0, x1, y1 = [ctx.fresh_real("%s.%s" % (name, k)) for k in ("x0", "y0", "x1", "y1")]
        if self.ordered:
            ctx.assume(z3.And(x0 <= x1, y0 <= y1))
        f = dict(x0=x0, y0=y0, x1=x1, y1=y1, width=x1 - x0, height=y1 - y0, bbox=(x0, y0, x1, y1))
        for k, s in self.extra.items():
            f[k] = s.fresh(ctx, "%s.%s" % (name, k))
        return SObj(self.cls(), f, name)
    def sample(self, rng):
        return None
    def from_model(self, ev, v):
        return {k: str(ev(v.f[k])) for k in ("x0", "y0", "x1", "y1")}


def box_of(o):
    return (o.x0, o.y0, o.x1, o.y1)


def union(a, b):
    return (Min(a[0], b[0]), Min(a[1], b[1]), Max(a[2], b[2]), Max(a[3], b[3]))


def has_box(o, b):
    return And(eq(o.x0, b[0]), eq(o.y0, b[1]), eq(o.x1, b[2]), eq(o.y1, b[3]), eq(o.width, b[2] - b[0]), eq(o.height, b[3] - b[1]), eq(o.bbox, b))


# -- primitives -------------------------------------------------------------------------------------------------------------------------
c = contract("pdfminer.layout:LTComponent.set_bbox", props=["C08"])
c.param("self", T.Obj("pdfminer.layout:LTComponent")).param("bbox", T.RealTup(4))
c.skip_cross = True
c.inline = True          # straight-line: callers execute the body itself, the contract is checked on its own
for f in ("x0", "y0", "x1", "y1", "width", "height", "bbox"):
    c.mod("self." + f)
c.ens("fields-agree-with-the-box", lambda self, bbox: has_box(self, bbox))

c = contract("pdfminer.layout:LTExpandableContainer.__init__", props=["C08"])
c.param("self", T.Obj("pdfminer.layout:LTExpandableContainer"))
c.skip_cross = True
c.inline = True
c.mod("self.*")
c.ens("starts-as-the-empty-union", lambda self: And(self.x0 == INF and self.y0 == INF and self.x1 == -INF and self.y1 == -INF, INF == float("inf"),
                                                    tuple(self.bbox) == (INF, INF, -INF, -INF), len(self._objs) == 0))
# with that start the first member's box is the union (min(inf, a) = a, max(-inf, a) = a): proved by the scenario box-of-proper-lines-is-kept and by
# every fresh line of the group_objects step

c = contract("pdfminer.layout:LTExpandableContainer.add", props=["C08"])
c.param("self", Comp("pdfminer.layout:LTExpandableContainer", ordered=False, _objs=T.Const("members"))).param("obj", Comp())
c.skip_cross = True
c.inline = True
for f in ("x0", "y0", "x1", "y1", "width", "height", "bbox", "_objs"):
    c.mod("self." + f)
c.wire = lambda bound, ghosts: bound["self"].f.__setitem__("_objs", ["m0", "m1"])
c.ens("box-becomes-the-union-and-the-member-is-appended-once", lambda self, obj, old: And(
    has_box(self, union(box_of(old.self), box_of(obj))), len(self._objs) == 3, self._objs[:2] == ["m0", "m1"], self._objs[2] is obj))


# -- text lines: a member is appended once, preceded by at most one blank; the line ends in exactly one line break ---------------------------
def _is_anno(o, text):
    return isinstance(o, SObj) and o.cls is lay.LTAnno and o.f.get("_text") == text


def _line_add(cls, lead, far):
    """lead(obj): the coordinate compared with the previous glyph's end; far(prev_end, lead, margin): the documented gap test"""
    c = contract("pdfminer.layout:%s.add" % cls, props=["C08", "C09"])
    c.param("self", Comp("pdfminer.layout:" + cls, ordered=False, _objs=T.Const("members"), word_margin=T.Real(),
                         **{("_x1" if cls.endswith("Horizontal") else "_y0"): T.Real()}))
    c.param("obj", Comp())
    c.skip_cross = True
    c.inline = True
    for f in ("x0", "y0", "x1", "y1", "width", "height", "bbox", "_objs", "_x1", "_y0"):
        c.mod("self." + f)
    c.wire = lambda bound, ghosts: bound["self"].f.__setitem__("_objs", ["m0"])
    gap = lambda self, obj: And(ne(self.word_margin, 0), far(self, obj, self.word_margin * Max(obj.width, obj.height)))
    c.ens("one-blank-exactly-when-the-gap-exceeds-word-margin-then-the-glyph", lambda self, obj, old: And(
        self._objs[0] == "m0", self._objs[-1] is obj,
        If(gap(old.self, obj), And(len(self._objs) == 3, lambda: _is_anno(self._objs[1], " ")), len(self._objs) == 2)
        if not isinstance(gap(old.self, obj), bool) else (len(self._objs) == (3 if gap(old.self, obj) else 2)),
        has_box(self, union(box_of(old.self), box_of(obj))), eq(lead(self), lead(obj))))
    return c


def _len_cases(c):
    return c


_line_add("LTTextLineHorizontal", lambda o: o._x1 if "_x1" in o.f else o.x1, lambda self, obj, m: lt(self._x1, obj.x0 - m))
_line_add("LTTextLineVertical", lambda o: o._y0 if "_y0" in o.f else o.y0, lambda self, obj, m: lt(obj.y1 + m, self._y0))


# -- a line ends in exactly one line break; text of a container = concatenation of its members' text ------------------------------------------
_noop = stub("pdfminer.layout:LTItem.analyze", ["self", "laparams"])
c = contract("pdfminer.layout:LTTextLine.analyze", props=["C08"])
c.param("self", Comp("pdfminer.layout:LTTextLineHorizontal", ordered=False, _objs=T.Const("members"))).param("laparams", T.Opaque("laparams"))
c.skip_cross = True
c.mod("self._objs")
c.wire = lambda bound, ghosts: bound["self"].f.__setitem__("_objs", [SObj(lay.LTChar, {}, "g0"), SObj(lay.LTAnno, {"_text": " "}, "sp"), SObj(lay.LTChar, {}, "g1")])
c.stubs = {"pdfminer.layout:LTItem.analyze": _noop}
c.ens("members-kept-and-one-line-break-appended-box-untouched", lambda self, old: (
    len(self._objs) == 4 and [o.name for o in self._objs[:3]] == ["g0", "sp", "g1"] and _is_anno(self._objs[3], "\n")))


class _TextItem(T.Sort):
    def __init__(self, cls):
        self.c = cls
    def fresh(self, ctx, name):
        return SObj(getattr(lay, self.c), {"_text": z3.String(ctx.fresh_name(name + ".text"))}, name)
    def sample(self, rng):
        return None
    def from_model(self, ev, v):
        return str(ev(v.f["_text"]))


c = contract("pdfminer.layout:LTTextContainer.get_text", props=["C08"])
c.param("self", T.Obj("pdfminer.layout:LTTextLineHorizontal"))
c.ghost("a", _TextItem("LTChar")).ghost("b", _TextItem("LTAnno")).ghost("c", _TextItem("LTChar"))
c.skip_cross = True
c.wire = lambda bound, ghosts: bound["self"].f.__setitem__("_objs", [ghosts["a"], ghosts["b"], SObj(lay.LTRect, {}, "not-text"), ghosts["c"]])
c.ens("text-is-the-concatenation-of-the-members-text-in-order", lambda result, a, b, c: result == z3.Concat(a._text, b._text, c._text))


# -- numbering: boxes get consecutive indices in traversal order -----------------------------------------------------------------------------
def _box(name):
    return SObj(lay.LTTextBoxHorizontal, {"index": -1}, name)


def _grp(name, members):
    return SObj(lay.LTTextGroupLRTB, {"_objs": list(members)}, name)


_TREES = {
    "box": lambda: (lambda b: (b, [b]))(_box("b0")),
    "flat": lambda: (lambda bs: (_grp("g", bs), bs))([_box("b%d" % k) for k in range(3)]),
    "nested-left": lambda: (lambda bs: (_grp("g", [_grp("h", bs[:2]), bs[2]]), bs))([_box("b%d" % k) for k in range(3)]),
    "nested-right": lambda: (lambda bs: (_grp("g", [bs[0], _grp("h", [bs[1], _grp("i", bs[2:4])])]), bs))([_box("b%d" % k) for k in range(4)]),
    "two-subgroups": lambda: (lambda bs: (_grp("g", [_grp("h", bs[:2]), _grp("i", bs[2:])]), bs))([_box("b%d" % k) for k in range(4)]),
}


class _Tree(T.Sort):
    def fresh(self, ctx, name):
        shape = ctx.choose(sorted(_TREES), "tree-shape")
        root, leaves = _TREES[shape]()
        root.leaves = leaves
        return root
    def sample(self, rng):
        return None
    def from_model(self, ev, v):
        return "tree"


c = contract("pdfminer.layout:IndexAssigner.run", props=["C08"])
c.param("self", T.Obj("pdfminer.layout:IndexAssigner", index=T.Int(0))).param("obj", _Tree())
c.skip_cross = True
c.inline = True
c.mod("self.index").mod("obj.*")
c.ens("boxes-numbered-consecutively-in-traversal-order", lambda self, obj, old: And(
    eq(self.index, old.self.index + len(obj.leaves)), *[eq(b.index, old.self.index + k) for k, b in enumerate(obj.leaves)]))


# -- ordering inside boxes and groups: the members are permuted (nothing lost or duplicated) and ordered by the stated key ----------------------
def _perm_of(after, before):
    return len(after) == len(before) and all(any(a is b for b in before) for a in after) and all(any(a is b for a in after) for b in before)


def _ordered_container(cls, key, name, member_cls="pdfminer.layout:LTTextLineHorizontal"):
    c = contract("pdfminer.layout:%s.analyze" % cls, props=["C08", "C09"])
    c.param("self", T.Obj("pdfminer.layout:" + cls)).param("laparams", T.Obj("pdfminer.layout:LAParams", boxes_flow=T.Real(-1, 1)))
    c.ghost("m0", Comp(member_cls)).ghost("m1", Comp(member_cls)).ghost("m2", Comp(member_cls))
    c.skip_cross = True
    c.mod("self._objs")
    c.wire = lambda bound, ghosts: bound["self"].f.__setitem__("_objs", [ghosts["m0"], ghosts["m1"], ghosts["m2"]])
    # members' own analysis is under its own contract; here it is a traced no-op on the order
    c.stubs = {"pdfminer.layout:LTTextLine.analyze": stub("pdfminer.layout:LTTextLine.analyze", ["self", "laparams"]),
               "pdfminer.layout:LTContainer.analyze": stub("pdfminer.layout:LTContainer.analyze", ["self", "laparams"])}
    c.ens(name, lambda self, laparams, m0, m1, m2, old: And(
        _perm_of(self._objs, [m0, m1, m2]),
        *[le(key(a, laparams), key(b, laparams)) for a, b in zip(self._objs, self._objs[1:])]))
    c.ens("equal-keys-keep-input-order", lambda self, laparams, m0, m1, m2: And(*[
        Implies(eq(key(a, laparams), key(b, laparams)), [m0, m1, m2].index(a) < [m0, m1, m2].index(b)) for a, b in zip(self._objs, self._objs[1:])]))
    return c


_ordered_container("LTTextBoxHorizontal", lambda o, lp: -o.y1, "lines-top-to-bottom")
_ordered_container("LTTextBoxVertical", lambda o, lp: -o.x1, "lines-right-to-left", "pdfminer.layout:LTTextLineVertical")
_ordered_container("LTTextGroupLRTB", lambda o, lp: (1 - lp.boxes_flow) * o.x0 - (1 + lp.boxes_flow) * (o.y0 + o.y1), "documented-lrtb-key",
                   "pdfminer.layout:LTTextBoxHorizontal")
_ordered_container("LTTextGroupTBRL", lambda o, lp: -(1 + lp.boxes_flow) * (o.x0 + o.x1) - (1 - lp.boxes_flow) * o.y1, "documented-tbrl-key",
                   "pdfminer.layout:LTTextBoxVertical")


# -- char -> line grouping: one step of group_objects --------------------------------------------------------------------------------------------
# Ghost reading of the loop state: `pending` = the glyphs taken from the input and not yet yielded = the glyph members of `line`
# when there is one, else [obj0] (nothing before the first glyph).  Step contract: yielded' ++ pending' == pending ++ [obj1]
# (so, by induction over the input, the glyphs of the yielded lines are the input sequence: nothing lost, duplicated or reordered),
# a line is only ever extended under its own alignment predicate, and new lines take the orientation the predicates give.
def _loop_body(fn):
    for n in ast.walk(fn):
        if isinstance(n, ast.For) and isinstance(n.target, ast.Name) and n.target.id == "obj1":
            return n.body
    return None


def _glyphs(line):
    return [o for o in line._objs if not (isinstance(o, SObj) and o.cls is lay.LTAnno)]


def _same(xs, ys):
    return len(xs) == len(ys) and all((a is b) or (getattr(a, "name", a) == getattr(b, "name", b)) for a, b in zip(xs, ys))


def halign_doc(a, b, lp):
    from contracts.c09_margins import common, gap
    return And(lt(Min(a.height, b.height) * lp.line_overlap, common(a.y0, a.y1, b.y0, b.y1)),
               lt(gap(a.x0, a.x1, b.x0, b.x1), Max(a.width, b.width) * lp.char_margin))


def valign_doc(a, b, lp):
    from contracts.c09_margins import common, gap
    return And(lp.detect_vertical, lt(Min(a.width, b.width) * lp.line_overlap, common(a.x0, a.x1, b.x0, b.x1)),
               lt(gap(a.y0, a.y1, b.y0, b.y1), Max(a.height, b.height) * lp.char_margin))


c = fragment("pdfminer.layout:LTLayoutContainer.group_objects", "one-glyph-step", _loop_body, props=["C08", "C09"], mode="stmts")
c.param("laparams", T.Obj("pdfminer.layout:LAParams", line_overlap=T.Real(), char_margin=T.Real(), word_margin=T.Real(), detect_vertical=T.Bool()))
c.param("obj0", Comp()).param("obj1", Comp()).param("line", T.OneOf("first", "none", "H", "V"))
c.skip_cross = True


def _wire_step(bound, ghosts):
    kind = bound["line"]
    ghosts["kind"] = kind
    if kind == "first":
        bound["obj0"], bound["line"] = None, None
    elif kind == "none":
        bound["line"] = None
    else:
        cls = lay.LTTextLineHorizontal if kind == "H" else lay.LTTextLineVertical
        o0 = bound["obj0"]
        f = dict(o0.f)
        f.update(_objs=[SObj(lay.LTChar, {}, "earlier"), o0], word_margin=bound["laparams"].f["word_margin"])
        f["_x1" if kind == "H" else "_y0"] = o0.f["x1"] if kind == "H" else o0.f["y0"]
        bound["line"] = SObj(cls, f, "line")
    ghosts["line0"] = bound["line"]
    ghosts["o0"] = bound["obj0"]


c.wire = _wire_step
c.mod("line").mod("obj0")
# margins are relative sizes: non-negative (a negative line_overlap has no documented meaning; the code then still demands that the extents meet)
c.req("margins-non-negative", lambda laparams: And(le(0, laparams.line_overlap), le(0, laparams.char_margin), le(0, laparams.word_margin)))


def _step_spec(result, line, obj0, laparams, obj1, kind, line0, o0):
    if obj0 is not obj1:
        return False
    ys = list(result)
    pending0 = [] if kind == "first" else ([o0] if kind == "none" else ["earlier", o0])
    pending1 = _glyphs(line) if line is not None else [obj0]
    emitted = [g for l_ in ys for g in _glyphs(l_)]
    conserve = _same([getattr(g, "name", g) for g in emitted + pending1], [getattr(g, "name", g) for g in pending0 + [obj1]])
    if not conserve:
        return False
    if kind == "first":
        return len(ys) == 0 and line is None
    h, v = halign_doc(o0, obj1, laparams), valign_doc(o0, obj1, laparams)
    if kind in ("H", "V"):
        ext = h if kind == "H" else v
        extended = line is line0 and len(ys) == 0
        closed = line is None and len(ys) == 1 and ys[0] is line0
        # extended exactly under the line's own predicate, else yielded unchanged
        return And(extended or closed, Iff(extended, ext), lambda: (not closed) or _same(_glyphs(line0), ["earlier", o0]))
    # no current line: the predicates choose the orientation of the new one
    if line is None:
        single = len(ys) == 1 and ys[0].cls is lay.LTTextLineHorizontal and _same(_glyphs(ys[0]), [o0])
        return And(single, Iff(h, v))
    if len(ys) != 0:
        return False
    if line.cls is lay.LTTextLineVertical:
        return And(v, Not(h))
    return And(h, Not(v))


c.ens("glyphs-conserved-and-lines-follow-the-documented-predicates", lambda result, line, obj0, laparams, obj1, kind, line0, o0: _step_spec(result, line, obj0, laparams, obj1, kind, line0, o0))


# after the input is exhausted the pending glyphs are yielded as the last line
def _after_loop(fn):
    for k, n in enumerate(fn.body):
        if isinstance(n, ast.For):
            return fn.body[k + 1:]
    return None


c = fragment("pdfminer.layout:LTLayoutContainer.group_objects", "final-flush", _after_loop, props=["C08"], mode="stmts")
c.param("laparams", T.Obj("pdfminer.layout:LAParams", word_margin=T.Real())).param("obj0", Comp()).param("line", T.OneOf("none", "H", "V"))
c.skip_cross = True
c.wire = _wire_step
c.mod("line")
c.ens("pending-glyphs-become-the-last-line", lambda result, kind, line0, o0: And(
    len(result) == 1, (result[0] is line0 and _same(_glyphs(result[0]), ["earlier", o0])) if kind != "none" else
    (result[0].cls is lay.LTTextLineHorizontal and _same(_glyphs(result[0]), [o0]))))


# -- analyze: every item of the page ends up exactly once in the result: boxes (in output order, numbered 0..n-1), then the
#    non-text items, then the empty lines ---------------------------------------------------------------------------------------------------
def _mk_stub(key, params, fn=None, name=None):
    st = stub(key, params)
    if fn is not None:
        st.result_fn = (name or "value", fn)
    return st


class _Page(T.Sort):
    def fresh(self, ctx, name):
        c0, c1 = SObj(lay.LTChar, {}, "c0"), SObj(lay.LTChar, {}, "c1")
        fig = SObj(lay.LTFigure, {}, "fig")
        o = SObj(lay.LTLayoutContainer, {"_objs": [c0, fig, c1], "groups": None, "bbox": (0, 0, 100, 100)}, name)
        L0 = SObj(lay.LTTextLineHorizontal, {"_empty": False}, "L0")
        L1 = SObj(lay.LTTextLineHorizontal, {"_empty": True}, "L1")
        B = [Comp("pdfminer.layout:LTTextBoxHorizontal", index=T.Const(-1)).fresh(ctx, "B%d" % k) for k in range(2)]
        for k, b in enumerate(B):
            b.name = "B%d" % k
        if ctx.choose(["two-boxes", "no-box"], "boxes") == "no-box":
            B = []                # every line was blank or degenerate, or the lines formed no box
        G = SObj(lay.LTTextGroupLRTB, {"_objs": [B[1], B[0]]}, "G") if B else None
        o.parts = dict(c0=c0, c1=c1, fig=fig, L0=L0, L1=L1, B=B, G=G)
        return o
    def sample(self, rng):
        return None
    def from_model(self, ev, v):
        return {b.name: {k: str(ev(b.f[k])) for k in ("x0", "y0")} for b in v.parts["B"]}


c = contract("pdfminer.layout:LTLayoutContainer.analyze", props=["C08", "C09"])
c.param("self", _Page()).param("laparams", T.Obj("pdfminer.layout:LAParams", boxes_flow=T.OneOf(None, 0.5)))
c.skip_cross = True
c.mod("self._objs").mod("self.groups").mod("self._objs.*")
c.stubs = {
    "pdfminer.layout:LTLayoutContainer.group_objects": _mk_stub("pdfminer.layout:LTLayoutContainer.group_objects", ["self", "laparams", "objs"],
                                                                lambda self: [self.parts["L0"], self.parts["L1"]]),
    "pdfminer.layout:LTLayoutContainer.group_textlines": _mk_stub("pdfminer.layout:LTLayoutContainer.group_textlines", ["self", "laparams", "lines"],
                                                                  lambda self: list(self.parts["B"])),
    "pdfminer.layout:LTLayoutContainer.group_textboxes": _mk_stub("pdfminer.layout:LTLayoutContainer.group_textboxes", ["self", "laparams", "boxes"],
                                                                  lambda self: [self.parts["G"]] if self.parts["G"] is not None else []),
    "pdfminer.layout:LTTextLine.is_empty": _mk_stub("pdfminer.layout:LTTextLine.is_empty", ["self"], lambda self: self.f["_empty"]),
    "pdfminer.layout:LTTextLine.analyze": _mk_stub("pdfminer.layout:LTTextLine.analyze", ["self", "laparams"]),
    "pdfminer.layout:LTFigure.analyze": _mk_stub("pdfminer.layout:LTFigure.analyze", ["self", "laparams"]),
    "pdfminer.layout:LTTextBoxHorizontal.analyze": _mk_stub("pdfminer.layout:LTTextBoxHorizontal.analyze", ["self", "laparams"]),
    "pdfminer.layout:LTTextGroupLRTB.analyze": _mk_stub("pdfminer.layout:LTTextGroupLRTB.analyze", ["self", "laparams"]),
}


def _analyze_spec(self, laparams, trace):
    P_ = self.parts
    out = self._objs
    names = [getattr(o, "name", None) for o in out]
    calls = [(n.split(".")[-2] + "." + n.split(".")[-1], b) for n, b in trace]
    analysed = [b["self"].name for n, b in calls if n.endswith(".analyze")]
    if not P_["B"]:
        # no text box: the non-text items and the empty lines are still there, each once
        go = [b for n, b in calls if n == "LTLayoutContainer.group_objects"]
        return names == ["fig", "L1"] and sorted(analysed) == ["L1", "fig"] and len(go) == 1
    ok = (len(out) == 4 and sorted(names[:2]) == ["B0", "B1"] and names[2:] == ["fig", "L1"]
          and sorted(analysed) == sorted(["fig", "L1"] + (["B0", "B1"] if laparams.boxes_flow is None else ["G"])))
    if not ok:
        return False
    go = [b for n, b in calls if n == "LTLayoutContainer.group_objects"]
    gl = [b for n, b in calls if n == "LTLayoutContainer.group_textlines"]
    if not (len(go) == 1 and [o.name for o in go[0]["objs"]] == ["c0", "c1"] and len(gl) == 1 and [o.name for o in gl[0]["lines"]] == ["L0"]):
        return False
    a, b = out[0], out[1]
    numbered = And(eq(a.index, 0), eq(b.index, 1))
    if laparams.boxes_flow is None:
        # "based on the position of the bottom left corner": higher bottom edge first, then further left
        return And(numbered, Or(lt(b.y0, a.y0), And(eq(a.y0, b.y0), le(a.x0, b.x0))),
                   Implies(And(eq(a.y0, b.y0), eq(a.x0, b.x0)), names[0] == "B0"))
    # grouped: output order = traversal order of the group tree (the group lists B1 before B0)
    return And(numbered, names[0] == "B1")


c.ens("every-item-exactly-once-boxes-first-numbered-in-output-order", lambda self, laparams, trace: _analyze_spec(self, laparams, trace))


# -- whole analyses (bounded stand-in): the real LTPage.analyze on generated glyph sets ----------------------------------------------------------
def make_char(box, text="x"):
    ch = lay.LTChar.__new__(lay.LTChar)
    lay.LTComponent.__init__(ch, tuple(box))
    ch._text = text
    ch.matrix = (1, 0, 0, 1, box[0], box[1]); ch.fontname = "F"; ch.adv = box[2] - box[0]; ch.upright = True; ch.size = box[3] - box[1]
    return ch


def tree_problems(page, inputs, others, lp, check_predicates=True):
    """structural invariants of C08 on an analysed page; returns a list of violated clauses"""
    bad = []
    leaves, seen_other, boxes_in_order = [], [], []

    def glyph_members(o):
        return [m for m in o if not isinstance(m, lay.LTAnno)]

    def visit(o, depth=0):
        if isinstance(o, lay.LTChar):
            leaves.append(o); return
        if isinstance(o, lay.LTAnno):
            return
        if isinstance(o, (lay.LTTextLine, lay.LTTextBox, lay.LTTextGroup)):
            ms = glyph_members(o)
            if not ms:
                bad.append("empty container %r" % o)
            else:
                u = (min(m.x0 for m in ms), min(m.y0 for m in ms), max(m.x1 for m in ms), max(m.y1 for m in ms))
                if tuple(o.bbox) != u or (o.x0, o.y0, o.x1, o.y1) != u or o.width != u[2] - u[0] or o.height != u[3] - u[1]:
                    bad.append("bbox of %s is %r, union of members %r" % (type(o).__name__, o.bbox, u))
            want = "".join(m.get_text() for m in o if isinstance(m, lay.LTText))
            if o.get_text() != want:
                bad.append("text of %s is not the concatenation of its members'" % type(o).__name__)
        if isinstance(o, lay.LTTextLine):
            ms = list(o)
            if not (ms and isinstance(ms[-1], lay.LTAnno) and ms[-1].get_text() == "\n") or sum(1 for m in ms if isinstance(m, lay.LTAnno) and m.get_text() == "\n") != 1:
                bad.append("line does not end in exactly one line break: %r" % o.get_text())
            gl = [m for m in ms if isinstance(m, lay.LTChar)]
            if len(gl) != len(glyph_members(o)):
                bad.append("line holds a non-glyph")
            if check_predicates:
                for a, b in zip(gl, gl[1:]):
                    hz = isinstance(o, lay.LTTextLineHorizontal)
                    if not native_align(a, b, lp, hz):
                        bad.append("%s line joins glyphs %r %r that are not %s-aligned" % ("horizontal" if hz else "vertical", a.bbox, b.bbox, "h" if hz else "v"))
        if isinstance(o, lay.LTTextBox):
            boxes_in_order.append(o)
            ls = list(o)
            if not all(isinstance(l_, lay.LTTextLineHorizontal if isinstance(o, lay.LTTextBoxHorizontal) else lay.LTTextLineVertical) for l_ in ls):
                bad.append("box mixes line orientations")
            keys = [(-l_.y1 if isinstance(o, lay.LTTextBoxHorizontal) else -l_.x1) for l_ in ls]
            if keys != sorted(keys):
                bad.append("lines of a box out of order: %r" % keys)
        if isinstance(o, (lay.LTTextLine, lay.LTTextBox, lay.LTTextGroup, lay.LTLayoutContainer)):
            for m in o:
                visit(m, depth + 1)
        elif not isinstance(o, lay.LTChar):
            seen_other.append(o)

    for o in page:
        if isinstance(o, lay.LTTextGroup):
            bad.append("group among the page's direct children")
        visit(o)
    if sorted(map(id, leaves)) != sorted(map(id, inputs)):
        lost = len(set(map(id, inputs)) - set(map(id, leaves))); dup = len(leaves) - len(set(map(id, leaves)))
        bad.append("glyphs: %d in, %d out (%d lost, %d duplicated)" % (len(inputs), len(leaves), lost, dup))
    if sorted(map(id, seen_other)) != sorted(map(id, others)):
        bad.append("non-text items: %d in, %d out" % (len(others), len(seen_other)))
    idx = [b.index for b in boxes_in_order]
    if idx != list(range(len(idx))):
        bad.append("text boxes numbered %r in output order" % idx)
    if page.groups is not None and lp.boxes_flow is not None:
        gl = []

        def gv(g):
            if isinstance(g, lay.LTTextBox):
                gl.append(g)
            else:
                for m in g:
                    gv(m)
        for g in page.groups:
            gv(g)
        if sorted(map(id, gl)) != sorted(map(id, boxes_in_order)):
            bad.append("group tree holds %d boxes, page %d" % (len(gl), len(boxes_in_order)))
    return bad


def native_align(a, b, lp, horizontal):
    from fractions import Fraction as F
    q = lambda v: F(v)
    if horizontal:
        ov = max(F(0), min(q(a.y1), q(b.y1)) - max(q(a.y0), q(b.y0))); gp = max(F(0), max(q(a.x0), q(b.x0)) - min(q(a.x1), q(b.x1)))
        return min(q(a.height), q(b.height)) * q(lp.line_overlap) < ov and gp < max(q(a.width), q(b.width)) * q(lp.char_margin)
    ov = max(F(0), min(q(a.x1), q(b.x1)) - max(q(a.x0), q(b.x0))); gp = max(F(0), max(q(a.y0), q(b.y0)) - min(q(a.y1), q(b.y1)))
    return bool(lp.detect_vertical) and min(q(a.width), q(b.width)) * q(lp.line_overlap) < ov and gp < max(q(a.height), q(b.height)) * q(lp.char_margin)


def lp_dict(lp):
    return {k: getattr(lp, k) for k in ("line_overlap", "char_margin", "line_margin", "word_margin", "boxes_flow", "detect_vertical", "all_texts")}


def gen_page(rng, nmax=9):
    """glyph boxes on a dyadic grid: rows, columns, overlaps, nested, zero-size, off-page, blank/empty text; plus a few non-text items"""
    n = rng.randint(1, nmax)
    chars = []
    style = rng.choice(["rows", "cols", "scatter", "mixed"])
    x, y = rng.choice([0, 10, 50]), rng.choice([90, 50, 10])
    for k in range(n):
        w, h = rng.choice([0, 1, 4, 8, 8, 8, 16]), rng.choice([0, 2, 8, 8, 8, 12])
        if style == "rows" or (style == "mixed" and rng.random() < .5):
            x += rng.choice([0, 8, 8, 9, 12, 30, -4]); y += rng.choice([0, 0, 0, 1, -2, -12, -30]) if rng.random() < .3 else 0
        elif style == "cols":
            y -= rng.choice([0, 8, 8, 9, 12, 30]); x += rng.choice([0, 0, 1, 20]) if rng.random() < .2 else 0
        else:
            x, y = rng.choice([-40, -8, 0, 4, 8, 16, 50, 96, 104, 160]), rng.choice([-40, -8, 0, 4, 8, 16, 50, 96, 104, 160])
        text = rng.choice(["a", "b", "W", " ", "", " ", "ff", "\n"]) if rng.random() < .4 else "x"
        chars.append(make_char((x, y, x + w, y + h), text))
    others = []
    for k in range(rng.randint(0, 2)):
        x0, y0 = rng.choice([0, 20, 120]), rng.choice([0, 20, 120])
        others.append(lay.LTRect(1, (x0, y0, x0 + 10, y0 + 5)) if rng.random() < .5 else lay.LTLine(1, (x0, y0), (x0 + 7, y0)))
    return chars, others


def lap_grid(rng):
    return lay.LAParams(line_overlap=rng.choice([0, .25, .5, 1, 1.5]), char_margin=rng.choice([0, .5, 2, 1024]), line_margin=rng.choice([0, .5, 8]),
                        word_margin=rng.choice([0, .125, 4]), boxes_flow=rng.choice([None, -1, 0, .5, 1]), detect_vertical=rng.choice([False, True]))


@bounded("analysed-pages-are-well-formed", props=["C08"],
         bound="quick: 20000 generated pages of 1..9 glyph boxes (rows, columns, scattered incl. off-page, zero-size, nested, blank/empty text) + 0..2 "
               "non-text items x random LAParams from a 5x4x3x3x5x2 grid incl. boxes_flow=None and extremes, real LTPage.analyze, 5 s alarm per page; thorough: 300000")
def _(tier, seed):
    import random, signal
    rng = random.Random(seed + 8)
    n = 20000 if tier == "quick" else 300000
    failures, evals, shapes = [], 0, set()

    def onalarm(signum, frame):
        raise TimeoutError("analysis did not finish in 5 s")
    old = signal.signal(signal.SIGALRM, onalarm)
    try:
        for it in range(n):
            chars, others = gen_page(rng)
            lp = lap_grid(rng)
            page = lay.LTPage(1, (0, 0, 100, 100))
            objs = chars + others
            rng.shuffle(others)
            for o in sorted(objs, key=lambda o: rng.random()) if rng.random() < .2 else objs:
                page.add(o)
            inputs = [o for o in page if isinstance(o, lay.LTChar)]
            evals += 1
            shapes.add((len(chars), len(others), lp.boxes_flow, lp.detect_vertical))
            try:
                signal.alarm(5)
                page.analyze(lp)
                signal.alarm(0)
                bad = tree_problems(page, inputs, others, lp)
            except Exception as e:  # noqa: BLE001
                signal.alarm(0)
                bad = ["%s: %s" % (type(e).__name__, e)]
            if bad:
                failures.append(dict(glyphs=[(c_.bbox, c_.get_text()) for c_ in inputs], laparams=lp_dict(lp), problems=bad[:4]))
                if len(failures) >= 3:
                    break
    finally:
        signal.alarm(0)
        signal.signal(signal.SIGALRM, old)
    return dict(evaluations=evals, distinct=len(shapes), failures=failures)


# -- the plane's membership set (what group_textboxes iterates and returns): add/remove act on it whatever cells the box occupies,
#    including none at all (a box wholly outside the container) ------------------------------------------------------------------------------
def _plane_contract(meth):
    c = contract("pdfminer.utils:Plane." + meth, props=["C08", "C20"])
    c.param("self", T.Obj("pdfminer.utils:Plane")).param("obj", Comp("pdfminer.layout:LTTextBoxHorizontal"))
    c.ghost("cells", T.OneOf("no-cell", "one-cell", "two-cells", "unknown-cell"))
    c.skip_cross = True
    c.inline = True
    c.mod("self._grid").mod("self._seq").mod("self._objs").mod("self._grid.*")

    def wire(bound, ghosts):
        other = SObj(lay.LTTextBoxHorizontal, {}, "other")
        obj = bound["obj"]
        present = meth == "remove"
        cells = {"no-cell": [], "one-cell": [(0, 0)], "two-cells": [(0, 0), (0, 1)], "unknown-cell": [(5, 5)]}[ghosts["cells"]]
        grid = {(0, 0): [other] + ([obj] if present and (0, 0) in cells else []), (0, 1): ([obj] if present and (0, 1) in cells else []) + [other]}
        bound["self"].f.update(_grid=grid, _seq=[other] + ([obj] if present else []), _objs=({other, obj} if present else {other}))
        ghosts["_cells"], ghosts["_other"] = cells, other
    c.wire = wire
    st = stub("pdfminer.utils:Plane._getrange", ["self", "bbox"])
    c.stubs = {"pdfminer.utils:Plane._getrange": st}
    return c, st


c, st = _plane_contract("remove")
st.result_fn = ("cells", lambda self: list(self._wired_cells))


def _wire_remove(w):
    def wire(bound, ghosts):
        w(bound, ghosts)
        s_ = bound["self"]
        s_.f["_wired_cells"] = ghosts["_cells"]
        # a longer history: two more live members and entries of objects removed earlier (remove leaves them in _seq; iteration filters by membership)
        later = SObj(lay.LTTextBoxHorizontal, {}, "later")
        stale = [SObj(lay.LTTextBoxHorizontal, {}, "stale%d" % k) for k in range(3)]
        s_.f["_seq"] = [stale[0], ghosts["_other"], stale[1], bound["obj"], stale[2], later]
        s_.f["_objs"] = {ghosts["_other"], bound["obj"], later}
        s_.f["_grid"][(0, 1)].append(later)
        ghosts["_later"] = later
    return wire


c.wire = _wire_remove(c.wire)
c.mod("self._wired_cells")
c.ens("remaining-members-are-still-walked-in-insertion-order", lambda self, _other, _later: (
    [o.name for o in self._seq if any(o is m for m in self._objs)] == ["other", "later"]))
c.ens("object-leaves-the-membership-set-and-its-cells-others-stay", lambda self, obj, _other, _cells, trace: And(
    not any(o is obj for o in self._objs), any(o is _other for o in self._objs), len(self._objs) == 2,
    all(not any(o is obj for o in v) and any(o is _other for o in v) for v in self._grid.values()),
    len(trace) == 1 and eq(trace[0][1]["bbox"], box_of(obj))))

c, st = _plane_contract("add")
st.result_fn = ("cells", lambda self: list(self._wired_cells))
c.wire = (lambda w: lambda bound, ghosts: (w(bound, ghosts), bound["self"].f.__setitem__("_wired_cells", ghosts["_cells"])))(c.wire)
c.mod("self._wired_cells")
c.ens("object-joins-the-membership-set-the-sequence-and-exactly-its-cells", lambda self, obj, _other, _cells, trace: And(
    any(o is obj for o in self._objs), any(o is _other for o in self._objs), len(self._objs) == 2,
    len(self._seq) == 2 and self._seq[1] is obj,
    all(sum(1 for o in self._grid.get(k, [])if o is obj) == 1 for k in _cells),
    all(not any(o is obj for o in v) for k, v in self._grid.items() if k not in _cells),
    len(trace) == 1 and eq(trace[0][1]["bbox"], box_of(obj))))


# -- nothing is dropped between the stages: a line that is not `empty` has a proper box, so the box built from such lines is never
#    discarded by group_textlines' `if not box.is_empty()` -----------------------------------------------------------------------------------
c = contract("pdfminer.layout:LTTextLine.is_empty", props=["C08"])
c.param("self", Comp("pdfminer.layout:LTTextLineHorizontal", ordered=False))
c.skip_cross = True
c.inline = True
_gt = stub("pdfminer.layout:LTTextContainer.get_text", ["self"]); _gt.result_fn = ("text", lambda self: z3.String("line-text"))
c.stubs = {"pdfminer.layout:LTTextContainer.get_text": _gt}
c.returns(T.Bool())
c.ens("a-line-kept-for-grouping-has-positive-width-and-height", lambda self, result: Implies(Not(result), And(lt(0, self.width), lt(0, self.height))))
c.ens("a-line-with-a-proper-box-is-set-aside-only-for-blank-text", lambda self, result: Implies(And(lt(0, self.width), lt(0, self.height), result),
                                                                                               lambda: _is_space(z3.String("line-text"))))


def _is_space(t):
    # all characters are white space and there is at least one: stated through the same library predicate (uninterpreted here)
    from pyvc.builtins_model import str_isspace_term
    return str_isspace_term(t)


sc = scenario("pdfminer.layout", "box-of-proper-lines-is-kept", """
def box_of_proper_lines(l0, l1):
    box = LTTextBoxHorizontal()
    box.add(l0)
    box.add(l1)
    return box.is_empty()
""", props=["C08"])
sc.param("l0", Comp("pdfminer.layout:LTTextLineHorizontal")).param("l1", Comp("pdfminer.layout:LTTextLineHorizontal"))
sc.req("lines-passed-the-empty-filter", lambda l0, l1: And(lt(0, l0.width), lt(0, l0.height), lt(0, l1.width), lt(0, l1.height)))
sc.returns(T.Bool())
sc.ens("box-is-not-discarded", lambda result: Not(result))


@bounded("group-textlines-partitions-the-lines", props=["C08"],
         bound="every neighbour relation on 1..4 lines in which a line found by any line also "
                   "finds itself (what the real find_neighbors gives, see the C09 contract), mixed horizontal/vertical lines, real group_textlines")
def _(tier, seed):
    import itertools
    cases, failures = 0, []
    for n in (1, 2, 3, 4):
        for bits in itertools.product([0, 1], repeat=n * n):
            R = [[j for j in range(n) if bits[i * n + j]] for i in range(n)]
            found = {j for i in range(n) for j in R[i]}
            if any(j not in R[j] for j in found):
                continue
            cont = lay.LTLayoutContainer((0, 0, 100, 100))
            lines = []
            for i in range(n):
                ln_ = (lay.LTTextLineHorizontal if i != 1 else lay.LTTextLineVertical)(0.1)
                ln_.add(make_char((10 * i, 10 * i, 10 * i + 5, 10 * i + 5), "x"))
                lines.append(ln_)
            for i, ln_ in enumerate(lines):
                ln_.find_neighbors = (lambda i: lambda plane, ratio: [lines[j] for j in R[i]])(i)
            cases += 1
            try:
                boxes = list(cont.group_textlines(lay.LAParams(), lines))
                members = [l_ for b in boxes for l_ in b]
                ok = sorted(map(id, members)) == sorted(map(id, lines)) and all(len(list(b)) >= 1 for b in boxes)
                detail = "lines in boxes: %r" % [[lines.index(l_) for l_ in b] for b in boxes]
            except Exception as e:  # noqa: BLE001
                ok, detail = False, "%s: %s" % (type(e).__name__, e)
            if not ok:
                failures.append(dict(relation=R, got=detail))
                if len(failures) >= 3:
                    return dict(evaluations=cases, distinct=cases, failures=failures)
    return dict(evaluations=cases, distinct=cases, failures=failures)


from pyvc.values import SymFn


# -- LTContainer: members are kept as a sequence in insertion order; extend takes any iterable (also a one-shot one); analyze visits every member once ----------
class _Members:
    """an iterable that can be walked once (generator-like)"""
    def __init__(self, items):
        self.items, self.walks = items, 0
    def __sym_iter__(self, I):
        from pyvc.values import SIter
        self.walks += 1
        items = self.items if self.walks == 1 else []
        return SIter(len(items), lambda k: items[k], "one-shot")


class _ExtendArg(T.Sort):
    def fresh(self, ctx, name):
        kind = ctx.choose(["list", "one-shot", "empty"], "iterable-kind")
        analyzed = []
        mk = lambda t: SObj(None, {"_tag": t, "analyze": SymFn(lambda I, lp, t=t: analyzed.append((t, lp)), "analyze")}, t)
        items = [] if kind == "empty" else [mk("m1"), mk("m2")]
        return SObj(None, {"v": list(items) if kind != "one-shot" else _Members(list(items)), "_tags": [i.f["_tag"] for i in items], "_analyzed": analyzed}, name)
    def sample(self, rng):
        return None
    def from_model(self, ev, v):
        return v.f["_tags"]


sc = scenario("pdfminer.layout", "container-keeps-members-in-insertion-order", """
def fill(c, first, arg):
    c.add(first)
    c.extend(arg.v)
    n = len(c)
    seen = [m for m in c]
    c.analyze("the-laparams")
    return (n, seen)
""", props=["C08"])
sc.param("c", T.Obj("pdfminer.layout:LTContainer", _objs=T.Const(None))).param("first", T.Const(None)).param("arg", _ExtendArg())
sc.wire = lambda bound, ghosts: (bound["c"].f.__setitem__("_objs", []), bound.__setitem__("first", SObj(None, {"_tag": "m0", "analyze": SymFn(
    lambda I, lp: bound["arg"].f["_analyzed"].append(("m0", lp)), "analyze")}, "m0")))
sc.skip_cross = True
sc.inline_callees = True
sc.mod("c._objs").mod("arg.*")
sc.returns(T.Opaque("pair"))
sc.ens("members-in-insertion-order-each-once-each-analysed-once", lambda c, arg, result: (
    result[0] == 1 + len(arg._tags) and [m.f["_tag"] for m in result[1]] == ["m0"] + arg._tags and [m.f["_tag"] for m in c._objs] == ["m0"] + arg._tags
    and arg._analyzed == [(t, "the-laparams") for t in ["m0"] + arg._tags]))
