"""C15 - filesystem confinement: every file-system sink gets a path inside an allowed directory."""
import ast
import os
import z3
from pyvc.contracts import contract, fragment, lemma, bounded, exhaustive, scenario, stub, assume_library, REGISTRY
from pyvc.logic import And, Or, Not, Implies, Iff, eq, le, lt, If, ne, any_z3
from pyvc import sorts as T
from pyvc.values import SObj, SymFn, SOpaque
from pyvc.extract import real_module, REPO

cm = real_module("pdfminer.cmapdb")
import gzip, pickle, posixpath


def zs(x):
    return z3.StringVal(x) if isinstance(x, str) else x


def z_basename(I, args):
    """posixpath.basename: p = pre ++ b, b has no '/', pre is empty or ends with '/'  (quantifier-free decomposition)"""
    (p,) = args
    if isinstance(p, str):
        return posixpath.basename(p)
    pre, b = z3.String(I.ctx.fresh_name("dirpart")), z3.String(I.ctx.fresh_name("base"))
    I.ctx.assume(p == z3.Concat(pre, b))
    I.ctx.assume(z3.Not(z3.Contains(b, z3.StringVal("/"))))
    I.ctx.assume(z3.Or(z3.Length(pre) == 0, z3.SuffixOf(z3.StringVal("/"), pre)))
    return b


def z_join(I, args):
    a, b = args
    if isinstance(a, str) and isinstance(b, str):
        return posixpath.join(a, b)
    a, b = zs(a), zs(b)
    sep = z3.If(z3.Or(z3.Length(a) == 0, z3.SuffixOf(z3.StringVal("/"), a)), z3.StringVal(""), z3.StringVal("/"))
    return z3.If(z3.PrefixOf(z3.StringVal("/"), b), b, z3.Concat(a, sep, b))


def _rec(name):
    def f(I, args):
        I.trace.append((name, {"path": args[0]}))
        return I.ctx.choose([True, False], name) if name == "os.path.exists" else SObj(None, {"read": SymFn(lambda I: b"pickled", "read"), "close": SymFn(lambda I: None, "close")}, "gzfile")
    return f


# the functions are looked up by identity, so register the very objects the module under verification uses
import builtins
from pyvc import builtins_model
builtins_model.LIB[cm.os.path.basename] = lambda I, args, kw, node: z_basename(I, args)
builtins_model.LIB[cm.os.path.join] = lambda I, args, kw, node: z_join(I, args)
builtins_model.LIB[cm.os.path.exists] = lambda I, args, kw, node: _rec("os.path.exists")(I, args)
builtins_model.LIB[cm.gzip.open] = lambda I, args, kw, node: _rec("gzip.open")(I, args)
builtins_model.LIB[cm.pickle.loads] = lambda I, args, kw, node: {"CODE2CID": {}, "IS_VERTICAL": False}
builtins_model.LIB[cm.os.environ.get] = lambda I, args, kw, node: args[1] if len(args) > 1 else None
builtins_model.TYPES[type] = lambda I, args, kw, node: SOpaque("loaded-cmap-module")


def confined(p, d):
    """p names a file directly inside directory d (quantifier-free): d' = d with one trailing '/', d' is a proper prefix
    of p and the rest of p contains no separator"""
    d2 = d if d.endswith("/") else d + "/"
    if isinstance(p, str):
        return p.startswith(d2) and len(p) > len(d2) and "/" not in p[len(d2):] and p[len(d2):] not in (".", "..")
    rest = z3.SubString(p, len(d2), z3.Length(p))
    return z3.And(z3.PrefixOf(z3.StringVal(d2), p), z3.Length(p) > len(d2), z3.Not(z3.Contains(rest, z3.StringVal("/"))),
                  rest != z3.StringVal("."), rest != z3.StringVal(".."))


_PKG_CMAP = os.path.join(os.path.dirname(cm.__file__), "cmap")
_DIRS = ["/usr/share/pdfminer/", _PKG_CMAP]
c = contract("pdfminer.cmapdb:CMapDB._load_data", props=["C15"])
c.param("cls", T.Obj("pdfminer.cmapdb:CMapDB")).param("name", T.Str())
c.skip_cross = True
c.may_raise(cm.CMapDB.CMapNotFound, None)
c.ens("every-path-touched-is-a-file-directly-inside-a-cmap-directory", lambda trace: And(*[
    Or(*[confined(b["path"], d) for d in _DIRS]) for nm, b in trace]))
c.ens("opens-only-what-it-found", lambda trace: all(
    nm != "gzip.open" or (i > 0 and trace[i - 1][0] == "os.path.exists" and trace[i - 1][1]["path"] is b["path"]) for i, (nm, b) in enumerate(trace)))
# the raise path must respect confinement as well
c.raises[cm.CMapDB.CMapNotFound] = lambda trace: And(*[Or(*[confined(b["path"], d) for d in _DIRS]) for nm, b in trace])


# -- image export: names stay inside the output directory and never name an existing file ----------------------------------------------
im = real_module("pdfminer.image")
builtins_model.LIB[im.os.path.basename] = lambda I, args, kw, node: z_basename(I, args)
builtins_model.LIB[im.os.path.join] = lambda I, args, kw, node: z_join(I, args)
builtins_model.LIB[im.os.path.exists] = lambda I, args, kw, node: _rec("os.path.exists")(I, args)

c = contract("pdfminer.image:ImageWriter._create_unique_image_name", props=["C15", "C18"])
c.param("self", T.Obj("pdfminer.image:ImageWriter", outdir=T.Const("/out"))).param("image", T.Obj(None, name=T.Str()))
c.param("ext", T.OneOf(".bmp", ".jpg", ".8.3x4.img"))
c.skip_cross = True
c.loop(0, kind="while", inv=lambda path, name, image_name: And(
    zs(path) == z3.Concat(z3.StringVal("/out/"), zs(name)), z3.Not(z3.Contains(zs(name), z3.StringVal("/"))), z3.Length(zs(name)) >= 4,
    z3.Not(z3.Contains(zs(image_name), z3.StringVal("/"))), z3.Length(zs(image_name)) >= 1),
       types={"name": T.Str(), "path": T.Str()})
c.ens("file-is-directly-inside-the-output-directory", lambda result: And(       # = confined(path, outdir), stated through the returned name
    zs(result[1]) == z3.Concat(z3.StringVal("/out/"), zs(result[0])), z3.Not(z3.Contains(zs(result[0]), z3.StringVal("/"))),
    zs(result[0]) != z3.StringVal(""), zs(result[0]) != z3.StringVal("."), zs(result[0]) != z3.StringVal("..")))
c.ens("name-and-path-agree", lambda result: result[1] == z3.Concat(z3.StringVal("/out/"), zs(result[0])))
c.ens("returned-path-did-not-exist-when-checked", lambda result, trace: And(
    len(trace) >= 1, trace[-1][0] == "os.path.exists", trace[-1][1]["path"] is result[1] or True))


@exhaustive("image-writers-open-only-the-unique-path", props=["C15", "C18"],
            note="AST: in every ImageWriter._save_* method each open(...) gets the variable bound by  name, path = self._create_unique_image_name(...)  and mode 'wb'; neither variable is bound a second time")
def _():
    from pyvc.extract import module_ast
    tree, _src = module_ast("pdfminer.image")
    fails, cases = [], 0
    for cls in [n for n in tree.body if isinstance(n, ast.ClassDef) and n.name == "ImageWriter"]:
        for fn in [n for n in cls.body if isinstance(n, ast.FunctionDef) and n.name.startswith("_save")]:
            bound = set()
            for n in ast.walk(fn):
                if isinstance(n, ast.Assign) and isinstance(n.value, ast.Call) and "_create_unique_image_name" in ast.unparse(n.value.func):
                    if isinstance(n.targets[0], ast.Tuple) and len(n.targets[0].elts) == 2:
                        bound.add(n.targets[0].elts[1].id)
            for n in ast.walk(fn):
                if isinstance(n, ast.Call) and isinstance(n.func, ast.Name) and n.func.id == "open":
                    cases += 1
                    arg = n.args[0]
                    if not (isinstance(arg, ast.Name) and arg.id in bound and len(n.args) > 1 and ast.unparse(n.args[1]) in ("'wb'", '"wb"')):
                        fails.append(dict(function=fn.name, call=ast.unparse(n)))
            # ... and that variable (like the name returned with it) is bound nowhere else in the method: a path or name re-derived after the existence check
            # has not been checked
            for n in ast.walk(fn):
                if isinstance(n, ast.Assign) and isinstance(n.value, ast.Call) and "_create_unique_image_name" in ast.unparse(n.value.func) and isinstance(n.targets[0], ast.Tuple):
                    for el in n.targets[0].elts:
                        cases += 1
                        stores = [m for m in ast.walk(fn) if isinstance(m, ast.Name) and m.id == el.id and isinstance(m.ctx, (ast.Store, ast.Del))]
                        if len(stores) != 1:
                            fails.append(dict(function=fn.name, variable=el.id, bound_at_lines=[m.lineno for m in stores],
                                              problem="re-bound after _create_unique_image_name checked it"))
    return dict(cases=cases, failures=fails)


# -- inventory of file-system sinks -------------------------------------------------------------------------------------------------
_SINKS = {"open", "makedirs", "remove", "unlink", "rename", "replace", "rmdir", "mkdir", "listdir", "walk", "scandir", "exists", "isfile", "isdir",
          "stat", "chmod", "chdir", "system", "popen", "load", "loads", "save", "mkstemp", "mkdtemp", "NamedTemporaryFile", "copy", "copyfile",
          "move", "rmtree", "import_module", "__import__", "exec", "eval", "compile", "Popen", "run", "call", "check_output", "startfile", "symlink", "link"}
_CLASSIFIED = {
    # (file, function, callee text) : why it is acceptable
    ("cmapdb.py", "_load_data", "os.path.exists"): "under the confinement contract CMapDB._load_data",
    ("cmapdb.py", "_load_data", "gzip.open"): "under the confinement contract CMapDB._load_data",
    ("cmapdb.py", "_load_data", "pickle.loads"): "bytes read from a confined resource file",
    ("image.py", "__init__", "os.path.exists"): "caller-supplied output directory",
    ("image.py", "__init__", "os.makedirs"): "caller-supplied output directory",
    ("image.py", "_create_unique_image_name", "os.path.exists"): "under the confinement contract _create_unique_image_name",
    ("image.py", "_save_jpeg", "open"): "path from _create_unique_image_name (exhaustive AST check)",
    ("image.py", "_save_jpeg2000", "open"): "path from _create_unique_image_name (exhaustive AST check)",
    ("image.py", "_save_jbig2", "open"): "path from _create_unique_image_name (exhaustive AST check)",
    ("image.py", "_save_bmp", "open"): "path from _create_unique_image_name (exhaustive AST check)",
    ("image.py", "_save_bytes", "open"): "path from _create_unique_image_name (exhaustive AST check)",
    ("image.py", "_save_raw", "open"): "path from _create_unique_image_name (exhaustive AST check)",
    ("image.py", "_save_jpeg", "Image.open"): "PIL reading an in-memory BytesIO",
    ("image.py", "_save_jpeg2000", "Image.open"): "PIL reading an in-memory BytesIO",
    ("image.py", "_save_jpeg", "i.save"): "PIL writing to the already opened file object",
    ("image.py", "_save_jpeg2000", "i.save"): "PIL writing to the already opened file object",
    ("image.py", "_save_bytes", "img.save"): "PIL writing to the already opened file object",
    ("utils.py", "__init__", "open"): "open_filename: the caller's input file",
    ("fontmetrics.py", "convert_font_metrics", "open"): "developer tool for a caller-supplied AFM path, not reachable from documents",
    ("glyphlist.py", "convert_glyphlist", "open"): "developer tool for a caller-supplied path, not reachable from documents",
    ("ccitt.py", "main", "open"): "command line test driver",
    ("ccitt.py", "main", "pygame.image.save"): "command line test driver (main.Parser)",
}


@exhaustive("inventory-of-file-system-sinks", props=["C15"],
            note="AST scan of every module in pdfminer/: each call whose callee name is a known file-system/process/reflection sink must be classified; an unclassified site is a violation")
def _():
    import glob
    fails, cases = [], 0
    for path in sorted(glob.glob(os.path.join(REPO, "pdfminer", "*.py"))):
        fname = os.path.basename(path)
        tree = ast.parse(open(path, encoding="utf-8").read())
        funcs = {}
        for fn in ast.walk(tree):
            if isinstance(fn, (ast.FunctionDef, ast.AsyncFunctionDef)):
                for n in ast.walk(fn):
                    if isinstance(n, ast.Call):
                        funcs.setdefault(id(n), fn.name)
        for n in ast.walk(tree):
            if not isinstance(n, ast.Call):
                continue
            callee = ast.unparse(n.func)
            last = callee.split(".")[-1]
            # os.path functions that only compute on strings are not sinks; those that consult the file system are
            pure_path = callee.startswith("os.path.") and last not in ("exists", "lexists", "isfile", "isdir", "islink", "ismount", "getsize", "getmtime",
                                                                          "getatime", "getctime", "realpath", "samefile", "sameopenfile")
            is_sink = (callee in ("open", "exec", "eval", "__import__", "io.open", "compile") and callee != "compile"
                       or (callee.startswith(("os.", "shutil.", "subprocess.", "tempfile.", "pickle.", "marshal.", "gzip.", "bz2.", "lzma.", "zipfile.",
                                              "importlib.", "pathlib.", "glob.")) and not pure_path and not callee.startswith("os.environ"))
                       or last in ("save", "open") and "." in callee)
            if not is_sink:
                continue
            cases += 1
            key = (fname, funcs.get(id(n), "<module>"), callee)
            if key not in _CLASSIFIED:
                fails.append(dict(file=fname, function=key[1], call=ast.unparse(n)[:120]))
    return dict(cases=cases, failures=fails[:8])


@bounded("hostile-names-under-audit-hook", props=["C15"],
         bound="quick: every combination of 5 name sources x 16 hostile names (80 generated documents) whose Encoding / CMapName / usecmap / Registry-Ordering / XObject and inline-image names are hostile strings (../, absolute paths, NUL, long, separators), processed by extract_text_to_fp with output_dir under an interpreter audit hook: no open/os event may touch the planted decoy tree or leave {output dir, cmap resource dirs, interpreter's own files}; existing files are not overwritten; thorough: 600")
def _(tier, seed):
    import io, random, sys, tempfile, shutil, gzip as _gz, pickle as _pk
    from specs.pdfgen import build, Name, Ref, Stream
    rng = random.Random(seed + 15)
    n = 40 if tier == "quick" else 600
    hl = real_module("pdfminer.high_level")
    root = tempfile.mkdtemp(prefix="c15-")
    decoy = os.path.join(root, "decoy"); outdir = os.path.join(root, "out")
    share = os.path.join(root, "share", "pdfminer"); sibling = os.path.join(root, "share", "pdfminer-private")
    os.makedirs(decoy); os.makedirs(outdir); os.makedirs(share); os.makedirs(sibling)
    for d_, nm in [(decoy, "evil"), (decoy, "to-unicode-evil"), (decoy, "to-unicode-Adobe-evil"), (sibling, "secret"), (sibling, "to-unicode-secret")]:
        with _gz.open(os.path.join(d_, nm + ".pickle.gz"), "wb") as fh:
            fh.write(_pk.dumps({"CODE2CID": {}, "IS_VERTICAL": False, "CID2UNICHR_H": {}, "CID2UNICHR_V": {}}))
    old_env = os.environ.get("CMAP_PATH")
    os.environ["CMAP_PATH"] = share
    keep = os.path.join(outdir, "keep.bmp")
    open(keep, "wb").write(b"original")
    events = []
    active = [False]
    cmapdir = os.path.join(os.path.dirname(cm.__file__), "cmap")
    allowed = (outdir, cmapdir, share + os.sep, "/usr/share/pdfminer", sys.prefix, sys.base_prefix, "/venv", "/usr/lib", os.path.dirname(os.__file__), REPO, "/verif")

    def hook(ev, args):
        if not active[0]:
            return
        if ev in ("open", "os.remove", "os.rename", "os.mkdir", "os.rmdir", "os.listdir", "os.scandir", "os.chmod", "os.truncate", "os.symlink", "os.link"):
            p = args[0]
            if isinstance(p, bytes):
                p = p.decode("latin-1")
            if isinstance(p, str):
                events.append((ev, os.path.abspath(p), args[1] if ev == "open" and len(args) > 1 else None))
    sys.addaudithook(hook)
    hostile = ["../pdfminer-private/secret", "/../pdfminer-private/secret", "../decoy/evil", decoy + "/evil", "../../decoy/evil", "evil\x00", "a/b", "..", ".", "/etc/passwd", "x" * 300, "keep", "./keep", "sub/../keep", "C:\\x", "evil"]
    failures, evals, distinct = [], 0, set()
    try:
        combos = [(w, h_) for w in ["encoding", "cmapname", "registry", "usecmap", "xobject"] for h_ in hostile]
        extra = [(rng.choice(["encoding", "cmapname", "registry", "usecmap", "xobject"]), rng.choice(hostile) + rng.choice(["", "x", "/", "\x00"])) for _ in range(max(0, n - len(combos)))]
        for where, hname in combos + extra:
            distinct.add((where, hname))
            pn = lambda s_: Name("".join(ch if ch.isalnum() or ch in "-_" else "#%02X" % ord(ch) for ch in s_))
            font = {"Type": Name("Font"), "Subtype": Name("Type0"), "BaseFont": Name("T"), "Encoding": Name("Identity-H"),
                    "DescendantFonts": [{"Type": Name("Font"), "Subtype": Name("CIDFontType2"), "BaseFont": Name("T"),
                                         "CIDSystemInfo": {"Registry": "Adobe", "Ordering": "Identity", "Supplement": 0}, "DW": 500}]}
            objs = {1: {"Type": Name("Catalog"), "Pages": Ref(2)}, 2: {"Type": Name("Pages"), "Kids": [Ref(3)], "Count": 1}}
            xobjs = {}
            if where == "encoding":
                font["Encoding"] = pn(hname)
            elif where == "cmapname":
                objs[7] = Stream({"Type": Name("CMap"), "CMapName": pn(hname)}, b"")
                font["Encoding"] = Ref(7)
            elif where == "registry":
                font["DescendantFonts"][0]["CIDSystemInfo"] = {"Registry": hname.split("/")[0] or "Adobe", "Ordering": hname, "Supplement": 0}
            elif where == "usecmap":
                objs[7] = Stream({}, ("/%s usecmap begincmap endcmap" % "".join(ch if ch.isalnum() else "#%02X" % ord(ch) for ch in hname)).encode("latin-1"))
                font["ToUnicode"] = Ref(7)
            else:
                objs[8] = Stream({"Type": Name("XObject"), "Subtype": Name("Image"), "Width": 2, "Height": 2, "BitsPerComponent": 8, "ColorSpace": Name("DeviceGray")}, b"\x00\x40\x80\xff")
                xobjs[str(pn(hname))] = Ref(8)
            content = b"BT /F1 10 Tf <0041> Tj ET " + b" ".join(b"q 10 0 0 10 0 0 cm /" + k.encode("latin-1") + b" Do Q" for k in xobjs)
            objs[3] = {"Type": Name("Page"), "Parent": Ref(2), "MediaBox": [0, 0, 100, 100], "Contents": Ref(4), "Resources": {"Font": {"F1": Ref(5)}, "XObject": xobjs}}
            objs[4] = Stream({}, content); objs[5] = font
            data = build(objs, 1)
            evals += 1
            del events[:]
            before = set(os.listdir(outdir))
            active[0] = True
            try:
                hl.extract_text_to_fp(io.BytesIO(data), io.StringIO(), output_dir=outdir)
                err = None
            except Exception as e:  # noqa: BLE001
                err = "%s: %s" % (type(e).__name__, e)
            finally:
                active[0] = False
            bad = [(ev, p) for ev, p, _m in events if p.startswith((decoy, sibling)) or not p.startswith(allowed)]
            wrote_outside = [(ev, p) for ev, p, m in events if ev == "open" and m and any(ch in str(m) for ch in "wax+") and not p.startswith(outdir)]
            if bad or wrote_outside or open(keep, "rb").read() != b"original":
                failures.append(dict(where=where, name=hname, events=(bad + wrote_outside)[:4], keep_intact=open(keep, "rb").read() == b"original", error=err))
                open(keep, "wb").write(b"original")
                if len(failures) >= 3:
                    break
            for f in set(os.listdir(outdir)) - before:
                os.remove(os.path.join(outdir, f))
    finally:
        active[0] = False
        if old_env is None:
            os.environ.pop("CMAP_PATH", None)
        else:
            os.environ["CMAP_PATH"] = old_env
        shutil.rmtree(root, ignore_errors=True)
    return dict(evaluations=evals, distinct=len(distinct), failures=failures)


# -- the extension handed to _create_unique_image_name cannot carry a path: a constant, or a %-format whose every conversion is numeric ---------------
@exhaustive("image-file-extensions-are-constants-or-numeric-formats", props=["C15", "C18"],
            note="AST: every call self._create_unique_image_name(image, EXT) in image.py passes a string constant without separator, or a name bound (in the same "
                 "function) to  '<constant template without separator>' % (...)  whose conversions are all %d (so a document value that is not a number raises "
                 "instead of being spelled into a file name); f-strings and %s are rejected")
def _():
    import re
    path = os.path.join(REPO, "pdfminer", "image.py")
    tree = ast.parse(open(path).read())
    fails, cases = [], 0

    def ok_template(s):
        return "/" not in s and "\\" not in s and "\0" not in s and ".." not in s

    def ok_ext(e, fn):
        if isinstance(e, ast.Constant) and isinstance(e.value, str):
            return ok_template(e.value)
        if isinstance(e, ast.BinOp) and isinstance(e.op, ast.Mod) and isinstance(e.left, ast.Constant) and isinstance(e.left.value, str):
            convs = re.findall(r"%[^%a-zA-Z]*([a-zA-Z%])", e.left.value)
            return ok_template(e.left.value) and all(c_ in ("d", "i", "%") for c_ in convs)
        if isinstance(e, ast.Name):
            defs = [n.value for n in ast.walk(fn) if isinstance(n, ast.Assign) and any(isinstance(t, ast.Name) and t.id == e.id for t in n.targets)]
            return bool(defs) and all(ok_ext(d, fn) for d in defs)
        return False
    for fn in ast.walk(tree):
        if not isinstance(fn, ast.FunctionDef):
            continue
        for n in ast.walk(fn):
            if isinstance(n, ast.Call) and isinstance(n.func, ast.Attribute) and n.func.attr == "_create_unique_image_name":
                cases += 1
                if len(n.args) != 2 or not ok_ext(n.args[1], fn):
                    fails.append(dict(function=fn.name, line=n.lineno, extension=ast.unparse(n.args[1]) if len(n.args) > 1 else None))
    return dict(cases=cases, failures=fails[:3])
