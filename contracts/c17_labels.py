"""C17 - page labels, outlines, named destinations, text strings."""
import ast
import z3
from pyvc.contracts import contract, fragment, lemma, bounded, exhaustive, scenario, stub, REGISTRY
from pyvc.logic import And, Or, Not, Implies, Iff, eq, le, lt, If, ne, any_z3
from pyvc import sorts as T
from pyvc.values import SObj, SymFn, SIter
from pyvc.extract import real_module

ut = real_module("pdfminer.utils")
pd = real_module("pdfminer.pdfdocument")


def roman(v):
    """standard subtractive Roman numerals, built from the value table (independent of the code)"""
    out = ""
    for val, sym in ((1000, "m"), (900, "cm"), (500, "d"), (400, "cd"), (100, "c"), (90, "xc"), (50, "l"), (40, "xl"), (10, "x"), (9, "ix"), (5, "v"), (4, "iv"), (1, "i")):
        while v >= val:
            out += sym
            v -= val
    return out


def alpha_iso(v):
    """ISO 32000-1 Table 159: a..z for the first 26 pages, aa..zz for the next 26, and so on"""
    return chr(ord("a") + (v - 1) % 26) * ((v - 1) // 26 + 1)


@exhaustive("roman-numerals-whole-domain", props=["C17"], note="format_int_roman on every value of its domain 1..3999")
def _():
    fails = [dict(value=v, got=ut.format_int_roman(v), want=roman(v)) for v in range(1, 4000) if ut.format_int_roman(v) != roman(v)]
    return dict(cases=3999, failures=fails[:3])


@exhaustive("alphabetic-labels-ISO-table-159", props=["C17"],
            note="format_int_alpha on 1..2000 against ISO Table 159; values above 26 are the recorded finding F18 (bijective base 26 instead of repeated letters; tests/test_utils.py asserts it)")
def _():
    import string
    def bijective(v):
        out = ""
        while v:
            v, r = divmod(v - 1, 26)
            out = string.ascii_lowercase[r] + out
        return out
    fails = []
    for v in range(1, 2001):
        got = ut.format_int_alpha(v)
        if got != alpha_iso(v):
            fails.append(dict(value=v, got=got, want=alpha_iso(v), known="F18" if (v > 26 and got == bijective(v)) else None))
    # report one representative per class
    known = [f for f in fails if f["known"]][:1]
    new = [f for f in fails if not f["known"]][:3]
    return dict(cases=2000, failures=new + known)


@exhaustive("label-style-dispatch", props=["C17"], note="PageLabels._format_page_label for the six styles of ISO Table 159")
def _():
    LIT = real_module("pdfminer.psparser").LIT
    f = pd.PageLabels._format_page_label
    fails = []
    for v in (1, 4, 9, 14, 26, 40, 399, 1994):
        want = {"D": str(v), "R": roman(v).upper(), "r": roman(v), None: ""}
        for st, w in want.items():
            got = f(v, LIT(st) if st else None)
            if got != w:
                fails.append(dict(style=st, value=v, got=got, want=w))
        if v <= 26:
            for st, w in (("A", alpha_iso(v).upper()), ("a", alpha_iso(v))):
                if f(v, LIT(st)) != w:
                    fails.append(dict(style=st, value=v, got=f(v, LIT(st)), want=w))
    return dict(cases=8 * 6, failures=fails[:3])


# -- label ranges: the i-th label of range r is  prefix_r + format(S_r, St_r + i) ; a range runs to the next range's start ----------------
def _range_values(fn):
    for n in ast.walk(fn):
        if isinstance(n, ast.If) and "next == len(ranges)" in ast.unparse(n.test):
            return n.orelse
    return None


c = fragment("pdfminer.pdfdocument:PageLabels.labels", "range-extent", _range_values, props=["C17"], mode="stmts")
c.param("ranges", T.Tup(T.Tup(T.Int(0, 50), T.Const({})), T.Tup(T.Int(0, 90), T.Const({})), as_list=True))
c.param("next", T.Const(1)).param("start", T.Int(0, 50)).param("first_value", T.Int(0, 100))
c.req("ranges-in-order", lambda ranges, start: And(eq(ranges[0][0], start), le(start, ranges[1][0])))
c.skip_cross = True
c.ens("range-covers-pages-up-to-the-next-range-numbered-from-St", lambda ranges, start, first_value, values: And(
    eq(_rlen(values), ranges[1][0] - start), _rfirst(values, first_value)))


def _rlen(v):
    return len(v) if isinstance(v, range) else v.length


def _rfirst(v, first):
    if isinstance(v, range):
        return len(v) == 0 or v[0] == first
    return eq(v.item(0), first)


@bounded("page-labels-outlines-destinations-on-generated-documents", props=["C17"],
         bound="quick: 120 documents: page-label number trees (flat, Kids+Limits, nested, direct/indirect nodes and arrays; styles D R r A(<=26) a(<=26) none; prefixes incl. UTF-16; St), outline forests (depth <= 3, up to 1500 siblings once), name trees for destinations (flat, Kids+Limits, absent names); thorough: 20000")
def _(tier, seed):
    import io, random
    from specs.pdfgen import build, Name, Ref
    rng = random.Random(seed + 17)
    n = 120 if tier == "quick" else 20000
    PDFParser = real_module("pdfminer.pdfparser").PDFParser
    PDFDocument = pd.PDFDocument
    failures, evals, distinct = [], 0, set()

    def fmt(style, v):
        return {None: "", "D": str(v), "R": roman(v).upper(), "r": roman(v), "A": alpha_iso(v).upper(), "a": alpha_iso(v)}[style]
    for it in range(n):
        objs = {1: {"Type": Name("Catalog"), "Pages": Ref(2)}, 2: {"Type": Name("Pages"), "Kids": [], "Count": 0}}
        nxt = [10]
        def ind(v):
            if rng.random() < 0.5:
                k = nxt[0]; nxt[0] += 1; objs[k] = v
                return Ref(k)
            return v
        # page labels
        npages = rng.randint(3, 12)
        starts = sorted(set([0] + [rng.randint(1, npages - 1) for _ in range(rng.randint(0, 3))]))
        rngs = []
        for s0 in starts:
            style = rng.choice([None, "D", "R", "r", "A", "a"])
            st = rng.randint(1, 5 if style in ("A", "a") else 60)
            prefix = rng.choice([None, b"A-", "éあ".encode("utf-16-be")])
            d = {}
            if style:
                d["S"] = Name(style)
            if st != 1 or rng.random() < 0.3:
                d["St"] = st
            if prefix is not None:
                d["P"] = (b"\xfe\xff" + prefix) if prefix[:1] == b"\x00" or prefix == "éあ".encode("utf-16-be") else prefix
            rngs.append((s0, d, style, st, prefix))
        nums = []
        for s0, d, *_ in rngs:
            nums += [s0, ind(d)]
        if len(rngs) > 1 and rng.random() < 0.5:
            mid = len(rngs) // 2 * 2
            # the arrays themselves (/Nums, /Kids, /Limits) may be indirect objects too
            tree = {"Kids": ind([ind({"Nums": ind(nums[:mid]), "Limits": ind([nums[0], nums[mid - 2]])}), ind({"Nums": nums[mid:], "Limits": [nums[mid], nums[-2]]})])}
        else:
            tree = {"Nums": ind(nums)}
        objs[1]["PageLabels"] = ind(tree)
        want_labels = []
        for i in range(npages):
            r = [x for x in rngs if x[0] <= i][-1]
            s0, d, style, st, prefix = r
            ptxt = "" if prefix is None else ("éあ" if prefix == "éあ".encode("utf-16-be") else prefix.decode("latin-1"))
            v = st + (i - s0)
            if style in ("A", "a") and v > 26:
                want_labels = None
                break
            want_labels.append(ptxt + fmt(style, v))
        # outlines
        titles = []
        def mk_items(level, count):
            ids = []
            for _k in range(count):
                k = nxt[0]; nxt[0] += 1
                ids.append(k)
            for pos, k in enumerate(ids):
                t = "T%d" % k
                d = {"Title": t.encode(), "Dest": [Ref(2), Name("Fit")]}
                titles.append((level, t))
                if pos + 1 < len(ids):
                    d["Next"] = Ref(ids[pos + 1])
                objs[k] = d
                if level < 3 and rng.random() < 0.3:
                    sub = mk_items(level + 1, rng.randint(1, 3))
                    d["First"], d["Last"] = Ref(sub[0]), Ref(sub[-1])
            return ids
        many = 1500 if it == 0 else rng.randint(1, 5)
        # document order is pre-order: rebuild titles in pre-order
        titles.clear()
        def mk_pre(level, count):
            ids = [None] * count
            for pos in range(count):
                k = nxt[0]; nxt[0] += 1
                ids[pos] = k
                ttl = "T%d" % k if (count >= 10 or rng.random() < 0.8) else rng.choice(["", " ", "0"])      # an empty title is a title
                d = {"Title": ttl.encode(), "Dest": [Ref(2), Name("Fit")]}
                titles.append((level, ttl))
                objs[k] = d
                if level < 3 and count < 10 and rng.random() < 0.3:
                    sub = mk_pre(level + 1, rng.randint(1, 3))
                    d["First"], d["Last"] = Ref(sub[0]), Ref(sub[-1])
            for pos in range(count - 1):
                objs[ids[pos]]["Next"] = Ref(ids[pos + 1])
            return ids
        top = mk_pre(1, many)
        objs[1]["Outlines"] = ind({"Type": Name("Outlines"), "First": Ref(top[0]), "Last": Ref(top[-1])})
        # named destinations
        names = sorted(set(("ch%02d" % rng.randint(0, 30)).encode() for _ in range(rng.randint(1, 8))))
        pairs = []
        for nm in names:
            pairs += [nm, [Ref(2), Name("XYZ"), names.index(nm), 0, 0]]
        if len(names) > 2 and rng.random() < 0.6:
            h = len(names) // 2
            dtree = {"Kids": [ind({"Names": pairs[:2 * h], "Limits": [names[0], names[h - 1]]}), ind({"Names": pairs[2 * h:], "Limits": [names[h], names[-1]]})]}
        else:
            dtree = {"Names": pairs}
        objs[1]["Names"] = {"Dests": ind(dtree)}
        data = build(objs, 1)
        evals += 1
        distinct.add((npages, len(rngs), many, len(names)))
        try:
            doc = PDFDocument(PDFParser(io.BytesIO(data)))
            import itertools
            got_labels = list(itertools.islice(doc.get_page_labels(), npages))
            got_out = [(lv, t) for lv, t, *_ in doc.get_outlines()]
            got_dest = []
            for nm in names:
                got_dest.append(doc.get_dest(nm))
            absent = b"zz-not-there"
            try:
                doc.get_dest(absent)
                absent_ok = False
            except pd.PDFDestinationNotFound:
                absent_ok = True
            ok = (want_labels is None or got_labels == want_labels) and got_out == titles and absent_ok and \
                all(isinstance(g, list) and g[2] == names.index(nm) for g, nm in zip(got_dest, names))
            detail = dict(labels=(got_labels, want_labels), outlines=(got_out[:6], titles[:6], len(got_out), len(titles)), absent_ok=absent_ok)
        except Exception as e:  # noqa: BLE001
            ok, detail = False, "%s: %s" % (type(e).__name__, e)
        if not ok:
            failures.append(dict(detail=str(detail)[:600]))
            if len(failures) >= 3:
                break
    return dict(evaluations=evals, distinct=len(distinct), failures=failures)


# -- PDFDocEncoding and text strings ---------------------------------------------------------------------------------------------------
def pdfdoc_iso(b):
    """ISO 32000-1 Annex D.2 (PDFDocEncoding), transcribed; None = undefined code"""
    special = {0x18: 0x02D8, 0x19: 0x02C7, 0x1A: 0x02C6, 0x1B: 0x02D9, 0x1C: 0x02DD, 0x1D: 0x02DB, 0x1E: 0x02DA, 0x1F: 0x02DC,
               0x80: 0x2022, 0x81: 0x2020, 0x82: 0x2021, 0x83: 0x2026, 0x84: 0x2014, 0x85: 0x2013, 0x86: 0x0192, 0x87: 0x2044, 0x88: 0x2039, 0x89: 0x203A,
               0x8A: 0x2212, 0x8B: 0x2030, 0x8C: 0x201E, 0x8D: 0x201C, 0x8E: 0x201D, 0x8F: 0x2018, 0x90: 0x2019, 0x91: 0x201A, 0x92: 0x2122, 0x93: 0xFB01,
               0x94: 0xFB02, 0x95: 0x0141, 0x96: 0x0152, 0x97: 0x0160, 0x98: 0x0178, 0x99: 0x017D, 0x9A: 0x0131, 0x9B: 0x0142, 0x9C: 0x0153, 0x9D: 0x0161,
               0x9E: 0x017E, 0xA0: 0x20AC}
    if b in special:
        return special[b]
    if b in (0x7F, 0x9F, 0xAD):
        return None
    if b in (0x09, 0x0A, 0x0D) or 0x20 <= b <= 0x7E or 0xA1 <= b <= 0xFF:
        return b
    return "control"     # 0x00-0x17 except HT LF CR: printings of the standard differ; only required to be a single character


@exhaustive("text-string-decoding", props=["C17"],
            note="decode_text on every single byte (PDFDocEncoding, ISO Annex D.2 transcription; control codes and the three undefined codes only checked for length), on bytes embedded in longer strings, and on UTF-16BE strings with byte-order mark incl. surrogate pairs")
def _():
    fails, cases = [], 0
    for b in range(256):
        want = pdfdoc_iso(b)
        for ctxs in (b"", b"AB"):
            cases += 1
            s = ctxs + bytes([b]) + ctxs
            got = ut.decode_text(s)
            if len(got) != len(s):
                fails.append(dict(data=s.hex(), got=got, reason="length"))
            elif isinstance(want, int) and got[len(ctxs)] != chr(want):
                fails.append(dict(data=s.hex(), got=got, want=chr(want)))
    for text in ("", "Aé", "日本語", "\U0001F600x", "A\x00B"):
        cases += 1
        got = ut.decode_text(b"\xfe\xff" + text.encode("utf-16-be"))
        if got != text:
            fails.append(dict(data=text, got=got))
    return dict(cases=cases, failures=fails[:4])


# -- name tree lookup: a node is skipped exactly when the key lies outside its closed /Limits interval ----------------------------------
def _limits_block(fn):
    for n in ast.walk(fn):
        if isinstance(n, ast.If) and ast.unparse(n.test) == "'Limits' in d":
            return [n]
    return None


c = fragment("pdfminer.pdfdocument:PDFDocument.lookup_name.lookup", "limits-pruning", _limits_block, props=["C17"], mode="stmts")
c.param("d", T.Tup(as_list=True)).param("key", T.Int(0, 100)).param("lo", T.Int(0, 100)).param("hi", T.Int(0, 100))
c.skip_cross = True
c.wire = lambda bound, ghosts: bound.__setitem__("d", {"Limits": [bound["lo"], bound["hi"]]})
c.req("limits-ordered", lambda lo, hi: le(lo, hi))
c.ens("pruned-iff-key-outside-the-closed-interval", lambda key, lo, hi, __exit__, **kw: True)
c.ensures[-1] = ("pruned-iff-key-outside-the-closed-interval", lambda key, lo, hi, __exit__: Iff(__exit__ == "return", Or(lt(key, lo), lt(hi, key))))


# -- get_dest: the name tree first (PDF 1.2+), the catalog's /Dests dictionary only when the name tree has no answer (ISO 32000-1 12.3.2.3) ---------------
class _Catalog(T.Sort):
    SHAPES = ["no-dests", "dests-empty", "dests-has-name", "dests-has-other"]
    def fresh(self, ctx, name):
        k = ctx.choose(self.SHAPES, "catalog")
        cat = {"Type": "Catalog"}
        if k == "dests-empty":
            cat["Dests"] = {}
        elif k == "dests-has-name":
            cat["Dests"] = {"chapter1": "old-style-dest"}
        elif k == "dests-has-other":
            cat["Dests"] = {"other": "other-dest"}
        return SObj(pd.PDFDocument, {"catalog": cat, "_shape": k}, name)
    def sample(self, rng):
        return None
    def from_model(self, ev, v):
        return v.f["_shape"]


_ln = stub("pdfminer.pdfdocument:PDFDocument.lookup_name", ["self", "cat", "key"], T.Const("dest-from-name-tree"))
_ln.may_raise(pd.PDFKeyError, None)
c = contract("pdfminer.pdfdocument:PDFDocument.get_dest", props=["C17"])
c.param("self", _Catalog()).param("name", T.Const("chapter1"))
c.skip_cross = True
c.stubs = {"pdfminer.pdfdocument:PDFDocument.lookup_name": _ln}
c.returns(T.Opaque("dest"))
c.may_raise(pd.PDFDestinationNotFound, lambda self, trace: (len(trace) == 1 and "__result__" not in trace[0][1] and self._shape != "dests-has-name"))
c.ens("name-tree-answer-wins-else-the-old-style-dictionary", lambda self, name, result, trace: (
    len(trace) == 1 and trace[0][1]["cat"] == "Dests" and trace[0][1]["key"] == name
    and (result == "dest-from-name-tree" if "__result__" in trace[0][1] else (self._shape == "dests-has-name" and result == "old-style-dest"))))


# -- NumberTree._parse: the entries of the leaves in tree order (own /Nums before /Kids), keys through int_value -------------------------------------------
class _NumTree(T.Sort):
    """number trees of depth <= 3 with symbolic integer keys; values are tags; a node may carry /Nums, /Kids, both or neither"""
    SHAPES = {
        "leaf-0": lambda k: {"Nums": []},
        "leaf-1": lambda k: {"Nums": [k[0], "v0"]},
        "leaf-3": lambda k: {"Nums": [k[0], "v0", k[1], "v1", k[2], "v2"], "Limits": [k[0], k[2]]},
        "leaf-odd-tail": lambda k: {"Nums": [k[0], "v0", k[1]]},
        "kids-2": lambda k: {"Kids": [{"Nums": [k[0], "v0", k[1], "v1"]}, {"Nums": [k[2], "v2"]}]},
        "kids-deep": lambda k: {"Kids": [{"Kids": [{"Nums": [k[0], "v0"]}, {"Nums": [k[1], "v1"]}], "Limits": [k[0], k[1]]}, {"Nums": [k[2], "v2", k[3], "v3"]}]},
        "nums-and-kids": lambda k: {"Nums": [k[0], "v0"], "Kids": [{"Nums": [k[1], "v1"]}]},
        "empty-node": lambda k: {},
        "empty-kid": lambda k: {"Kids": [{}, {"Nums": [k[0], "v0"]}, {"Kids": []}]},
    }
    EXPECT = {"leaf-0": [], "leaf-1": [0], "leaf-3": [0, 1, 2], "leaf-odd-tail": [0], "kids-2": [0, 1, 2], "kids-deep": [0, 1, 2, 3], "nums-and-kids": [0, 1], "empty-node": [],
              "empty-kid": [0]}
    def fresh(self, ctx, name):
        shape = ctx.choose(sorted(self.SHAPES), "tree-shape")
        ks = [ctx.fresh_int("key%d" % i) for i in range(4)]
        return SObj(None, {"obj": self.SHAPES[shape](ks), "_shape": shape, "_keys": ks}, name)
    def sample(self, rng):
        return None
    def from_model(self, ev, v):
        return {"shape": v.f["_shape"], "keys": [int(str(ev(k))) for k in v.f["_keys"]]}


sc = scenario("pdfminer.data_structures", "number-tree-flattening", """
def flatten(tree):
    return NumberTree(tree.obj)._parse()
""", props=["C17"])
sc.param("tree", _NumTree())
sc.skip_cross = True
sc.returns(T.Opaque("items"))
sc.ens("entries-of-the-leaves-in-tree-order", lambda tree, result: (
    len(result) == len(_NumTree.EXPECT[tree._shape])
    and And(*[And(eq(result[j][0], tree._keys[i]), result[j][1] == "v%d" % i) for j, i in enumerate(_NumTree.EXPECT[tree._shape])])))


# -- NumberTree.values (lenient mode): the flattened entries, stably sorted by key ------------------------------------------------------------------------
_np = stub("pdfminer.data_structures:NumberTree._parse", ["self"])
c = contract("pdfminer.data_structures:NumberTree.values", props=["C17"])
c.param("self", T.Obj("pdfminer.data_structures:NumberTree")).ghost("k0", T.Int()).ghost("k1", T.Int()).ghost("k2", T.Int())
c.skip_cross = True
_np.result_fn = ("entries", lambda self: [(self.f["_k"][0], "v0"), (self.f["_k"][1], "v1"), (self.f["_k"][2], "v2")])
c.wire = lambda bound, ghosts: bound["self"].f.__setitem__("_k", [ghosts["k0"], ghosts["k1"], ghosts["k2"]])
c.stubs = {"pdfminer.data_structures:NumberTree._parse": _np}
c.returns(T.Opaque("values"))


def _sorted_stable(result, k0, k1, k2):
    ks = {"v0": k0, "v1": k1, "v2": k2}
    if sorted(x[1] for x in result) != ["v0", "v1", "v2"]:
        return False
    conds = []
    for a, b in zip(result, result[1:]):
        conds.append(le(a[0], b[0]))
        if a[1] > b[1]:                     # a later entry moved in front of an earlier one: only when its key is strictly smaller
            conds.append(lt(ks[a[1]], ks[b[1]]))
    return And(*[eq(x[0], ks[x[1]]) for x in result], *conds)


c.ens("a-permutation-of-the-entries-ascending-by-key-ties-in-tree-order", lambda result, k0, k1, k2: _sorted_stable(result, k0, k1, k2))


# -- outlines: items in document order, children right after their parent, one level deeper ---------------------------------------------------------------
class _Outline(T.Sort):
    """outline hierarchies of up to five items: the shape (which of /Title /First+/Last /Next /Dest /A are present) is chosen, the values are tags"""
    def fresh(self, ctx, name):
        shape = ctx.choose(["empty", "one", "two-siblings", "parent-child-sibling", "grandchild", "untitled-parent", "first-without-last", "headings-only"], "outline-shape")
        T_ = lambda t, **kw: dict({"Title": t}, **kw)
        if shape == "empty":
            root, want = {}, []
        elif shape == "one":
            a = T_(b"A", Dest="dA")
            root, want = {"First": a, "Last": a}, [(1, "A", "dA", None, None)]
        elif shape == "two-siblings":
            b = T_(b"B", A="aB")
            a = T_(b"A", Dest="dA", Next=b)
            root, want = {"First": a, "Last": b}, [(1, "A", "dA", None, None), (1, "B", None, "aB", None)]
        elif shape == "parent-child-sibling":
            a1 = T_(b"A1", Dest="dA1", SE="seA1")
            b = T_(b"B", Dest="dB")
            a = T_(b"A", Dest="dA", First=a1, Last=a1, Next=b)
            root, want = {"First": a, "Last": b}, [(1, "A", "dA", None, None), (2, "A1", "dA1", None, "seA1"), (1, "B", "dB", None, None)]
        elif shape == "grandchild":
            a11 = T_(b"A11")
            a12 = T_(b"A12")
            a11["Next"] = a12
            a1 = T_(b"A1", First=a11, Last=a12)
            a2 = T_(b"A2")
            a1["Next"] = a2
            a = T_(b"A", First=a1, Last=a2)
            root, want = {"First": a, "Last": a}, [(1, "A", None, None, None), (2, "A1", None, None, None), (3, "A11", None, None, None), (3, "A12", None, None, None),
                                                    (2, "A2", None, None, None)]
        elif shape == "untitled-parent":
            a1 = T_(b"A1", Dest="dA1")
            a = {"First": a1, "Last": a1}
            root, want = {"First": a, "Last": a}, [(2, "A1", "dA1", None, None)]
        elif shape == "first-without-last":
            a1 = T_(b"A1")
            a = T_(b"A", First=a1)
            root, want = {"First": a, "Last": a}, [(1, "A", None, None, None)]
        else:
            b = T_(b"B")
            a = T_(b"A", Next=b)
            root, want = {"First": a, "Last": b}, [(1, "A", None, None, None), (1, "B", None, None, None)]
        return SObj(None, {"catalog": {"Outlines": root}, "_shape": shape, "_want": want}, name)
    def sample(self, rng):
        return None
    def from_model(self, ev, v):
        return v.f["_shape"]


sc = scenario("pdfminer.pdfdocument", "outline-items-in-document-order-with-levels", """
def outline(doc):
    return list(PDFDocument.get_outlines(doc))
""", props=["C17"])
sc.param("doc", _Outline())
sc.inline_callees = True
sc.skip_cross = True
sc.returns(T.Opaque("items"))
sc.ens("preorder-with-nesting-levels-and-optional-entries", lambda doc, result: [tuple(x) for x in result] == doc._want)


# -- NumberTree.__init__: the node and each of its arrays may be indirect objects - every one of them is taken through dict_value / list_value --------------------
_dv = stub("pdfminer.pdftypes:dict_value", ["x"]); _dv.result_fn = ("resolved-dict", lambda x: x.f["_target"] if isinstance(x, SObj) and "_target" in x.f else x)
_lv17 = stub("pdfminer.pdftypes:list_value", ["x"]); _lv17.result_fn = ("resolved-list", lambda x: ("resolved", x))


class _NodeObj(T.Sort):
    def fresh(self, ctx, name):
        has = {k: ctx.choose([True, False], "has-" + k) for k in ("Nums", "Kids", "Limits")}
        node = {k: "value-of-" + k for k in has if has[k]}
        indirect = ctx.choose([False, True], "node-is-indirect")
        return SObj(None, {"_target": node, "_has": has, "_indirect": indirect}, name) if indirect else SObj(None, {"_target": node, "_has": has, "_indirect": False, "_inline": True}, name)
    def sample(self, rng):
        return None
    def from_model(self, ev, v):
        return {"has": v.f["_has"], "indirect": v.f["_indirect"]}


c = contract("pdfminer.data_structures:NumberTree.__init__", props=["C17"])
c.param("self", T.Obj("pdfminer.data_structures:NumberTree")).param("obj", _NodeObj())
c.skip_cross = True
c.stubs = {"pdfminer.pdftypes:dict_value": _dv, "pdfminer.pdftypes:list_value": _lv17}
c.inline = True          # callers execute the body; this contract is checked on its own
c.mod("self.*")
c.ens("node-through-dict_value-each-present-array-through-list_value-absent-ones-None", lambda self, obj, trace: (
    trace[0][0].endswith("dict_value") and trace[0][1]["x"] is obj
    and sorted(t[1]["x"] for t in trace[1:]) == sorted("value-of-" + k for k in obj._has if obj._has[k]) and all(t[0].endswith("list_value") for t in trace[1:])
    and self.nums == (("resolved", "value-of-Nums") if obj._has["Nums"] else None)
    and self.kids == (("resolved", "value-of-Kids") if obj._has["Kids"] else None)
    and self.limits == (("resolved", "value-of-Limits") if obj._has["Limits"] else None)))
