"""C01 - object syntax: assembly of arrays/dictionaries/references above the tokenizer (lexical layer: c14_tokenizer.py)."""
import ast
import z3
from pyvc.contracts import contract, fragment, lemma, bounded, exhaustive, scenario, stub, REGISTRY
from pyvc.logic import And, Or, Not, Implies, Iff, eq, le, lt, If, ne, any_z3
from pyvc import sorts as T
from pyvc.values import SObj, SBytes, SList, SymFn
from pyvc.extract import real_module

ps = real_module("pdfminer.psparser")
pp = real_module("pdfminer.pdfparser")


class Stack(T.Sort):
    """a stack of (pos, object) entries: 0..3 entries"""
    def fresh(self, ctx, name):
        n = ctx.choose([0, 1, 2, 3], name + "-depth")
        return [(ctx.fresh_int("%s_pos%d" % (name, i)), SObj(real_module("builtins").object, {}, "%s_obj%d" % (name, i))) for i in range(n)]
    def sample(self, rng):
        return [(rng.randint(0, 99), object()) for _ in range(rng.randint(0, 3))]
    def from_model(self, ev, v):
        return [(int(ev(p)), "obj%d" % i) for i, (p, _o) in enumerate(v)]


def same_list(a, b):
    return len(a) == len(b) and all(x is y or (isinstance(x, tuple) and isinstance(y, tuple) and len(x) == len(y) and all(
        (p is q) or (not isinstance(p, SObj) and not isinstance(q, SObj) and eq(p, q) is True) or (any_z3(p, q) and p is q) for p, q in zip(x, y))) for x, y in zip(a, b))


SP = lambda **kw: T.Obj("pdfminer.psparser:PSStackParser", curstack=Stack(), **kw)

c = contract("pdfminer.psparser:PSStackParser.pop", props=["C01"], inline=True)
c.param("self", SP()).param("n", T.OneOf(1, 2, 4))
c.mod("self.curstack")
c.skip_cross = True
c.ens("removes-and-returns-the-top-n-in-order", lambda self, old, n, result: (
    same_list(result, old.self.curstack[-n:]) and same_list(self.curstack, old.self.curstack[:-n]))
    if False else And(len(result) == min(n, len(old.self.curstack)), len(self.curstack) == max(0, len(old.self.curstack) - n)))

# start_type / end_type: bracket discipline
c = scenario("pdfminer.psparser", "open_push_close", '''
def open_push_close(self, pos, a, b):
    self.start_type(pos, "a")
    self.push(a, b)
    return self.end_type("a")
''', props=["C01"])
c.param("self", T.Obj("pdfminer.psparser:PSStackParser", curstack=Stack(), context=T.Tup(as_list=True), curtype=T.OneOf(None, "d")))
c.param("pos", T.Int(0)).param("a", T.Tup(T.Int(0), T.Int(0, 99))).param("b", T.Tup(T.Int(0), T.Int(0, 99)))
c.skip_cross = True
c.ens("array-holds-the-objects-between-the-brackets-outer-context-restored", lambda self, old, pos, a, b, result: And(
    eq(result[0], pos), len(result[1]) == 2, eq(result[1][0], a[1]), eq(result[1][1], b[1]),
    len(self.curstack) == len(old.self.curstack), self.curtype == old.self.curtype, len(self.context) == 0))

PSTypeError = real_module("pdfminer.psexceptions").PSTypeError
c = contract("pdfminer.psparser:PSStackParser.end_type#mismatch", props=["C01"])
c.param("self", T.Obj("pdfminer.psparser:PSStackParser", curstack=Stack(), context=T.Tup(as_list=True), curtype=T.OneOf(None, "a", "d")))
c.param("type", T.OneOf("a", "d"))
c.skip_cross = True
c.may_raise(PSTypeError, lambda self, type: self.curtype != type)
c.may_raise(IndexError, lambda self, type: self.curtype == type)     # (context empty: cannot happen when curtype was set by start_type)
c.ens("never-closes-a-bracket-of-another-kind", lambda self, type: False)


# dictionary assembly inside nextobject: keys are names, null values drop the key
def _dict_build(fn):
    for n in ast.walk(fn):
        if isinstance(n, ast.Assign) and isinstance(n.value, ast.DictComp):
            return n.value
    return None


class _KV(T.Sort):
    def fresh(self, ctx, name):
        n = ctx.choose([0, 1, 2], "pairs")
        lit = ps.LIT
        out = []
        for i in range(n):
            out.append(lit("K%d" % i))
            out.append(ctx.choose([None, "v"], "val%d" % i) and ctx.fresh_int("v%d" % i))
        return out
    def sample(self, rng):
        out = []
        for i in range(rng.randint(0, 2)):
            out += [ps.LIT("K%d" % i), rng.choice([None, 0, 5])]
        return out
    def from_model(self, ev, v):
        return [x if not isinstance(x, z3.ExprRef) else int(ev(x)) for x in v]
    def jsonable(self, c):
        return [str(x) for x in c]


c = fragment("pdfminer.psparser:PSStackParser.nextobject", "dictionary-assembly", _dict_build, props=["C01"])
c.param("objs", _KV())
c.skip_cross = True
c.ens("name-keys-and-null-means-absent", lambda objs, result: (
    set(result.keys()) == {"K%d" % (i // 2) for i in range(0, len(objs), 2) if objs[i + 1] is not None}
    and all(result["K%d" % (i // 2)] is objs[i + 1] for i in range(0, len(objs), 2) if objs[i + 1] is not None)))


# indirect references and null in both parsers
class _RefStack(T.Sort):
    def fresh(self, ctx, name):
        n = ctx.choose([0, 1, 2, 3], "depth")
        kinds = [ctx.choose(["int", "other"], "k%d" % i) for i in range(n)]
        st = [(ctx.fresh_int("p%d" % i), ctx.fresh_int("n%d" % i) if k == "int" else b"x") for i, k in enumerate(kinds)]
        return st
    def sample(self, rng):
        return None
    def from_model(self, ev, v):
        return [(int(ev(p)), x if isinstance(x, bytes) else int(ev(x))) for p, x in v]


for _cls in ("PDFParser", "PDFStreamParser"):
    c = contract("pdfminer.pdfparser:%s.do_keyword#R-and-null" % _cls, props=["C01", "C02"])
    c.param("self", T.Obj("pdfminer.pdfparser:%s" % _cls, curstack=_RefStack(), doc=T.Opaque("doc")))
    c.param("pos", T.Int(0)).param("token", T.OneOf("R", "null"))
    c.skip_cross = True
    c.wire = (lambda cls: lambda bound, ghosts: bound.__setitem__("token", getattr(getattr(pp, cls), "KEYWORD_" + bound["token"].upper())))(_cls)
    c.mod("self.curstack")
    c.ens("reference-from-the-two-topmost-entries-null-is-the-null-object", lambda self, old, pos, token: _ref_spec(self, old, pos, token))


def _ref_spec(self, old, pos, token):
    st0, st = old.self.curstack, self.curstack
    if token is pp.PDFParser.KEYWORD_NULL:
        return len(st) == len(st0) + 1 and st[-1][1] is None and (st[-1][0] is pos)
    if len(st0) < 2:
        return len(st) == len(st0)
    objid = st0[-2][1]
    if isinstance(objid, bytes):
        return len(st) == len(st0) - 2
    top = st[-1][1]
    return And(len(st) == len(st0) - 1, isinstance(top, SObj) and top.cls.__name__ == "PDFObjRef", eq(top.objid, objid) if isinstance(top, SObj) else False)


@bounded("ISO-spellings-read-back-as-the-value", props=["C01"],
         bound="quick: 400 random object trees (depth <= 3) each in 2 random conformant spellings, read through PDFStreamParser at BUFSIZ 4096,1,2,3,7 and through PDFDocument.getobj at two file offsets; thorough: 60000 trees")
def _(tier, seed):
    import io, random
    from specs import isolex as IL
    from specs.pdfgen import build, Name, Ref, Raw
    rng = random.Random(seed + 1)
    n = 400 if tier == "quick" else 60000
    PS = real_module("pdfminer.psparser")
    saved = PS.PSBaseParser.BUFSIZ
    PDFStreamParser = pp.PDFStreamParser
    PDFParser = pp.PDFParser
    PDFDocument = real_module("pdfminer.pdfdocument").PDFDocument
    PDFObjRef = real_module("pdfminer.pdftypes").PDFObjRef
    failures, evals, distinct = [], 0, set()

    def same(got, want):
        if want is None or isinstance(want, bool):
            return got is want
        if isinstance(want, IL.PRef):
            return isinstance(got, PDFObjRef) and got.objid == want[0]
        if isinstance(want, int):
            return isinstance(got, int) and not isinstance(got, bool) and got == want
        if isinstance(want, float):
            return isinstance(got, float) and got == want
        if isinstance(want, IL.PName):
            if not isinstance(got, PS.PSLiteral):
                return False
            nm = got.name
            return (nm.encode("utf-8") if isinstance(nm, str) else nm) == bytes(want)
        if isinstance(want, bytes):
            return isinstance(got, bytes) and got == want
        if isinstance(want, list):
            return isinstance(got, list) and len(got) == len(want) and all(same(a, b) for a, b in zip(got, want))
        if isinstance(want, dict):
            exp = {}
            for k, v in want.items():
                try:
                    kk = bytes(k).decode("utf-8")
                except UnicodeDecodeError:
                    kk = str(bytes(k))
                exp[kk] = v
            return isinstance(got, dict) and set(got) == set(exp) and all(same(got[k], v) for k, v in exp.items())
        return False

    try:
        for _ in range(n):
            v = IL.gen_value(rng)
            if isinstance(v, IL.PRef):
                v = [v]          # a reference is only assembled inside a container (or an 'obj' body)
            for _rep in range(2):
                text = IL.spell(v, rng)
                distinct.add(text)
                for bs in (4096, 1, 2, 3, 7):
                    PS.PSBaseParser.BUFSIZ = bs
                    evals += 1
                    try:
                        p = PDFStreamParser(text + b" ")
                        got = p.nextobject()[1]
                        ok = same(got, v)
                    except Exception as e:  # noqa: BLE001
                        ok, got = False, "%s: %s" % (type(e).__name__, e)
                    if not ok:
                        failures.append(dict(spelling=text.decode("latin-1"), bufsiz=bs, got=repr(got)[:200], want=repr(v)[:200]))
                        break
                if failures and failures[-1].get("spelling") == text.decode("latin-1"):
                    break
                PS.PSBaseParser.BUFSIZ = rng.choice([4096, 5])
                for pad in (0, rng.randint(1, 9)):
                    objs = {1: {"Type": Name("Catalog")}, 3: Raw(b"%" * pad + b"\n" + text if pad else text)}
                    evals += 1
                    try:
                        doc = PDFDocument(PDFParser(io.BytesIO(build(objs, 1))))
                        got = doc.getobj(3)
                        ok = same(got, v)
                    except Exception as e:  # noqa: BLE001
                        ok, got = False, "%s: %s" % (type(e).__name__, e)
                    if not ok:
                        failures.append(dict(spelling=text.decode("latin-1"), via="getobj", got=repr(got)[:200], want=repr(v)[:200]))
                        break
            if len(failures) >= 3:
                break
    finally:
        PS.PSBaseParser.BUFSIZ = saved
    return dict(evaluations=evals, distinct=len(distinct), failures=failures[:3])


@exhaustive("odd-length-hex-string-final-digit-followed-by-0", props=["C01"],
            note="ISO 32000-1 7.3.4.3; recorded finding F03 (the repository's own test-suite asserts the deviating value, so it cannot be repaired here)")
def _():
    fails = []
    for text, want, deviant in ((b"<901FA>", b"\x90\x1f\xa0", b"\x90\x1f\x0a"), (b"<4>", b"\x40", b"\x04"),
                                (b"<abcd00\n12345>", b"\xab\xcd\x00\x12\x34\x50", b"\xab\xcd\x00\x12\x34\x05"), (b"<41 4>", b"A@", b"A\x04")):
        got = pp.PDFStreamParser(text + b" ").nextobject()[1]
        if got != want:
            # only the recorded deviation (last digit read as a low nibble) is the known finding
            fails.append(dict(text=text.decode(), got=got.hex() if isinstance(got, bytes) else repr(got), want=want.hex(), known="F03" if got == deviant else None))
    return dict(cases=4, failures=fails)


# -- interning (C01, C12): a name is the object the table holds for its spelling - for ever.  The table is abstract here: any number of entries, the asked name
#    present or not; whatever else the function does with the table (delete, clear, pop, replace) is recorded and refused --------------------------------------
class _AbstractTable:
    """a dict of unknown size: membership of the one name asked for is a choice, the size is a symbolic number, every mutation is logged"""
    def __init__(self, ctx, present):
        self.present, self.held = present, "the-object-held-for-this-name"
        self.size = ctx.fresh_int("table_size")
        ctx.assume(self.size >= (1 if present else 0))
        self.log = []
    def __sym_len__(self, I):
        return self.size
    def __sym_contains__(self, I, x, node):
        return self.present if x == "the-name" else False
    def __sym_getitem__(self, I, idx, node):
        from pyvc.symexec import SymRaise
        if idx == "the-name" and self.present:
            return self.held
        raise SymRaise(KeyError, "name not in table")
    def __sym_setitem__(self, I, idx, v, node):
        self.log.append(("set", idx, v))
        if idx == "the-name":
            self.present, self.held = True, v
    def __sym_getattr__(self, I, name, node):
        from pyvc.values import SymFn as _SF
        if name in ("clear", "pop", "popitem", "update", "setdefault", "__delitem__"):
            return _SF(lambda I2, *a, **k: self.log.append((name,) + tuple(a)), name)
        if name == "get":
            return _SF(lambda I2, k, d=None: self.held if (k == "the-name" and self.present) else d, "get")
        raise AttributeError(name)


class _SymTab(T.Sort):
    def fresh(self, ctx, name):
        present = ctx.choose([True, False], "name-already-interned")
        tab = _AbstractTable(ctx, present)
        made = []
        klass = SymFn(lambda I, nm: (made.append(nm), SObj(None, {"name": nm, "_fresh": True}, "new-symbol"))[1], "klass")
        return SObj(real_module("pdfminer.psparser").PSSymbolTable, {"dict": tab, "klass": klass, "_made": made, "_present": present}, name)
    def sample(self, rng):
        return None
    def from_model(self, ev, v):
        return {"already_interned": v.f["_present"], "table_size": int(str(ev(v.f["dict"].size)))}


c = contract("pdfminer.psparser:PSSymbolTable.intern", props=["C01", "C12"])
c.param("self", _SymTab()).param("name", T.Const("the-name"))
c.skip_cross = True
c.inline = True
c.mod("self.dict").mod("self._made")
c.returns(T.Opaque("symbol"))
c.ens("the-object-already-held-or-one-new-object-stored-under-the-name-nothing-else-touched", lambda self, old, result: (
    (result == "the-object-held-for-this-name" and self.dict.log == [] and self._made == []) if old.self._present
    else (self._made == ["the-name"] and len(self.dict.log) == 1 and self.dict.log[0][0] == "set" and self.dict.log[0][1] == "the-name" and self.dict.log[0][2] is result
          and isinstance(result, SObj) and result.f.get("_fresh") is True)))


# -- the value stack of PSStackParser (C01: arrays and dictionaries are assembled with it; C18: inline images; C07: CMap operands) --------------------------------
sc = scenario("pdfminer.psparser", "value-stack-push-popall-results", """
def stack_ops(p):
    p.push((10, "v1"))
    p.push((20, "v2"), (30, "v3"))
    top = p.pop(1)
    p.add_results((40, "r1"), (50, "r2"))
    rest = p.popall()
    after = (list(p.curstack), list(p.results))
    p.reset()
    return (top, rest, after, (p.context, p.curtype, p.curstack, p.results))
""", props=["C01", "C18", "C07"])
sc.param("p", T.Obj("pdfminer.psparser:PSStackParser", curstack=T.Const(None), results=T.Const(None), context=T.Const(None), curtype=T.Const(None)))
sc.wire = lambda bound, ghosts: bound["p"].f.update(curstack=[(0, "v0")], results=[], context=[("outer",)], curtype="a")
sc.skip_cross = True
sc.inline_callees = True
sc.mod("p.*")
sc.returns(T.Opaque("observations"))
sc.ens("push-appends-in-order-pop-takes-from-the-top-popall-empties-results-queue-in-order-reset-clears-everything", lambda result: (
    list(result[0]) == [(30, "v3")] and list(result[1]) == [(0, "v0"), (10, "v1"), (20, "v2")]
    and result[2] == ([], [(40, "r1"), (50, "r2")]) and result[3] == ([], None, [], [])))
