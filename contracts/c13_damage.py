"""C13 - damaged input: errors stay in the library's family and work stays bounded.
Contracts: the lenient typed accessors are total and type-correct; reference chasing terminates; every exception class the package
raises belongs to the family.  The property's own quantifier (single structural faults, truncation) is run as a bounded stand-in."""
import ast
import os
import z3
from pyvc.contracts import contract, fragment, lemma, bounded, exhaustive, scenario, stub, REGISTRY
from pyvc.logic import And, Or, Not, Implies, Iff, eq, le, lt, If, ne
from pyvc import sorts as T
from pyvc.values import SObj, SymFn
from pyvc.extract import real_module, REPO

pt = real_module("pdfminer.pdftypes")
psx = real_module("pdfminer.psexceptions")


# =====================================================================================================================================
# seed documents (object models) and fault injection
# =====================================================================================================================================
def seed_models():
    import zlib
    from specs.pdfgen import Name, Ref, Stream
    from specs.codecs import png_filter_encode, lzw_encode, rl_encode, ahx_encode, a85_encode, tiff_pred_encode
    FD = {"Type": Name("FontDescriptor"), "FontName": Name("F"), "Flags": 32, "FontBBox": [0, -200, 1000, 800], "ItalicAngle": 0, "Ascent": 800, "Descent": -200,
          "CapHeight": 700, "StemV": 80}
    gray = bytes(range(0, 240, 10))            # 6 x 4 samples
    models = {}
    # -- S1: classic table, inherited attributes, simple font with Differences, outlines, labels, image with PNG predictor, form
    s1 = {
        1: {"Type": Name("Catalog"), "Pages": Ref(2), "Outlines": Ref(20), "PageLabels": {"Nums": [0, {"S": Name("r")}, 1, {"S": Name("D"), "St": 5, "P": "A-"}]}},
        2: {"Type": Name("Pages"), "Kids": [Ref(3), Ref(6)], "Count": 2, "MediaBox": [0, 0, 300, 300], "Resources": {"Font": {"F1": Ref(5)}, "XObject": {"Im1": Ref(9), "Fm1": Ref(10)}}, "Rotate": 0},
        3: {"Type": Name("Page"), "Parent": Ref(2), "Contents": Ref(4)},
        4: Stream({"Filter": Name("FlateDecode")}, zlib.compress(b"BT /F1 12 Tf 20 200 Td (Hello) Tj 0 -14 Td [(W) -120 (orld)] TJ ET q 50 0 0 40 100 100 cm /Im1 Do Q q 1 0 0 1 10 10 cm /Fm1 Do Q 10 10 30 30 re S")),
        5: {"Type": Name("Font"), "Subtype": Name("Type1"), "BaseFont": Name("Helvetica"), "FirstChar": 32, "Widths": [500] * 95, "FontDescriptor": Ref(8),
            "Encoding": {"Type": Name("Encoding"), "BaseEncoding": Name("WinAnsiEncoding"), "Differences": [72, Name("alpha")]}},
        6: {"Type": Name("Page"), "Parent": Ref(2), "Contents": [Ref(7), Ref(11)], "Rotate": 90},
        7: Stream({}, b"BT /F1 10 Tf 30 100 Td (second"),
        11: Stream({}, b" page) Tj ET"),
        8: FD,
        9: Stream({"Type": Name("XObject"), "Subtype": Name("Image"), "Width": 6, "Height": 4, "BitsPerComponent": 8, "ColorSpace": Name("DeviceGray"), "Filter": Name("FlateDecode"),
                   "DecodeParms": {"Predictor": 15, "Colors": 1, "Columns": 6, "BitsPerComponent": 8}}, zlib.compress(png_filter_encode(gray, 1, 6, 8, [1, 2, 3, 4]))),
        10: Stream({"Type": Name("XObject"), "Subtype": Name("Form"), "BBox": [0, 0, 50, 50], "Matrix": [1, 0, 0, 1, 0, 0], "Resources": {"Font": {"F1": Ref(5)}}}, b"BT /F1 8 Tf (in form) Tj ET"),
        20: {"Type": Name("Outlines"), "First": Ref(21), "Last": Ref(22), "Count": 2},
        21: {"Title": "One", "Parent": Ref(20), "Next": Ref(22), "Dest": [Ref(3), Name("Fit")]},
        22: {"Title": "Two", "Parent": Ref(20), "Prev": Ref(21), "A": {"S": Name("GoTo"), "D": [Ref(6), Name("XYZ"), 0, 0, 0]}},
    }
    models["classic"] = dict(objs=s1, root=1, form="table", pack=())
    # -- S2: cross-reference stream, object streams, composite font with ToUnicode and W, inline image
    tou = (b"/CIDInit /ProcSet findresource begin 12 dict begin begincmap 1 begincodespacerange <0000> <FFFF> endcodespacerange 2 beginbfchar <0001> <0041> <0002> <00E9> endbfchar "
           b"1 beginbfrange <0010> <0012> <0061> endbfrange endcmap CMapName currentdict /CMap defineresource pop end end")
    s2 = {
        1: {"Type": Name("Catalog"), "Pages": Ref(2)},
        2: {"Type": Name("Pages"), "Kids": [Ref(3)], "Count": 1},
        3: {"Type": Name("Page"), "Parent": Ref(2), "MediaBox": [0, 0, 400, 400], "Contents": Ref(4), "Resources": {"Font": {"F1": Ref(5)}, "ColorSpace": {"CS0": [Name("ICCBased"), Ref(12)]}}},
        4: Stream({}, b"/CS0 cs 0.1 0.2 0.3 sc BT /F1 10 Tf 10 300 Td <000100020010> Tj [<0011> 50 <0012>] TJ ET BI /W 2 /H 2 /BPC 8 /CS /G ID abcd EI BT /F1 9 Tf 10 200 Td <0001> Tj ET"),
        5: {"Type": Name("Font"), "Subtype": Name("Type0"), "BaseFont": Name("Comp"), "Encoding": Name("Identity-H"), "DescendantFonts": [Ref(6)], "ToUnicode": Ref(7)},
        6: {"Type": Name("Font"), "Subtype": Name("CIDFontType2"), "BaseFont": Name("Comp"), "CIDSystemInfo": {"Registry": "Adobe", "Ordering": "Identity", "Supplement": 0},
            "FontDescriptor": Ref(8), "DW": 600, "W": [1, [500, 400], 16, 18, 300]},
        7: Stream({}, tou),
        8: FD,
        12: Stream({"N": 3}, b""),
    }
    models["modern"] = dict(objs=s2, root=1, form="stream", pack=(1, 2, 3, 5, 6, 8))
    # -- S3: one image per filter, a filter chain with parameters on the content stream
    img = lambda extra, data: Stream(dict({"Type": Name("XObject"), "Subtype": Name("Image"), "Width": 6, "Height": 4, "BitsPerComponent": 8, "ColorSpace": Name("DeviceGray")}, **extra), data)
    content = b"q 10 0 0 10 0 0 cm /I1 Do Q q 10 0 0 10 20 0 cm /I2 Do Q q 10 0 0 10 40 0 cm /I3 Do Q q 10 0 0 10 60 0 cm /I4 Do Q q 10 0 0 10 80 0 cm /I5 Do Q BT /F1 10 Tf 5 90 Td (filters) Tj ET"
    s3 = {
        1: {"Type": Name("Catalog"), "Pages": Ref(2)},
        2: {"Type": Name("Pages"), "Kids": [Ref(3)], "Count": 1},
        3: {"Type": Name("Page"), "Parent": Ref(2), "MediaBox": [0, 0, 200, 200], "Contents": Ref(4),
            "Resources": {"Font": {"F1": Ref(5)}, "XObject": {"I1": Ref(9), "I2": Ref(10), "I3": Ref(11), "I4": Ref(12), "I5": Ref(13)}}},
        4: Stream({"Filter": [Name("ASCIIHexDecode"), Name("FlateDecode")], "DecodeParms": [None, {"Predictor": 1}], "Length": Ref(14)}, ahx_encode(zlib.compress(content))),
        14: len(ahx_encode(zlib.compress(content))),
        5: {"Type": Name("Font"), "Subtype": Name("TrueType"), "BaseFont": Name("Arial"), "FirstChar": 32, "LastChar": 126, "Widths": [400] * 95, "FontDescriptor": Ref(8), "Encoding": Name("MacRomanEncoding")},
        8: FD,
        9: img({"Filter": Name("LZWDecode")}, lzw_encode(gray)),
        10: img({"Filter": Name("RunLengthDecode")}, rl_encode(gray)),
        11: img({"Filter": Name("ASCIIHexDecode")}, ahx_encode(gray)),
        12: img({"Filter": Name("ASCII85Decode")}, a85_encode(gray)),
        13: img({"Filter": Name("LZWDecode"), "DecodeParms": {"Predictor": 2, "Colors": 1, "Columns": 6, "BitsPerComponent": 8, "EarlyChange": 1}}, lzw_encode(tiff_pred_encode(gray, 1, 6))),
    }
    models["filters"] = dict(objs=s3, root=1, form="table", pack=())
    # -- S4: the streams that extraction itself decodes (page contents, a form, a ToUnicode CMap) behind LZW, RunLength, ASCII85 and a chain
    page = lambda k, extra=None: dict({"Type": Name("Page"), "Parent": Ref(2), "MediaBox": [0, 0, 300, 300], "Contents": Ref(10 + k), "Resources": {"Font": {"F1": Ref(5), "F2": Ref(6)},
                                                                                                                                     "XObject": {"Fm1": Ref(20)}}}, **(extra or {}))
    text = lambda k: ("BT /F1 12 Tf 20 200 Td (Page %d text) Tj /F2 10 Tf <0001000200100011> Tj ET q 1 0 0 1 10 10 cm /Fm1 Do Q" % k).encode()
    s4 = {
        1: {"Type": Name("Catalog"), "Pages": Ref(2)},
        2: {"Type": Name("Pages"), "Kids": [Ref(30), Ref(31), Ref(32), Ref(33)], "Count": 4},
        30: page(0), 31: page(1), 32: page(2), 33: page(3),
        10: Stream({"Filter": Name("LZWDecode")}, lzw_encode(text(0))),
        11: Stream({"Filter": Name("RunLengthDecode")}, rl_encode(text(1))),
        12: Stream({"Filter": Name("ASCII85Decode")}, a85_encode(text(2))),
        13: Stream({"Filter": [Name("ASCII85Decode"), Name("LZWDecode")]}, a85_encode(lzw_encode(text(3)))),
        5: {"Type": Name("Font"), "Subtype": Name("Type1"), "BaseFont": Name("Helvetica")},
        6: {"Type": Name("Font"), "Subtype": Name("Type0"), "BaseFont": Name("Comp"), "Encoding": Name("Identity-H"), "DescendantFonts": [Ref(7)], "ToUnicode": Ref(9)},
        7: {"Type": Name("Font"), "Subtype": Name("CIDFontType2"), "BaseFont": Name("Comp"), "CIDSystemInfo": {"Registry": "Adobe", "Ordering": "Identity", "Supplement": 0},
            "FontDescriptor": Ref(8), "DW": 600},
        8: FD,
        9: Stream({"Filter": Name("LZWDecode")}, lzw_encode(tou)),
        20: Stream({"Type": Name("XObject"), "Subtype": Name("Form"), "BBox": [0, 0, 50, 50], "Resources": {"Font": {"F1": Ref(5)}}, "Filter": Name("RunLengthDecode")},
                   rl_encode(b"BT /F1 8 Tf (in form) Tj ET")),
    }
    models["filtered-contents"] = dict(objs=s4, root=1, form="table", pack=())
    # -- S4b: font programs that extraction reads: a TrueType file (cmap format 4 plus a format-6 subtable this reader does not know) behind a CID font
    #    without ToUnicode, and a Type 1 font file whose header carries the encoding
    import struct as _st

    def sfnt(tables):
        n = len(tables)
        out = _st.pack(">4sHHHH", b"\0\1\0\0", n, 0, 0, 0)
        off, body = 12 + 16 * n, b""
        for tag, data in tables:
            out += _st.pack(">4sLLL", tag, 0, off + len(body), len(data))
            body += data
        return out + body
    ends, starts, deltas, offs = [66, 0xFFFF], [65, 0xFFFF], [(-64) & 0xFFFF, 1], [0, 0]
    sub4 = _st.pack(">HHHHHHH", 4, 0, 0, 4, 0, 0, 0) + b"".join(_st.pack(">H", e) for e in ends) + b"\0\0" + b"".join(_st.pack(">H", x) for x in starts) \
        + b"".join(_st.pack(">H", x) for x in deltas) + b"".join(_st.pack(">H", x) for x in offs)
    sub6 = _st.pack(">HHHHH", 6, 14, 0, 65, 2) + _st.pack(">HH", 1, 2)
    cmap = _st.pack(">HH", 0, 2) + _st.pack(">HHL", 3, 1, 20) + _st.pack(">HHL", 0, 3, 20 + len(sub4)) + sub4 + sub6
    t1 = b"%!PS-AdobeFont-1.0: Demo\n/Encoding 256 array 0 1 255 {1 index exch /.notdef put} for dup 65 /alpha put dup 66 /beta put readonly def\ncurrentdict end\ncurrentfile eexec\n"
    s4b = {
        1: {"Type": Name("Catalog"), "Pages": Ref(2)},
        2: {"Type": Name("Pages"), "Kids": [Ref(3)], "Count": 1},
        3: {"Type": Name("Page"), "Parent": Ref(2), "MediaBox": [0, 0, 300, 300], "Contents": Ref(4), "Resources": {"Font": {"F1": Ref(5), "F2": Ref(10)}}},
        4: Stream({}, b"BT /F1 12 Tf 20 200 Td <00010002> Tj /F2 12 Tf (AB) Tj ET"),
        5: {"Type": Name("Font"), "Subtype": Name("Type0"), "BaseFont": Name("T"), "Encoding": Name("Identity-H"), "DescendantFonts": [Ref(6)]},
        6: {"Type": Name("Font"), "Subtype": Name("CIDFontType2"), "BaseFont": Name("T"), "CIDSystemInfo": {"Registry": "Adobe", "Ordering": "Identity", "Supplement": 0},
            "FontDescriptor": Ref(8), "DW": 500},
        8: dict(FD, FontFile2=Ref(9)),
        9: Stream({}, sfnt([(b"cmap", cmap)])),
        10: {"Type": Name("Font"), "Subtype": Name("Type1"), "BaseFont": Name("Demo"), "FirstChar": 65, "Widths": [500, 500], "FontDescriptor": Ref(11)},
        11: dict(FD, FontFile=Ref(12)),
        12: Stream({"Length1": len(t1), "Length2": 0, "Length3": 0}, t1),
    }
    models["font-programs"] = dict(objs=s4b, root=1, form="table", pack=())
    # -- S5..S7: encrypted documents that open with the empty user password (RC4-128 revision 3, AES-128 revision 4, AES-256 revision 6): every entry of the
    #    encryption dictionary is a fault site, and so are the encrypted payloads
    from specs import pdfcrypt as PC
    docid = b"0123456789abcdef"
    for nm_, h in (("encrypted-rc4", PC.Legacy(3, 128, b"", b"owner", 0xFFFFFFFC, docid)), ("encrypted-aes128", PC.Legacy(4, 128, b"", b"owner", 0xFFFFFFFC, docid, aes=True)),
                   ("encrypted-aes256", PC.V5(6, b"", b"owner", 0xFFFFFFFC, seed=b"c13"))):
        content = b"BT /F1 12 Tf 20 200 Td (Secret text) Tj ET"
        e = {
            1: {"Type": Name("Catalog"), "Pages": Ref(2)},
            2: {"Type": Name("Pages"), "Kids": [Ref(3)], "Count": 1},
            3: {"Type": Name("Page"), "Parent": Ref(2), "MediaBox": [0, 0, 300, 300], "Contents": Ref(4), "Resources": {"Font": {"F1": Ref(5)}}},
            4: Stream({}, h.encrypt(4, 0, content)),
            5: {"Type": Name("Font"), "Subtype": Name("Type1"), "BaseFont": Name("Helvetica")},
            9: h.dict(),
        }
        models[nm_] = dict(objs=e, root=1, form="table", pack=(), extra_trailer={"Encrypt": Ref(9), "ID": [docid, docid]})
    return models


def write_model(m, objs=None):
    from specs.pdfrev import Writer
    w = Writer()
    w.revision(objs if objs is not None else m["objs"], m["root"], form=m["form"], pack=m["pack"], extra_trailer=m.get("extra_trailer"))
    return w.out.getvalue()


def sites(objs):
    """every dictionary value and array element of every object: (object number, path)"""
    from specs.pdfgen import Stream
    out = []

    def walk(num, v, path):
        if isinstance(v, Stream):
            walk(num, v.d, path + ("<dict>",))
            out.append((num, path + ("<data>",)))
            return
        if isinstance(v, dict):
            for k, x in v.items():
                out.append((num, path + (k,)))
                walk(num, x, path + (k,))
        elif isinstance(v, (list, tuple)):
            for i, x in enumerate(v):
                out.append((num, path + (i,)))
                walk(num, x, path + (i,))
    for num, v in objs.items():
        walk(num, v, ())
    return out


def fault_values(num):
    from specs.pdfgen import Name, Ref
    return [("int0", 0), ("negative", -7), ("huge", 2 ** 40), ("real", 1.5), ("string", b"str"), ("name", Name("Nm")), ("empty-array", []), ("array", [1, Name("x")]),
            ("empty-dict", {}), ("null", None), ("bool", True), ("missing-ref", Ref(999)), ("self-ref", Ref(num)), ("cycle-ref", Ref(900)), ("chain-into-cycle-ref", Ref(902))]


def apply_fault(objs, num, path, kind, value):
    """a deep copy of the model with one fault; kind: 'replace' | 'remove' | 'data-truncate' | 'data-corrupt' | 'data-empty'"""
    import copy
    from specs.pdfgen import Stream, Ref
    o = copy.deepcopy(objs)
    o[900], o[901], o[902] = Ref(901), Ref(900), Ref(900)           # a reference cycle for 'cycle-ref', and a chain that leads into it
    cur = o[num]
    parent, key = None, None
    for p in path:
        if p == "<dict>":
            parent, key, cur = cur, "<dict>", cur.d
        elif p == "<data>":
            parent, key = cur, "<data>"
        else:
            parent, key, cur = cur, p, cur[p]
    if key == "<data>":
        d = parent.data
        import random as _random
        g = _random.Random(num * 7919 + len(d))
        variants = {
            "data-truncate": d[:len(d) // 2], "data-truncate-quarter": d[:len(d) // 4], "data-truncate-last-byte": d[:-1], "data-truncate-to-one-byte": d[:1],
            "data-truncate-three-quarters": d[:3 * len(d) // 4],
            "data-corrupt": bytes((b ^ 0x55) if i % 3 == 1 else b for i, b in enumerate(d)),
            "data-corrupt-first-byte": bytes((d[0] ^ 0xFF,)) + d[1:] if d else d, "data-corrupt-last-byte": d[:-1] + bytes((d[-1] ^ 0xFF,)) if d else d,
            "data-corrupt-middle-byte": d[:len(d) // 2] + bytes((d[len(d) // 2] ^ 0x81,)) + d[len(d) // 2 + 1:] if d else d,
            "data-garbage": bytes(g.randrange(256) for _ in range(len(d))), "data-garbage-2": bytes(g.randrange(256) for _ in range(max(1, len(d) // 3))),
            "data-all-ff": b"\xff" * len(d), "data-all-zero": b"\x00" * len(d),
            "data-empty": b""}
        if kind.startswith("data-random-"):
            # seeded random damage: a few flipped bytes, a cut at a random point, or a random replacement of a random stretch
            g2 = _random.Random(num * 104729 + int(kind.split("-")[-1]) * 31 + len(d))
            b = bytearray(d)
            mode = g2.choice(["flip", "flip", "cut", "stretch"])
            if mode == "flip" and b:
                for _ in range(g2.randint(1, 4)):
                    b[g2.randrange(len(b))] = g2.randrange(256)
            elif mode == "cut":
                b = b[:g2.randrange(len(b) + 1)]
            elif b:
                i0 = g2.randrange(len(b)); i1 = min(len(b), i0 + g2.randint(1, 12))
                b[i0:i1] = bytes(g2.randrange(256) for _ in range(g2.randint(0, 12)))
            variants[kind] = bytes(b)
        parent.data = variants[kind]
        if kind.startswith("data-truncate") or kind == "data-empty" or kind == "data-garbage-2" or kind.startswith("data-random-"):
            parent.d.pop("Length", None)
        return o
    if len(path) == 0:
        o[num] = value
        return o
    container = o[num]
    for p in path[:-1]:
        container = container.d if p == "<dict>" else container[p]
    if isinstance(container, Stream):
        container = container.d
    if kind == "remove":
        if isinstance(container, dict):
            del container[path[-1]]
        else:
            del container[path[-1]]
    else:
        container[path[-1]] = value
    return o


DATA_FAULTS = ("data-truncate", "data-truncate-quarter", "data-truncate-last-byte", "data-truncate-to-one-byte", "data-truncate-three-quarters", "data-corrupt",
               "data-corrupt-first-byte", "data-corrupt-last-byte", "data-corrupt-middle-byte", "data-garbage", "data-garbage-2", "data-all-ff", "data-all-zero", "data-empty")


def family(e):
    return isinstance(e, psx.PSException)


class WorkBoundExceeded(BaseException):
    pass


WORK_PER_BYTE, WORK_CONST = 300, 300000      # executed source lines allowed: 300 per input byte + 300 000 (undamaged seeds need about 18 per byte)


def run_entry_points(data, which=(0, 1, 2), trace=True):
    """returns None when every entry point returned or raised inside the family within the work bound, else (entry point, exception text, where).
    Work is measured as executed Python source lines (sys.settrace 'line' events, library and interpreter code alike)."""
    import io, signal, sys
    hl = real_module("pdfminer.high_level")
    bound = WORK_PER_BYTE * len(data) + WORK_CONST

    def onalarm(signum, frame):
        raise TimeoutError("no result after 10 s on a %d-byte document" % len(data))
    old = signal.signal(signal.SIGALRM, onalarm)
    calls = [("extract_text", lambda: hl.extract_text(io.BytesIO(data))),
             ("extract_pages", lambda: [p for p in hl.extract_pages(io.BytesIO(data))]),
             ("extract_text_to_fp(xml)", lambda: hl.extract_text_to_fp(io.BytesIO(data), io.BytesIO(), output_type="xml", codec="utf-8"))]
    try:
        for k in which:
            nm, fn = calls[k]
            count = [0]

            def tracer(frame, event, arg):
                if event == "line":
                    count[0] += 1
                    if count[0] > bound:
                        raise WorkBoundExceeded("more than %d executed lines (%d per byte + %d) on a %d-byte document" % (bound, WORK_PER_BYTE, WORK_CONST, len(data)))
                return tracer
            try:
                signal.alarm(10)
                if trace:
                    sys.settrace(tracer)
                try:
                    fn()
                finally:
                    sys.settrace(None)
                signal.alarm(0)
            except BaseException as e:  # noqa: BLE001
                sys.settrace(None)
                signal.alarm(0)
                if isinstance(e, KeyboardInterrupt):
                    raise
                if not family(e):
                    import traceback
                    tb = traceback.extract_tb(e.__traceback__)
                    where = [f for f in tb if "/pdfminer/" in f.filename]
                    loc = "%s:%d %s" % (os.path.basename(where[-1].filename), where[-1].lineno, where[-1].name) if where else "?"
                    return nm, "%s: %s" % (type(e).__name__, str(e)[:120]), loc
        return None
    finally:
        sys.settrace(None)
        signal.alarm(0)
        signal.signal(signal.SIGALRM, old)


@bounded("single-faults-and-truncation", props=["C13"],
         bound="eight seed documents (classic table + inherited attributes + simple font/Differences + outlines + labels + PNG-predictor image + form; "
               "xref stream + object streams + Type0/ToUnicode/W + inline image + ICC colour space; one image per filter LZW/RunLength/ASCIIHex/ASCII85/LZW+TIFF predictor + "
               "filter chain with indirect Length; page contents, a form and a ToUnicode map behind LZW / RunLength / ASCII85 / a chain; a TrueType file (cmap formats 4 and 6) and a "
               "Type 1 font file; RC4-128, AES-128 and AES-256 encrypted documents opened with the empty user password). Faults: site x {15 replacement values, remove}; "
               "stream payloads x {5 truncations, 4 corruptions, garbage x 2, all-FF, all-zero, empty, seeded random damage x 6 (thorough 60)}; file truncation; single bytes of the file changed. "
               "quick: every structural and payload fault once and 250 seeded byte changes per document through extract_text (alarm only), every self-reference and chain-into-cycle fault plus 500 "
               "seeded faults through all three entry points with line counting, truncation at a stride of 1/60 of the file and around each trailer/xref/stream keyword; thorough: every fault, every "
               "truncation point and every byte of every document changed two ways, through all three entry points. Entry points extract_text, extract_pages, "
               "extract_text_to_fp(xml); work is measured as executed source lines (settrace) against the bound 300 x bytes + 300 000 (undamaged seeds need about 18 per byte), with a 10 s alarm behind it. "
               "A fault that leaves the file unchanged is counted and must stay rare (vacuity guard)")
def _(tier, seed):
    import random
    rng = random.Random(seed + 13)
    models = seed_models()
    failures, evals, kinds = [], 0, set()
    seen_loc = set()
    cases, trunc = [], []
    hangs = 0
    bases, unchanged = {}, 0
    flips_light = []          # quick tier: byte flips go through extract_text only, with the alarm but without line counting
    for nm, m in models.items():
        base = write_model(m)
        bases[nm] = base
        r = run_entry_points(base)
        evals += 1
        if r is not None:
            failures.append(dict(document=nm, fault="none (undamaged seed)", entry_point=r[0], error=r[1], where=r[2]))
            return dict(evaluations=evals, distinct=0, failures=failures)
        for num, path in sites(m["objs"]):
            if path and path[-1] == "<data>":
                for k in DATA_FAULTS + tuple("data-random-%d" % j for j in range(6 if tier == "quick" else 60)):
                    cases.append((nm, num, path, k, None, None))
            else:
                for vn, v in fault_values(num):
                    cases.append((nm, num, path, "replace", vn, v))
                cases.append((nm, num, path, "remove", None, None))
        if tier != "quick":
            cuts = set(range(0, len(base)))
        else:
            # a stride over the file plus every cut point around the structural keywords (where the recovery paths start)
            import re as _re
            cuts = set(range(0, len(base), max(1, len(base) // 60)))
            for m_ in _re.finditer(rb"trailer|startxref|xref|endstream|stream|%%EOF", base):
                cuts.update(range(max(0, m_.start() - 1), min(len(base), m_.end() + 3)))
        trunc.extend((nm, None, None, "truncate-file", cut, None) for cut in sorted(cuts))
        # single bytes of the file changed, wherever they lie (keywords, numbers, cross-reference tables and streams, compressed payloads, encrypted strings)
        positions = range(0, len(base)) if tier != "quick" else sorted(rng.sample(range(len(base)), min(len(base), 250)))
        for pos in positions:
            for val in ((base[pos] ^ 0x20, base[pos] ^ 0xFF) if tier != "quick" else (base[pos] ^ rng.choice([0x01, 0x20, 0x80, 0xFF]),)):
                (trunc if tier != "quick" else flips_light).append((nm, None, None, "flip-file-byte", pos, val))
    allcases = list(cases)
    if tier == "quick":
        # every reference fault (self, cycle: the ones that can hang or exhaust the stack) plus a seeded sample of the others
        always = [c_ for c_ in cases if c_[4] in ("self-ref", "chain-into-cycle-ref")]
        rest = [c_ for c_ in cases if c_[4] not in ("self-ref", "chain-into-cycle-ref")]
        rng.shuffle(rest)
        cases = always + rest[:500]
    light, lightset = [], set()
    if tier == "quick":
        # every single fault at least once: through extract_text only, with the alarm but without line counting (about 2 ms each)
        chosen = set(map(id, cases))
        light = [c_ for c_ in allcases if id(c_) not in chosen] + flips_light
        lightset = set(map(id, light))
    cases += trunc
    for case in cases + light:
        nm, num, path, kind, vn, v = case
        is_light = id(case) in lightset
        m = models[nm]
        if kind == "truncate-file":
            data = write_model(m)[:vn]
            desc = "file truncated to %d bytes" % vn
        elif kind == "flip-file-byte":
            data = bytearray(bases[nm])
            data[vn] = v
            data = bytes(data)
            desc = "byte %d of the file changed from 0x%02x to 0x%02x" % (vn, bases[nm][vn], v)
        else:
            try:
                faulted = apply_fault(m["objs"], num, path, kind, v)
                if faulted is None:
                    raise AssertionError("harness: apply_fault produced nothing for %r" % ((nm, num, path, kind, vn),))
                data = write_model(m, faulted)
            except AssertionError:
                raise
            except Exception as e:  # the writer itself cannot express this fault (e.g. a non-stream where it packs streams)
                continue
            if data == bases[nm]:
                unchanged += 1          # the fault did not change the file (e.g. a value replaced by an equal one); counted, must stay rare
                continue
            desc = "object %d %s: %s%s" % (num, "/".join(map(str, path)), kind, "" if vn is None else " by " + vn)
        evals += 1
        kinds.add((nm, kind if not kind.startswith("data-random-") else "data-random", vn if kind == "replace" else None))
        r = run_entry_points(data, which=(0,), trace=False) if is_light else run_entry_points(data)
        if r is not None:
            key = (r[1].split(":")[0], r[2])
            if r[1].startswith("TimeoutError") or r[1].startswith("WorkBoundExceeded"):
                hangs += 1
            if key not in seen_loc:            # one report per leaking site in the library
                seen_loc.add(key)
                failures.append(dict(document=nm, fault=desc, entry_point=r[0], error=r[1], where=r[2], pdf=data.hex() if len(data) < 6000 else None))
            if hangs >= 3:
                break                          # every further hang costs the full alarm: three are enough to report
    if unchanged * 20 > max(1, evals):
        failures.append(dict(harness="vacuity guard: %d of %d faults left the file unchanged" % (unchanged, evals + unchanged)))
    return dict(evaluations=evals, distinct=len(kinds), failures=failures, leaking_sites=len(seen_loc), faults_without_effect=unchanged)


# =====================================================================================================================================
# Contracts
# =====================================================================================================================================
ps = real_module("pdfminer.psparser")
casting = real_module("pdfminer.casting")
KINDS = ["int", "negative-int", "real", "bool", "bytes", "text", "list", "tuple", "dict", "null", "name", "keyword", "stream", "ref-to-int", "ref-to-dict", "ref-to-missing",
         "ref-to-ref-to-bytes", "ref-cycle", "ref-chain-into-cycle"]


class Val(T.Sort):
    """any value a damaged document can put where another type is expected"""
    def fresh(self, ctx, name):
        k = ctx.choose(KINDS, "kind")
        chased = [0]

        def ref(n, target):
            o = SObj(pt.PDFObjRef, {"objid": n, "doc": "doc"}, "ref%d" % n)

            def resolve(I, default=None, target=target):
                chased[0] += 1
                if chased[0] > 24:
                    # at most 3 references exist: chasing them 24 times means the caller does not terminate
                    from pyvc.symexec import SymRaise
                    raise SymRaise(RuntimeError, "non-termination: a structure with at most 3 references was chased more than 24 times")
                return default if target == "<missing>" else (target() if callable(target) else target)
            o.f["resolve"] = SymFn(resolve, "resolve")
            return o
        if k == "int":
            v = ctx.fresh_int("i")
        elif k == "negative-int":
            v = ctx.fresh_int("n"); ctx.assume(v < 0)
        elif k == "real":
            v = ctx.fresh_real("r")
        elif k == "bool":
            v = True
        elif k == "bytes":
            v = b"abc"
        elif k == "text":
            v = "abc"
        elif k == "list":
            v = [1, 2]
        elif k == "tuple":
            v = (1, 2)
        elif k == "dict":
            v = {"K": 1}
        elif k == "null":
            v = None
        elif k == "name":
            v = ps.LIT("Nm")
        elif k == "keyword":
            v = ps.KWD(b"kw")
        elif k == "stream":
            v = SObj(pt.PDFStream, {"attrs": {}, "rawdata": b""}, "stream")
        elif k == "ref-to-int":
            v = ref(4, 7)
        elif k == "ref-to-dict":
            v = ref(4, {"K": 1})
        elif k == "ref-to-missing":
            v = ref(4, "<missing>")
        elif k == "ref-to-ref-to-bytes":
            v = ref(4, ref(5, b"xyz"))
        elif k == "ref-cycle":
            cell = {}
            a = ref(4, lambda: cell["b"])
            cell["b"] = ref(5, a)
            v = a
        else:
            # 3 -> 4 -> 5 -> 4: the cycle does not pass through the first reference
            cell = {}
            a = ref(4, lambda: cell["b"])
            cell["b"] = ref(5, a)
            v = ref(3, a)
        KIND_OF[id(v) if not isinstance(v, (int, bool)) and v is not None else ("k", k)] = k
        self.last = k
        ctx.notes.add("value kind: " + k) if hasattr(ctx, "notes") else None
        LAST[0] = k
        return v
    def sample(self, rng):
        return None
    def from_model(self, ev, v):
        return LAST[0]


KIND_OF, LAST = {}, [None]
_RESOLVED_TYPE = {"int": int, "negative-int": int, "real": float, "bool": bool, "bytes": bytes, "text": str, "list": list, "tuple": tuple, "dict": dict, "null": type(None),
                  "name": "name", "keyword": "kw", "stream": "stream", "ref-to-int": int, "ref-to-dict": dict, "ref-to-missing": type(None), "ref-to-ref-to-bytes": bytes,
                  "ref-cycle": type(None), "ref-chain-into-cycle": type(None)}


def _is(v, want):
    """the value has the advertised Python type"""
    if want is int:
        return isinstance(v, (int,)) or (isinstance(v, z3.ExprRef) and (z3.is_int(v) or z3.is_bool(v)))
    if want is float:
        from fractions import Fraction
        return isinstance(v, (float, Fraction)) or (isinstance(v, z3.ExprRef) and z3.is_real(v))
    if want == "num":
        return _is(v, int) or _is(v, float)
    if want is bytes:
        return isinstance(v, bytes)
    if want == "list":
        return isinstance(v, (list, tuple))
    if want is dict:
        return isinstance(v, dict)
    if want == "stream":
        return (isinstance(v, SObj) and v.cls is pt.PDFStream) or isinstance(v, pt.PDFStream)
    raise AssertionError(want)


for _fn, _want, _dflt in (("int_value", int, 0), ("float_value", float, 0.0), ("num_value", "num", 0), ("str_value", bytes, b""), ("list_value", "list", []),
                          ("dict_value", dict, {}), ("stream_value", "stream", None)):
    c = contract("pdfminer.pdftypes:" + _fn, props=["C13"])
    c.param("x", Val())
    c.skip_cross = True
    c.inline = True
    c.returns(T.Opaque("value"))
    c.ens("total-and-of-the-advertised-type", (lambda want: lambda result: _is(result, want))(_want))
    c.ens("a-value-of-the-right-type-is-returned-unchanged-through-references", (lambda want: lambda x, result: _passes(x, result, want))(_want))


def _passes(x, result, want):
    k = LAST[0]
    direct = {"int": int, "negative-int": int, "bool": int, "real": float, "bytes": bytes, "list": "list", "tuple": "list", "dict": dict, "stream": "stream"}
    if k in direct and (direct[k] == want or (want == "num" and direct[k] in (int, float))):
        return result is x or eq(result, x)
    if k == "ref-to-int" and want in (int, "num"):
        return result == 7
    if k == "ref-to-dict" and want is dict:
        return result == {"K": 1}
    if k == "ref-to-ref-to-bytes" and want is bytes:
        return result == b"xyz"
    return True


c = contract("pdfminer.pdftypes:resolve1", props=["C13", "C12"])
c.param("x", Val()).param("default", T.Const(None))
c.skip_cross = True
c.inline = True
c.returns(T.Opaque("value"))
c.ens("terminates-on-chains-and-cycles-and-never-returns-a-reference", lambda result: not (isinstance(result, SObj) and result.cls is pt.PDFObjRef))


for _fn in ("safe_int", "safe_float"):
    c = contract("pdfminer.casting:" + _fn, props=["C13"])
    c.param("o", Val())
    c.skip_cross = True
    c.inline = True
    c.returns(T.Opaque("value"))
    c.ens("total-number-or-none", (lambda fn: lambda o, result: result is None or _is(result, int if fn == "safe_int" else float) or _is(result, "num"))(_fn))


@exhaustive("safe-casts-never-raise", props=["C13"],
            note="safe_int, safe_float, safe_matrix, safe_rgb, safe_cmyk, safe_rect, safe_rect_list on every combination of 14 hostile values (huge ints, inf, nan, "
                 "non-ASCII digit strings, bytes, containers, None, names, references) in every argument position: the result is None or a tuple of floats / a number")
def _():
    import itertools
    vals = [0, -3, 10 ** 400, 1.5, float("inf"), float("nan"), True, None, b"12", "12", "١", [], {}, ps.LIT("N"), pt.PDFObjRef(None, 3), (1, 2, 3, 4), [1, 2, 3, 4, 5]]
    fails, cases = [], 0
    def ok(r, n):
        return r is None or (isinstance(r, tuple) and len(r) == n and all(isinstance(x, float) for x in r))
    for f, n in ((casting.safe_int, 1), (casting.safe_float, 1), (casting.safe_rect_list, 1)):
        for v in vals:
            cases += 1
            try:
                r = f(v)
                good = r is None or isinstance(r, (int, float)) or (f is casting.safe_rect_list and ok(r, 4))
            except BaseException as e:  # noqa: BLE001
                good, r = False, "%s: %s" % (type(e).__name__, e)
            if not good:
                fails.append(dict(function=f.__name__, argument=repr(v)[:40], got=repr(r)[:80]))
    for f, n in ((casting.safe_rgb, 3), (casting.safe_rect, 4), (casting.safe_cmyk, 4), (casting.safe_matrix, 6)):
        for pos in range(n):
            for v in vals:
                args = [1.0] * n
                args[pos] = v
                cases += 1
                try:
                    r = f(*args)
                    good = ok(r, n)
                except BaseException as e:  # noqa: BLE001
                    good, r = False, "%s: %s" % (type(e).__name__, e)
                if not good:
                    fails.append(dict(function=f.__name__, position=pos, argument=repr(v)[:40], got=repr(r)[:80]))
    return dict(cases=cases, failures=fails[:3])


@exhaustive("every-raised-class-belongs-to-the-family", props=["C13"],
            note="AST scan of pdfminer/*.py: every `raise X(...)` / `raise X` names a class; each class defined in the package must derive from PSException; "
                 "built-in classes raised directly are listed with the reason they cannot reach an extraction caller")
def _():
    import importlib
    fails, cases = [], 0
    for fn in sorted(os.listdir(os.path.join(REPO, "pdfminer"))):
        if not fn.endswith(".py"):
            continue
        modname = "pdfminer." + fn[:-3]
        tree = ast.parse(open(os.path.join(REPO, "pdfminer", fn)).read())
        try:
            mod = real_module(modname)
        except Exception:  # optional dependency missing
            continue
        owner = {}
        for cnode in ast.walk(tree):
            if isinstance(cnode, ast.ClassDef):
                for m in cnode.body:
                    if isinstance(m, ast.FunctionDef):
                        owner[id(m)] = cnode.name
        for f in ast.walk(tree):
            if not isinstance(f, ast.FunctionDef):
                continue
            for n in ast.walk(f):
                if not isinstance(n, ast.Raise) or n.exc is None:
                    continue
                e = n.exc.func if isinstance(n.exc, ast.Call) else n.exc
                nm = ast.unparse(e)
                cases += 1
                if isinstance(e, ast.Name) and e.id in ("e", "exc", "err", "error"):
                    continue          # re-raise of a caught exception
                cls = None
                try:
                    if nm.startswith("self.") and id(f) in owner:
                        cls = getattr(getattr(mod, owner[id(f)]), nm[5:])
                    else:
                        cls = eval(nm, vars(mod))
                except Exception:
                    pass
                if isinstance(cls, type) and issubclass(cls, psx.PSException):
                    continue
                key = (fn, f.name, nm)
                if key in RAISE_ALLOWED:
                    continue
                fails.append(dict(file=fn, function=f.name, line=n.lineno, raises=nm))
    return dict(cases=cases, failures=fails[:40])


_ABSTRACT = "abstract method of a base class: the objects the extraction path creates are of subclasses that override it"
_PIL = "raised when the optional Pillow dependency is missing while exporting images (output_dir): configuration of the installation, not a property of the input"
RAISE_ALLOWED = {
    ("cmapdb.py", "decode", "NotImplementedError"): _ABSTRACT + " (CMap, IdentityCMap, IdentityCMapByte; fonts decode only through those)",
    ("layout.py", "get_text", "NotImplementedError"): _ABSTRACT,
    ("layout.py", "find_neighbors", "NotImplementedError"): _ABSTRACT,
    ("layout.py", "get_writing_mode", "NotImplementedError"): _ABSTRACT,
    ("pdfdocument.py", "get_trailer", "NotImplementedError"): _ABSTRACT,
    ("pdfdocument.py", "load", "NotImplementedError"): _ABSTRACT,
    ("pdffont.py", "to_unichr", "NotImplementedError"): _ABSTRACT,
    ("pdftypes.py", "__call__", "NotImplementedError"): "Protocol stub (DecipherCallable), never instantiated",
    ("image.py", "_save_jpeg", "ImportError"): _PIL, ("image.py", "_save_jpeg2000", "ImportError"): _PIL, ("image.py", "_save_bytes", "ImportError"): _PIL,
    ("jbig2.py", "parse_data_length", "NotImplementedError"): "JBIG2 segment of unknown length: reached only from ImageWriter._save_jbig2 (image export), which is not among the "
                                                              "entry points the property names",
}


# -- the trailer loader: whatever the tokens are, it ends normally or with PDFNoValidXRef (which starts the fallback scan) or PSEOF-family errors ------
pd = real_module("pdfminer.pdfdocument")


class _TrailerParser(T.Sort):
    """a parser whose next token is the trailer keyword, another keyword, or end of input; whose next object is a dictionary, something else, or end of
    input; and whose stack holds a parsed object or nothing"""
    def fresh(self, ctx, name):
        from pyvc.symexec import SymRaise
        tok = ctx.choose(["trailer", "other-keyword", "eof"], "next-token")
        objk = ctx.choose(["dict", "int", "eof"], "next-object")
        stack = ctx.choose(["empty", "dict", "name"], "stack")
        o = SObj(None, {}, name)
        o.f["_case"] = (tok, objk, stack)

        def nexttoken(I):
            if tok == "eof":
                raise SymRaise(ps.PSEOF, "nexttoken")
            return (0, ps.KWD(b"trailer") if tok == "trailer" else ps.KWD(b"trailerx"))

        def nextobject(I):
            if objk == "eof":
                raise SymRaise(ps.PSEOF, "nextobject")
            return (0, {"Size": 3} if objk == "dict" else 7)

        def pop(I, n):
            return [] if stack == "empty" else [(0, {"Size": 9} if stack == "dict" else ps.LIT("N"))]
        o.f.update(nexttoken=SymFn(nexttoken, "nexttoken"), nextobject=SymFn(nextobject, "nextobject"), pop=SymFn(pop, "pop"))
        return o
    def sample(self, rng):
        return None
    def from_model(self, ev, v):
        return list(v.f["_case"])


c = contract("pdfminer.pdfdocument:PDFXRef.load_trailer", props=["C13", "C02"])
c.param("self", T.Obj("pdfminer.pdfdocument:PDFXRef")).param("parser", _TrailerParser())
c.skip_cross = True
c.wire = lambda bound, ghosts: bound["self"].f.__setitem__("trailer", {})
c.mod("self.trailer")
c.may_raise(pd.PDFNoValidXRef, lambda parser: parser._case[0] == "other-keyword" or (parser._case[0] == "eof" or parser._case[1] == "eof") and parser._case[2] == "empty")
c.ens("trailer-dictionary-taken-or-nothing", lambda self, parser: self.trailer == (
    {"Size": 3} if parser._case[:2] == ("trailer", "dict") else {"Size": 9} if ("eof" in parser._case[:2] and parser._case[2] == "dict") else {}))
