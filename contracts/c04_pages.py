"""C04 - page tree: rotation/box normalisation, inheritance step, page selection."""
import ast
import z3
from pyvc.contracts import contract, fragment, lemma, bounded
from pyvc.logic import And, Or, Not, Implies, Iff, eq, le, lt, If, Abs, mod, ForAllInt, any_z3
from pyvc import sorts as T
from pyvc.values import SIter, SymFn, SPred, SObj, SYields
from specs import affine, pages as PG

M6 = lambda: T.RealTup(6)
R4 = lambda: T.RealTup(4)

# -- abstract device / interpreter dependencies (assumed, traced) -------------------------
for _k in ("pdfminer.pdfdevice:PDFDevice.begin_page", "pdfminer.pdfdevice:PDFDevice.end_page",
           "pdfminer.pdfinterp:PDFPageInterpreter.render_contents"):
    a = contract(_k, props=[])
    a.abstract = True
    a.traced = True
a = REG = None
from pyvc.contracts import REGISTRY
REGISTRY["pdfminer.pdfdevice:PDFDevice.begin_page"].param("self", T.Opaque()).param("page", T.Opaque()).param("ctm", M6())
REGISTRY["pdfminer.pdfdevice:PDFDevice.end_page"].param("self", T.Opaque()).param("page", T.Opaque())
REGISTRY["pdfminer.pdfinterp:PDFPageInterpreter.render_contents"].param("self", T.Opaque()).param("resources", T.Opaque()) \
    .param("streams", T.Opaque()).param("ctm", M6(), default=(1, 0, 0, 1, 0, 0))

PageS = lambda: T.Obj("pdfminer.pdfpage:PDFPage", mediabox=R4(), rotate=T.OneOf(0, 90, 180, 270),
                      resources=T.Opaque("resources"), contents=T.Opaque("contents"))
c = contract("pdfminer.pdfinterp:PDFPageInterpreter.process_page", props=["C04"])
c.param("self", T.Obj("pdfminer.pdfinterp:PDFPageInterpreter", device=T.Obj("pdfminer.pdfdevice:PDFDevice")))
c.param("page", PageS())
c.ens("three-calls-in-order", lambda trace: [t[0] for t in trace] ==
      ["PDFDevice.begin_page", "PDFPageInterpreter.render_contents", "PDFDevice.end_page"])
c.ens("ctm-turns-mediabox-clockwise-onto-origin", lambda page, trace:
      eq(trace[0][1]["ctm"], PG.page_ctm(page.rotate, page.mediabox)))
c.ens("same-ctm-for-contents", lambda trace: eq(trace[1][1]["ctm"], trace[0][1]["ctm"]))
c.ens("page-resources-and-contents", lambda page, trace:
      And(trace[1][1]["resources"] is page.resources, trace[1][1]["streams"] is page.contents,
          trace[0][1]["page"] is page, trace[2][1]["page"] is page))


def _native_process_page(nat):
    from pyvc.extract import real_module
    from pyvc.verify import WithTrace
    trace = []
    class Dev:
        def begin_page(self, page, ctm): trace.append(("PDFDevice.begin_page", dict(page=page, ctm=ctm)))
        def end_page(self, page): trace.append(("PDFDevice.end_page", dict(page=page)))
    class Me:
        device = Dev()
        def render_contents(self, resources, streams, ctm=(1, 0, 0, 1, 0, 0)):
            trace.append(("PDFPageInterpreter.render_contents", dict(resources=resources, streams=streams, ctm=ctm)))
    f = real_module("pdfminer.pdfinterp").PDFPageInterpreter.process_page
    return WithTrace(f(Me(), nat["page"]), trace)


c.native = _native_process_page


@lemma("page-ctm-maps-mediabox-onto-origin-box", props=["C04"],
       note="spec sanity: under the specified CTM the MediaBox image is [0,W']x[0,H'] and the corners turn clockwise")
def _(lc):
    box = lc.fresh(R4(), "box")
    lc.assume(And(lt(box[0], box[2]), lt(box[1], box[3])))
    x0, y0, x1, y1 = box
    for rot in (0, 90, 180, 270):
        m = PG.page_ctm(rot, box)
        h = lc.call("pdfminer.utils:apply_matrix_rect", m, box)
        w_, h_ = PG.page_size(rot, box)
        lc.prove("image-is-origin-box-%d" % rot, eq(h, (0, 0, w_, h_)))
    # clockwise: the upper-left corner of the unrotated page becomes the upper-right after 90 degrees
    ul = lc.call("pdfminer.utils:apply_matrix_pt", PG.page_ctm(90, box), (x0, y1))
    lc.prove("cw90-upper-left-to-upper-right", eq(ul, (y1 - y0, x1 - x0)))
    ul = lc.call("pdfminer.utils:apply_matrix_pt", PG.page_ctm(180, box), (x0, y1))
    lc.prove("cw180-upper-left-to-lower-right", eq(ul, (x1 - x0, 0)))
    ul = lc.call("pdfminer.utils:apply_matrix_pt", PG.page_ctm(270, box), (x0, y1))
    lc.prove("cw270-upper-left-to-lower-left", eq(ul, (0, 0)))


# begin_page: page box = (0, 0, |dx|, |dy|) of the transformed mediabox
def _begin_page_box(fn):
    for n in ast.walk(fn):
        if isinstance(n, ast.Assign) and isinstance(n.targets[0], ast.Name) and n.targets[0].id == "mediabox":
            idx = fn.body.index(n)
            return fn.body[: idx + 1]
    return None


c = fragment("pdfminer.converter:PDFLayoutAnalyzer.begin_page", "page-box", _begin_page_box, props=["C04", "C08", "C09"], mode="stmts")   # C08/C09: the page box bounds the neighbour search
c.param("self", T.Opaque("analyzer")).param("page", T.Obj(None, mediabox=R4())).param("ctm", M6())
c.req("box-ordered", lambda page: And(le(page.mediabox[0], page.mediabox[2]), le(page.mediabox[1], page.mediabox[3])))
c.ens("origin-and-size-of-hull", lambda page, ctm, mediabox:
      eq(tuple(mediabox), (0, 0, affine.hull4(ctm, page.mediabox)[2] - affine.hull4(ctm, page.mediabox)[0],
                           affine.hull4(ctm, page.mediabox)[3] - affine.hull4(ctm, page.mediabox)[1])))


def _ltpage_uses_box(fn):
    for n in ast.walk(fn):
        if isinstance(n, ast.Call) and isinstance(n.func, ast.Name) and n.func.id == "LTPage":
            return n.args[1]
    return None


c = fragment("pdfminer.converter:PDFLayoutAnalyzer.begin_page", "ltpage-gets-that-box", _ltpage_uses_box, props=["C04", "C08", "C09"])
c.param("mediabox", R4())
c.ens("passes-the-normalised-box", lambda mediabox, result: eq(result, mediabox))


# PDFPage.__init__: Rotate reduced to 0..359
def _rotate_expr(fn):
    for n in ast.walk(fn):
        if isinstance(n, ast.Assign) and isinstance(n.targets[0], ast.Attribute) and n.targets[0].attr == "rotate":
            return n.value
    return None


class _AttrsWithRotate(T.Sort):
    """self.attrs = {'Rotate': r} for an arbitrary int r, or without the key"""
    def fresh(self, ctx, name):
        r = ctx.fresh_int("Rotate")
        present = ctx.choose([True, False], "has-rotate")
        return SObj(None, {"attrs": ({"Rotate": r} if present else {}), "_r": r, "_present": present}, name)
    def sample(self, rng):
        present = rng.random() < 0.8
        r = rng.choice([0, 90, -90, 270, 360, 450, 720, -720, 1, 359, -1, rng.randint(-2000, 2000)])
        return T.CObj(None, attrs=({"Rotate": r} if present else {}), _r=r, _present=present)
    def from_model(self, ev, v):
        r = int(ev(v.f["_r"]))
        return T.CObj(None, attrs=({"Rotate": r} if v.f["_present"] else {}), _r=r, _present=v.f["_present"])
    def reshape(self, v):
        return v


c = fragment("pdfminer.pdfpage:PDFPage.__init__", "rotate", _rotate_expr, props=["C04"])
c.param("self", _AttrsWithRotate())
c.ens("in-0-359", lambda result: And(le(0, result), lt(result, 360)))
c.ens("congruent-mod-360", lambda self, result: eq(mod(result - (self._r if self._present else 0), 360), 0))


# inheritance step of create_pages.depth_first_search
def _inherit_loop(fn):
    for n in ast.walk(fn):
        if isinstance(n, ast.For) and isinstance(n.iter, ast.Call) and ast.unparse(n.iter).startswith("parent.items"):
            return [n]
    return None


_KEYS = ["Resources", "MediaBox", "CropBox", "Rotate", "Type"]


class _OptDict(T.Sort):
    """dict over the given keys; presence of each key is forked, values are ints (object ids; 0 allowed)"""
    def __init__(self, keys):
        self.keys = keys
    def fresh(self, ctx, name):
        d = {}
        for k in self.keys:
            if ctx.choose([True, False], name + k):
                d[k] = ctx.fresh_int(name + "_" + k)
        return d
    def sample(self, rng):
        return {k: rng.choice([0, 1, 7, rng.randint(-3, 400)]) for k in self.keys if rng.random() < 0.6}
    def from_model(self, ev, v):
        return {k: int(ev(x)) for k, x in v.items()}
    def reshape(self, v):
        return dict(v.__dict__) if hasattr(v, "__dict__") and not isinstance(v, dict) else v
    def jsonable(self, c):
        return c


def _inherit_spec(parent, own, inheritable):
    out = dict(own)
    for k, v in parent.items():
        if k in inheritable and k not in own:
            out[k] = v
    return out


def _dict_eq(a, b):
    if set(a.keys()) != set(b.keys()):
        return False
    return And(*[eq(a[k], b[k]) for k in a])


c = fragment("pdfminer.pdfpage:PDFPage.create_pages.depth_first_search", "inherit", _inherit_loop, props=["C04"], mode="stmts")
c.param("parent", _OptDict(_KEYS)).param("object_properties", _OptDict(_KEYS))
c.param("cls", T.Obj("pdfminer.pdfpage:PDFPage"))
c.max_paths = 5000
c.mod("object_properties")
c.ens("own-value-else-nearest-ancestor", lambda old, object_properties, cls:
      _dict_eq(object_properties, _inherit_spec(old.parent, old.object_properties,
                                                 {"Resources", "MediaBox", "CropBox", "Rotate"})))
c.ens("parent-untouched", lambda old, parent: _dict_eq(parent, old.parent))


# page selection loop of get_pages
class _Pages(T.Sort):
    """cls.create_pages(doc) abstracted: a sequence of n pages, page k identified by k"""
    def fresh(self, ctx, name):
        n = ctx.fresh_int("npages")
        ctx.assume(n >= 0)
        o = SObj(None, {"n": n}, name)
        o.f["create_pages"] = SymFn(lambda I, doc: SIter(n, lambda k: k, "created-pages"), "create_pages")
        return o
    def sample(self, rng):
        return T.CObj(None, n=rng.randint(0, 7))
    def from_model(self, ev, v):
        return T.CObj(None, n=max(0, min(40, int(ev(v.f["n"])))))
    def to_native(self, c):
        class Stub:
            n = c.n
            @classmethod
            def create_pages(cls, doc):
                return iter(range(cls.n))
        return Stub


class _IntSet(T.Sort):
    """pagenos: None or a container of ints"""
    def fresh(self, ctx, name):
        mem = z3.Array(ctx.fresh_name(name), z3.IntSort(), z3.BoolSort())
        truthy = ctx.fresh_bool(name + "_nonempty")
        o = SPred(truthy, lambda x: z3.Select(mem, x if isinstance(x, z3.ExprRef) else z3.IntVal(x)))
        o.mem = mem
        return o
    def sample(self, rng):
        r = rng.random()
        if r < 0.2:
            return None
        if r < 0.3:
            return frozenset()
        return frozenset(rng.sample(range(9), rng.randint(1, 4)))
    def from_model(self, ev, v):
        if not ev(v.truthy):
            return None
        s = frozenset(t for t in range(0, 41) if ev(v.member(t)))
        return s if s else frozenset([1000])
    def reshape(self, v):
        if isinstance(v, list):
            return frozenset(v)
        return v
    def jsonable(self, c):
        return sorted(c) if c is not None else None


def _sel(pagenos, maxpages, t):
    if isinstance(pagenos, SPred):
        chosen = Or(Not(pagenos.truthy), pagenos.member(t))
    else:
        chosen = (not pagenos) or (t in pagenos)
    return And(chosen, Or(eq(maxpages, 0), lt(t, maxpages)))


def _ymem(result, t):
    if isinstance(result, SYields):
        return result.member(t)
    return t in result


def _select_loop(fn):
    for n in fn.body:
        if isinstance(n, ast.For) and "create_pages" in ast.unparse(n.iter):
            return [n]
    return None


c = fragment("pdfminer.pdfpage:PDFPage.get_pages", "selection", _select_loop, props=["C04"], mode="stmts")
c.param("cls", _Pages()).param("doc", T.Opaque("doc")).param("pagenos", _IntSet()).param("maxpages", T.Int(lo=0, hi=50, samples=[0, 1, 2, 3]))
c.ghost("t", T.Int(lo=0, hi=40))
c.native = lambda nat: _native_select(nat)
c.loop(0, kind="for page,pageno",
       inv=lambda cls, pagenos, maxpages, yields, k: And(
           Or(eq(k, 0), eq(maxpages, 0), lt(k, maxpages)),
           ForAllInt(0, cls.n, lambda t: Iff(_ymem(yields, t), And(lt(t, k), _sel(pagenos, maxpages, t))), "t"),
           _sorted_below(yields, k)))
c.ens("yields-exactly-the-selected-pages-below-the-limit", lambda cls, pagenos, maxpages, t, result:
      Implies(lt(t, cls.n), Iff(_ymem(result, t), _sel(pagenos, maxpages, t))))
c.ens("in-page-order", lambda cls, result: _increasing(result))


def _sorted_below(ys, k):
    if not isinstance(ys, SYields):
        return all(a < b for a, b in zip(ys, ys[1:])) and all(y < k for y in ys)
    i = z3.Int("i!s")
    return And(z3.ForAll([i], z3.Implies(z3.And(0 <= i, i < ys.n), ys.at(i) < k)),
               z3.ForAll([i], z3.Implies(z3.And(0 <= i, i < ys.n - 1), ys.at(i) < ys.at(i + 1))))


def _increasing(ys):
    if not isinstance(ys, SYields):
        return all(a < b for a, b in zip(ys, ys[1:]))
    i = z3.Int("i!s")
    return z3.ForAll([i], z3.Implies(z3.And(0 <= i, i < ys.n - 1), ys.at(i) < ys.at(i + 1)))


def _native_select(nat):
    """run the real loop through the real generator with the parser/document stubbed out"""
    from pyvc.extract import real_module
    import types
    PDFPage = real_module("pdfminer.pdfpage").PDFPage
    mod = real_module("pdfminer.pdfpage")
    stub = nat["cls"]
    class FakeDoc:
        is_extractable = True
    saved = (mod.PDFParser, mod.PDFDocument)
    mod.PDFParser = lambda fp: None
    mod.PDFDocument = lambda parser, password="", caching=True: FakeDoc()
    try:
        f = PDFPage.get_pages.__func__
        return list(f(stub, None, pagenos=nat["pagenos"], maxpages=nat["maxpages"]))
    finally:
        mod.PDFParser, mod.PDFDocument = saved


@bounded("page-trees-through-real-documents", props=["C04"],
         bound="random page trees of <= 7 nodes with inheritable attributes at random nodes (direct or indirect), repeated kids and cycles; quick 150 trees, thorough 40000")
def _(tier, seed):
    import io, random
    from pyvc.extract import real_module
    from specs.pdfgen import build, Name, Ref
    PDFParser = real_module("pdfminer.pdfparser").PDFParser
    PDFDocument = real_module("pdfminer.pdfdocument").PDFDocument
    PDFPage = real_module("pdfminer.pdfpage").PDFPage
    rng = random.Random(seed + 4)
    n_trees = 150 if tier == "quick" else 40000
    failures, evals, distinct = [], 0, set()
    for _ in range(n_trees):
        nn = rng.randint(1, 6)
        # node i (object 10+i); node 0 is the root Pages
        kinds = ["Pages"] + [rng.choice(["Pages", "Page", "Page"]) for _ in range(nn)]
        kids = {i: [] for i in range(nn + 1)}
        for i in range(1, nn + 1):
            cands = [j for j in range(i) if kinds[j] == "Pages"]
            kids[rng.choice(cands)].append(i)
        # occasionally a repeated kid or a back edge (cycle)
        if rng.random() < 0.4:
            a = rng.choice([j for j in range(nn + 1) if kinds[j] == "Pages"])
            kids[a].append(rng.randint(0, nn))
        attrs = {}
        objs = {1: {"Type": Name("Catalog"), "Pages": Ref(10)}}
        nxt = [100]
        for i in range(nn + 1):
            d = {"Type": Name(kinds[i])}
            if kinds[i] == "Pages":
                d["Kids"] = [Ref(10 + j) for j in kids[i]]
            own = {}
            for key, gen in (("Rotate", lambda: rng.choice([0, 90, 180, 270, -90, 450])),
                             ("MediaBox", lambda: [rng.randint(0, 9), rng.randint(0, 9), rng.randint(100, 200), rng.randint(100, 200)]),
                             ("CropBox", lambda: [1, 2, rng.randint(50, 90), rng.randint(50, 90)]),
                             ("Resources", lambda: {"ProcSet": [Name("P%d" % rng.randint(0, 99))]})):
                if rng.random() < 0.35:
                    v = gen()
                    own[key] = v
                    if rng.random() < 0.4:
                        objs[nxt[0]] = v
                        d[key] = Ref(nxt[0])
                        nxt[0] += 1
                    else:
                        d[key] = v
            attrs[i] = own
            objs[10 + i] = d
        data = build(objs, 1)
        # oracle: depth-first walk, visiting each node once, nearest ancestor wins
        expect = []
        seen = set()
        def walk(i, inh):
            if i in seen:
                return
            seen.add(i)
            cur = dict(inh)
            cur.update(attrs[i])
            if kinds[i] == "Pages":
                for j in kids[i]:
                    walk(j, cur)
            else:
                expect.append((10 + i, cur))
        walk(0, {})
        doc = PDFDocument(PDFParser(io.BytesIO(data)))
        got = list(PDFPage.create_pages(doc))
        evals += 1
        distinct.add((nn, tuple(kinds), tuple(tuple(v) for v in kids.values())))
        ok = [p.pageid for p in got] == [e[0] for e in expect]
        if ok:
            for p, (oid, cur) in zip(got, expect):
                rot = cur.get("Rotate", 0) % 360
                mb = tuple(float(x) for x in cur.get("MediaBox", (0, 0, 612, 792)))
                cb = tuple(float(x) for x in cur.get("CropBox", mb))
                res = cur.get("Resources", {})
                gotres = p.resources.get("ProcSet", [None])[0] if isinstance(p.resources, dict) and p.resources else None
                wantres = str(res["ProcSet"][0]) if res else None
                if not (p.rotate == rot and tuple(p.mediabox) == mb and tuple(p.cropbox) == cb and
                        (gotres is None) == (wantres is None) and (gotres is None or gotres.name == wantres)):
                    ok = False
        if not ok:
            failures.append(dict(pdf_hex=data.hex(), expected=[e[0] for e in expect], got=[p.pageid for p in got]))
            if len(failures) >= 3:
                break
    return dict(evaluations=evals, distinct=len(distinct), failures=failures)


# -- page boxes: MediaBox / CropBox given directly, through one reference, or with referenced elements are read alike; damage falls back ---------
from pyvc.extract import real_module
pt_ = real_module("pdfminer.pdftypes")


class _BoxValue(T.Sort):
    """a box value as a document can write it: array of numbers, reference to such an array, array with referenced elements, or damage"""
    KINDS = ["direct", "indirect-array", "indirect-elements", "mixed-elements", "missing", "not-an-array", "three-numbers", "name-inside"]
    def fresh(self, ctx, name):
        from pyvc.values import SymFn
        k = ctx.choose(self.KINDS, "box-kind")
        nums = [ctx.fresh_real("%s.%d" % (name, i)) for i in range(4)]

        def ref(n, target):
            o = SObj(pt_.PDFObjRef, {"objid": n}, "ref%d" % n)
            o.f["resolve"] = SymFn(lambda I, default=None, target=target: target, "resolve")
            return o
        if k == "direct":
            v = list(nums)
        elif k == "indirect-array":
            v = ref(50, list(nums))
        elif k == "indirect-elements":
            v = [ref(51 + i, x) for i, x in enumerate(nums)]
        elif k == "mixed-elements":
            v = [nums[0], ref(51, nums[1]), nums[2], ref(52, nums[3])]
        elif k == "missing":
            v = None
        elif k == "not-an-array":
            v = 7
        elif k == "three-numbers":
            v = list(nums[:3])
        else:
            v = [nums[0], real_module("pdfminer.psparser").LIT("Nm"), nums[2], nums[3]]
        BOXMETA[0] = (k, nums)
        return v
    def sample(self, rng):
        return None
    def from_model(self, ev, v):
        return BOXMETA[0][0]


BOXMETA = [None]
for _fn, _dflt in (("_parse_mediabox", "us-letter"), ("_parse_cropbox", "mediabox")):
    c = contract("pdfminer.pdfpage:PDFPage." + _fn, props=["C04", "C13"])
    c.param("self", T.Obj("pdfminer.pdfpage:PDFPage")).param("value", _BoxValue())
    if _fn == "_parse_cropbox":
        c.param("mediabox", T.RealTup(4))
    c.skip_cross = True
    c.returns(T.RealTup(4))

    def _spec(value, result, mediabox=None, _dflt=_dflt):
        k, nums = BOXMETA[0]
        if k in ("direct", "indirect-array", "indirect-elements", "mixed-elements"):
            return eq(tuple(result), tuple(nums))
        fallback = (0, 0, 612, 792) if _dflt == "us-letter" else mediabox
        return eq(tuple(result), tuple(fallback))
    if _fn == "_parse_cropbox":
        c.ens("the-four-numbers-however-they-are-referenced-else-the-media-box", (lambda _s: lambda value, result, mediabox: _s(value, result, mediabox))(_spec))
    else:
        c.ens("the-four-numbers-however-they-are-referenced-else-US-letter", (lambda _s: lambda value, result: _s(value, result))(_spec))
