"""C05 - text model: state operators, positioning operators, pen advance, q/Q, forms."""
import ast
import z3
from pyvc.contracts import contract, fragment, lemma, bounded, REGISTRY
from pyvc.logic import And, Or, Not, Implies, Iff, eq, le, lt, If, ne
from pyvc import sorts as T
from pyvc.sorts import is_number
from pyvc.values import SObj
from specs import affine

M6 = lambda: T.RealTup(6)
P2 = lambda: T.RealTup(2)

TextStateS = lambda: T.Obj("pdfminer.pdfinterp:PDFTextState", font=T.Opaque("font"), fontsize=T.Real(), charspace=T.Real(),
                           wordspace=T.Real(), scaling=T.Real(), leading=T.Real(), render=T.Int(0, 7), rise=T.Real(),
                           matrix=M6(), linematrix=P2())
InterpS = lambda **kw: T.Obj("pdfminer.pdfinterp:PDFPageInterpreter", textstate=TextStateS(), **kw)

# ISO 32000-1 9.3: the text state parameters; pdfminer stores leading = -TL
_SETTERS = [("do_Tc", "charspace", lambda v: v, False), ("do_Tw", "wordspace", lambda v: v, False),
            ("do_Tz", "scaling", lambda v: v, False), ("do_TL", "leading", lambda v: -v, False),
            ("do_Ts", "rise", lambda v: v, False), ("do_Tr", "render", lambda v: v, True)]
for _op, _fld, _conv, _integral in _SETTERS:
    c = contract("pdfminer.pdfinterp:PDFPageInterpreter.%s" % _op, props=["C05"])
    c.param("self", InterpS()).param("arg", T.Operand(integral=_integral))
    c.mod("self.textstate." + _fld)
    c.ens("sets-exactly-the-named-parameter", (lambda fld, conv: lambda self, old, arg:
          eq(getattr(self.textstate, fld), conv(arg)) if is_number(arg)
          else eq(getattr(self.textstate, fld), getattr(old.self.textstate, fld)))(_fld, _conv))


def _td_matrix(old_m, tx, ty):
    # ISO 9.4.2:  Tm = Tlm = [1 0 0 1 tx ty] x Tlm
    return affine.compose(affine.translation((tx, ty)), old_m)


c = contract("pdfminer.pdfinterp:PDFPageInterpreter.do_Td", props=["C05"])
c.param("self", InterpS()).param("tx", T.Operand()).param("ty", T.Operand())
c.mod("self.textstate.matrix").mod("self.textstate.linematrix")
c.ens("translates-line-matrix", lambda self, old, tx, ty:
      And(eq(self.textstate.matrix, _td_matrix(old.self.textstate.matrix, tx, ty)), eq(self.textstate.linematrix, (0, 0)))
      if is_number(tx) and is_number(ty) else eq(self.textstate.matrix, old.self.textstate.matrix))

c = contract("pdfminer.pdfinterp:PDFPageInterpreter.do_TD", props=["C05"])
c.param("self", InterpS()).param("tx", T.Operand()).param("ty", T.Operand())
c.mod("self.textstate.matrix").mod("self.textstate.linematrix").mod("self.textstate.leading")
c.ens("translates-and-sets-leading", lambda self, old, tx, ty:
      And(eq(self.textstate.matrix, _td_matrix(old.self.textstate.matrix, tx, ty)), eq(self.textstate.linematrix, (0, 0)),
          eq(-self.textstate.leading, -ty))   # TL = -ty
      if is_number(tx) and is_number(ty) else eq(self.textstate.matrix, old.self.textstate.matrix))

c = contract("pdfminer.pdfinterp:PDFPageInterpreter.do_Tm", props=["C05"])
c.param("self", InterpS())
for _n in "abcdef":
    c.param(_n, T.Operand())
c.mod("self.textstate.matrix").mod("self.textstate.linematrix")
c.ens("sets-text-and-line-matrix", lambda self, old, a, b, c, d, e, f:
      And(eq(self.textstate.matrix, (a, b, c, d, e, f)), eq(self.textstate.linematrix, (0, 0)))
      if all(is_number(v) for v in (a, b, c, d, e, f))
      else And(eq(self.textstate.matrix, old.self.textstate.matrix), eq(self.textstate.linematrix, old.self.textstate.linematrix)))

c = contract("pdfminer.pdfinterp:PDFPageInterpreter.do_T_a", props=["C05"])
c.param("self", InterpS())
c.mod("self.textstate.matrix").mod("self.textstate.linematrix")
c.ens("next-line-by-leading", lambda self, old:     # T* = 0 -TL Td, stored leading = -TL
      And(eq(self.textstate.matrix, _td_matrix(old.self.textstate.matrix, 0, old.self.textstate.leading)),
          eq(self.textstate.linematrix, (0, 0))))

# do_TJ hands the device the live text state, the operand, the non-stroking space and a copy of the graphic state
for _k, _ps in (("pdfminer.pdfdevice:PDFDevice.render_string", ["self", "textstate", "seq", "ncs", "graphicstate"]),):
    a = contract(_k, props=[])
    a.abstract = True
    a.traced = True
    for p in _ps:
        a.param(p, T.Opaque(p))

GStateS = lambda: T.Obj("pdfminer.pdfinterp:PDFGraphicState", linewidth=T.Real(), linecap=T.Opaque("cap"), linejoin=T.Opaque("join"),
                        miterlimit=T.Opaque("miter"), dash=T.Opaque("dash"), intent=T.Opaque("intent"), flatness=T.Opaque("flat"),
                        scolor=T.Opaque("scolor"), ncolor=T.Opaque("ncolor"))


def fields_of(o):
    return o.f if isinstance(o, SObj) else vars(o)


def same_fields(a, b):
    fa, fb = fields_of(a), fields_of(b)
    if set(fa) != set(fb):
        return False
    return And(*[eq(fa[k], fb[k]) for k in fa])

DevS = lambda **kw: T.Obj("pdfminer.pdfdevice:PDFDevice", **kw)
c = contract("pdfminer.pdfinterp:PDFPageInterpreter.do_TJ", props=["C05"])
c.param("self", InterpS(device=DevS(), ncs=T.Opaque("ncs"), graphicstate=GStateS()))
c.param("seq", T.OneOf("an-array", 7, b"a string", None))
c.wire = lambda bound, ghosts: bound.__setitem__("seq", [b"text", -120, b"more"]) if bound["seq"] == "an-array" else None
c.may_raise(AssertionError, None)
# an array is shown with the current state (the graphic state as a copy); an operand that is not an array shows nothing (damaged content streams, C13)
c.ens("shows-an-array-with-current-state-ignores-anything-else", lambda self, seq, trace:
      (And([t[0] for t in trace] == ["PDFDevice.render_string"],
           trace[0][1]["textstate"] is self.textstate, trace[0][1]["seq"] is seq, trace[0][1]["ncs"] is self.ncs,
           trace[0][1]["graphicstate"] is not self.graphicstate, same_fields(trace[0][1]["graphicstate"], self.graphicstate))
       if isinstance(seq, list) else len(trace) == 0))
c.skip_cross = True

# ' and " in terms of the other operators (modular: callee contracts only)
for _k, _ps in (("pdfminer.pdfinterp:PDFPageInterpreter.do_TJ!abs", None),):
    pass


def _calls(fn_node):
    """names of self.do_* calls in statement order"""
    out = []
    for st in fn_node.body:
        for n in ast.walk(st):
            if isinstance(n, ast.Call) and isinstance(n.func, ast.Attribute) and n.func.attr.startswith("do_"):
                out.append(n.func.attr)
    return out


from pyvc.contracts import exhaustive
from pyvc.extract import get_function


@exhaustive("quote-operators-are-defined-by-Tstar-Tw-Tc-Tj", props=["C05"],
            note="ISO Table 109: ' = T* Tj ; \" = aw Tw, ac Tc, then '  (call sequence read from the real AST)")
def _():
    fails = []
    q = _calls(get_function("pdfminer.pdfinterp", "PDFPageInterpreter.do__q").node)
    w = _calls(get_function("pdfminer.pdfinterp", "PDFPageInterpreter.do__w").node)
    if q != ["do_T_a", "do_TJ"]:
        fails.append(dict(op="'", calls=q))
    if w not in (["do_Tw", "do_Tc", "do_T_a", "do_TJ"], ["do_Tc", "do_Tw", "do_T_a", "do_TJ"], ["do_Tw", "do_Tc", "do__q"], ["do_Tc", "do_Tw", "do__q"]):
        fails.append(dict(op='"', calls=w))
    return dict(cases=2, failures=fails)


# ---------------------------------------------------------------------------
# state copies, q/Q
def fields_of(o):
    return o.f if isinstance(o, SObj) else vars(o)


GStateS = lambda: T.Obj("pdfminer.pdfinterp:PDFGraphicState", linewidth=T.Real(), linecap=T.Opaque("cap"), linejoin=T.Opaque("join"),
                        miterlimit=T.Opaque("miter"), dash=T.Opaque("dash"), intent=T.Opaque("intent"), flatness=T.Opaque("flat"),
                        scolor=T.Opaque("scolor"), ncolor=T.Opaque("ncolor"))


def same_fields(a, b):
    fa, fb = fields_of(a), fields_of(b)
    if set(fa) != set(fb):
        return False
    return And(*[eq(fa[k], fb[k]) for k in fa])


for _cls, _S in (("PDFTextState", TextStateS), ("PDFGraphicState", GStateS)):
    c = contract("pdfminer.pdfinterp:%s.copy" % _cls, props=["C05", "C16"], inline=True)
    c.param("self", _S())
    c.ens("fresh-object", lambda self, result: result is not self)
    c.ens("every-field-copied", lambda self, result: same_fields(result, self))

c = T = T  # keep linters quiet
from pyvc.contracts import scenario

_QQ = '''
def q_then_changes_then_Q(self, m2, ts2, w2, col2):
    self.do_q()
    self.ctm = m2
    self.device.set_ctm(m2)
    self.textstate.charspace = ts2[0]
    self.textstate.wordspace = ts2[1]
    self.textstate.scaling = ts2[2]
    self.textstate.leading = ts2[3]
    self.textstate.rise = ts2[4]
    self.textstate.fontsize = ts2[5]
    self.textstate.matrix = (ts2[0], ts2[1], ts2[2], ts2[3], ts2[4], ts2[5])
    self.textstate.linematrix = (ts2[0], ts2[1])
    self.graphicstate.linewidth = w2
    self.graphicstate.scolor = col2
    self.graphicstate.ncolor = col2
    self.do_Q()
'''
c = scenario("pdfminer.pdfinterp", "q_then_changes_then_Q", _QQ, props=["C05", "C16"])
c.param("self", T.Obj("pdfminer.pdfinterp:PDFPageInterpreter", textstate=TextStateS(), graphicstate=GStateS(), ctm=M6(),
                      gstack=T.Tup(as_list=True), device=T.Obj("pdfminer.pdfdevice:PDFDevice", ctm=M6()),
                      scs=T.Const("the-stroking-colour-space"), ncs=T.Const("the-non-stroking-colour-space")))   # not part of q/Q in this code base: the frame keeps them
c.param("m2", M6()).param("ts2", T.RealTup(6)).param("w2", T.Real()).param("col2", T.RealTup(3))
c.req("device-in-sync", lambda self: eq(self.device.ctm, self.ctm))
c.mod("self.textstate").mod("self.graphicstate")     # objects are replaced by the saved copies: compare by value below
c.ens("ctm-restored", lambda self, old: And(eq(self.ctm, old.self.ctm), eq(self.device.ctm, old.self.ctm)))
c.ens("text-state-restored", lambda self, old: same_fields(self.textstate, old.self.textstate))
c.ens("graphic-state-restored", lambda self, old: same_fields(self.graphicstate, old.self.graphicstate))
c.ens("stack-balanced", lambda self: len(self.gstack) == 0)

_Q_EMPTY = '''
def Q_on_empty_stack(self):
    self.do_Q()
'''
c = scenario("pdfminer.pdfinterp", "Q_on_empty_stack", _Q_EMPTY, props=["C05", "C16"])
c.param("self", T.Obj("pdfminer.pdfinterp:PDFPageInterpreter", textstate=TextStateS(), graphicstate=GStateS(), ctm=M6(),
                      gstack=T.Tup(as_list=True), device=T.Obj("pdfminer.pdfdevice:PDFDevice", ctm=M6())))
c.ens("unbalanced-Q-changes-nothing", lambda self, old: And(eq(self.ctm, old.self.ctm), self.textstate is not None))


def _sync(rng, conc):
    conc["self"].device.ctm = conc["self"].ctm
    return conc


REGISTRY["pdfminer.pdfinterp:scenario.q_then_changes_then_Q"].samples_hint = _sync

# ---------------------------------------------------------------------------
# PDFTextDevice.render_string: parameter plumbing of ISO 9.3 / 9.4.4
for _k in ("render_string_horizontal", "render_string_vertical"):
    a = contract("pdfminer.pdfdevice:PDFTextDevice.%s" % _k, props=[])
    a.abstract = True
    a.traced = True
    for p in ["self", "seq", "matrix", "pos", "font", "fontsize", "scaling", "charspace", "wordspace", "rise", "dxscale", "ncs", "graphicstate"]:
        a.param(p, T.Opaque(p))
    a.returns(P2())


class _Font(T.Sort):
    """abstract font: multibyte / vertical flags, decode, widths"""
    def __init__(self, vertical=None):
        self.vertical = vertical
    def fresh(self, ctx, name):
        mb = ctx.choose([False, True], "multibyte")
        vert = self.vertical if self.vertical is not None else ctx.choose([False, True], "vertical")
        from pyvc.values import SymFn
        o = SObj(None, {"_mb": mb, "_vert": vert}, name)
        o.f["is_multibyte"] = SymFn(lambda I: mb)
        o.f["is_vertical"] = SymFn(lambda I: vert)
        return o
    def sample(self, rng):
        return T.CObj(None, _mb=rng.random() < 0.5, _vert=(self.vertical if self.vertical is not None else rng.random() < 0.5))
    def from_model(self, ev, v):
        return T.CObj(None, _mb=v.f["_mb"], _vert=v.f["_vert"])
    def to_native(self, c):
        class F:
            _mb, _vert = c._mb, c._vert
            def is_multibyte(self): return self._mb
            def is_vertical(self): return self._vert
        return F()


c = contract("pdfminer.pdfdevice:PDFTextDevice.render_string", props=["C05"])
c.param("self", T.Obj("pdfminer.pdfdevice:PDFTextDevice", ctm=M6()))
c.param("textstate", T.Obj("pdfminer.pdfinterp:PDFTextState", font=_Font(), fontsize=T.Real(), charspace=T.Real(), wordspace=T.Real(),
                           scaling=T.Real(), leading=T.Real(), render=T.Int(0, 7), rise=T.Real(), matrix=M6(), linematrix=P2()))
c.param("seq", T.Opaque("seq")).param("ncs", T.Opaque("ncs")).param("graphicstate", T.Opaque("gs"))
c.mod("textstate.linematrix")
c.skip_cross = True


def _rs_args(trace):
    return trace[0][1]


c.ens("one-showing-call-by-writing-mode", lambda textstate, trace: And(
    len(trace) == 1, trace[0][0] == ("PDFTextDevice.render_string_vertical" if textstate.font._vert else "PDFTextDevice.render_string_horizontal")))
c.ens("text-rendering-matrix-is-Tm-x-CTM", lambda self, old, trace: eq(_rs_args(trace)["matrix"], affine.compose(old.textstate.matrix, self.ctm)))
c.ens("Th-Tc-Tw-Trise-Tfs", lambda old, trace: And(
    eq(_rs_args(trace)["scaling"], old.textstate.scaling / 100),
    eq(_rs_args(trace)["charspace"], old.textstate.charspace * (old.textstate.scaling / 100)),
    eq(_rs_args(trace)["wordspace"], 0 if old.textstate.font._mb else old.textstate.wordspace * (old.textstate.scaling / 100)),
    eq(_rs_args(trace)["rise"], old.textstate.rise), eq(_rs_args(trace)["fontsize"], old.textstate.fontsize)))
c.ens("TJ-number-scale", lambda old, trace:   # tx = -(Tj/1000) * Tfs * Th
      eq(_rs_args(trace)["dxscale"], old.textstate.fontsize * (old.textstate.scaling / 100) / 1000))
c.ens("starts-at-pen-and-stores-pen", lambda textstate, old, trace, ctx: And(
    eq(_rs_args(trace)["pos"], old.textstate.linematrix), _rs_args(trace)["seq"] is not None))
c.ens("operands-forwarded", lambda seq, ncs, graphicstate, textstate, trace: And(
    _rs_args(trace)["seq"] is seq, _rs_args(trace)["ncs"] is ncs, _rs_args(trace)["graphicstate"] is graphicstate,
    _rs_args(trace)["font"] is textstate.font))


# pen advance: one glyph / one TJ number  (ISO 9.4.4: tx = ((w0 - Tj/1000) Tfs + Tc + Tw) Th)
a = contract("pdfminer.pdfdevice:PDFTextDevice.render_char", props=[])
a.abstract = True
a.traced = True
for p in ["self", "matrix", "font", "fontsize", "scaling", "rise", "cid", "ncs", "graphicstate"]:
    a.param(p, T.Opaque(p))
a.returns(T.Real())


def _glyph_body(fn):
    """body of the innermost loop over font.decode(obj)"""
    for n in ast.walk(fn):
        if isinstance(n, ast.For) and "decode" in ast.unparse(n.iter):
            return n.body
    return None


def _number_branch(fn):
    for n in ast.walk(fn):
        if isinstance(n, ast.If) and "isinstance(obj, (int, float))" in ast.unparse(n.test):
            return n.body
    return None


for _dir, _axis in (("horizontal", 0), ("vertical", 1)):
    c = fragment("pdfminer.pdfdevice:PDFTextDevice.render_string_%s" % _dir, "glyph-step", _glyph_body, props=["C05"], mode="stmts")
    c.param("self", T.Obj("pdfminer.pdfdevice:PDFTextDevice"))
    c.param("x", T.Real()).param("y", T.Real()).param("matrix", M6())
    c.param("charspace", T.Real()).param("wordspace", T.Real()).param("cid", T.Int(0, 65535, samples=[32, 65]))
    for p in ("font", "fontsize", "scaling", "rise", "ncs", "graphicstate"):
        c.param(p, T.Opaque(p))
    c.skip_cross = True
    c.ens("glyph-origin-is-the-pen", (lambda ax: lambda old, trace: And(
        len(trace) == 1, eq(trace[0][1]["matrix"], affine.compose(affine.translation((old.x, old.y)), old.matrix)),
        trace[0][1]["cid"] is old.cid or eq(trace[0][1]["cid"], old.cid)))(_axis))
    c.ens("pen-advances-by-w-plus-Tc-plus-Tw-on-space", (lambda ax: lambda old, x, y, trace, ctx: And(
        eq((x, y)[ax], (old.x, old.y)[ax] + ctx.last_result + old.charspace + If(eq(old.cid, 32), old.wordspace, 0)),
        eq((x, y)[1 - ax], (old.x, old.y)[1 - ax])))(_axis))

    c = fragment("pdfminer.pdfdevice:PDFTextDevice.render_string_%s" % _dir, "number-step", _number_branch, props=["C05"], mode="stmts")
    c.param("x", T.Real()).param("y", T.Real()).param("obj", T.Real()).param("dxscale", T.Real()).param("needcharspace", T.Bool())
    c.ens("pen-moves-back-by-Tj-scaled", (lambda ax: lambda old, x, y: And(
        eq((x, y)[ax], (old.x, old.y)[ax] - old.obj * old.dxscale), eq((x, y)[1 - ax], (old.x, old.y)[1 - ax])))(_axis))


# ---------------------------------------------------------------------------
# LTChar: advance and glyph box (ISO 9.4.4: glyph space is 1/1000 text unit; w0 * Tfs * Th)
class _CharFont(T.Sort):
    def __init__(self, vertical):
        self.vertical = vertical
    def fresh(self, ctx, name):
        from pyvc.values import SymFn
        desc = ctx.fresh_real("descent")
        o = SObj(None, {"fontname": "F", "_descent": desc, "_vert": self.vertical}, name)
        o.f["is_vertical"] = SymFn(lambda I: self.vertical)
        o.f["get_descent"] = SymFn(lambda I: desc)
        return o
    def sample(self, rng):
        from fractions import Fraction
        return T.CObj(None, fontname="F", _descent=Fraction(rng.randint(-8, 0), 8), _vert=self.vertical)
    def from_model(self, ev, v):
        from fractions import Fraction
        return T.CObj(None, fontname="F", _descent=Fraction(ev(v.f["_descent"])), _vert=self.vertical)
    def to_native(self, c):
        class F:
            fontname = "F"
            _descent, _vert = c._descent, c._vert
            def is_vertical(self): return c._vert
            def get_descent(self): return c._descent
        return F()


def _sorted_box(b):
    from pyvc.logic import Min, Max
    return (Min(b[0], b[2]), Min(b[1], b[3]), Max(b[0], b[2]), Max(b[1], b[3]))


c = contract("pdfminer.layout:LTChar.__init__", props=["C05"])
c.param("self", T.Obj("pdfminer.layout:LTChar"))
c.param("matrix", M6()).param("font", _CharFont(False)).param("fontsize", T.Real()).param("scaling", T.Real()).param("rise", T.Real())
c.param("text", T.Const("A")).param("textwidth", T.Real()).param("textdisp", T.Real()).param("ncs", T.Opaque("ncs")).param("graphicstate", T.Opaque("gs"))
c.mod("self.*")
c.native = lambda nat: _native_ltchar(nat)
c.ens("advance-is-w0-Tfs-Th", lambda self, textwidth, fontsize, scaling: eq(self.adv, textwidth * fontsize * scaling))
c.ens("glyph-box-is-hull-of-text-space-box", lambda self, matrix, font, fontsize, rise, textwidth, scaling:
      eq((self.x0, self.y0, self.x1, self.y1),
         _sorted_box(affine.hull4(matrix, (0, font._descent * fontsize + rise, textwidth * fontsize * scaling,
                                           font._descent * fontsize + rise + fontsize)))))
c.ens("carries-matrix-text-state", lambda self, matrix, ncs, graphicstate: And(
    eq(self.matrix, matrix), self.ncs is ncs, self.graphicstate is graphicstate, self._text == "A", self.fontname == "F"))
c.ens("size-is-height", lambda self: eq(self.size, self.y1 - self.y0))


def _native_ltchar(nat):
    from pyvc.extract import real_module
    LTChar = real_module("pdfminer.layout").LTChar
    o = nat["self"]
    LTChar.__init__(o, *[nat[k] for k in ("matrix", "font", "fontsize", "scaling", "rise", "text", "textwidth", "textdisp", "ncs", "graphicstate")])
    return None


# ---------------------------------------------------------------------------
# form XObjects: CTM = Matrix x CTM, own resources, caller state untouched, device CTM restored
for _k, _ps, _ret in (("pdfminer.pdfinterp:PDFPageInterpreter.dup", ["self"], "interp"),
                      ("pdfminer.pdfdevice:PDFDevice.begin_figure", ["self", "name", "bbox", "matrix"], None),
                      ("pdfminer.pdfdevice:PDFDevice.end_figure", ["self", "name"], None),
                      ("pdfminer.pdfdevice:PDFDevice.render_image", ["self", "name", "stream"], None),
                      ("pdfminer.pdfdevice:PDFDevice.set_ctm", ["self", "ctm"], None)):
    a = contract(_k, props=[])
    a.abstract = True
    a.traced = True
    for p in _ps:
        a.param(p, T.Opaque(p))
REGISTRY["pdfminer.pdfinterp:PDFPageInterpreter.dup"].returns(T.Obj("pdfminer.pdfinterp:PDFPageInterpreter"))


class _FormXObj(T.Sort):
    """a form XObject stream: BBox, optional Matrix, optional Resources"""
    def fresh(self, ctx, name):
        from pyvc.extract import real_module
        pt = real_module("pdfminer.pdftypes")
        lit = real_module("pdfminer.psparser").LIT
        attrs = {"Subtype": lit("Form"), "BBox": [ctx.fresh_real("bb%d" % i) for i in range(4)]}
        has_m = ctx.choose([True, False], "has-matrix")
        if has_m:
            attrs["Matrix"] = [ctx.fresh_real("fm%d" % i) for i in range(6)]
        has_r = ctx.choose([True, False], "has-resources")
        if has_r:
            attrs["Resources"] = {"Font": {"F9": 1}}
        return SObj(pt.PDFStream, {"attrs": attrs, "_has_m": has_m, "_has_r": has_r}, name)
    def sample(self, rng):
        from fractions import Fraction
        has_m, has_r = rng.random() < 0.7, rng.random() < 0.5
        return T.CObj(None, bbox=[Fraction(rng.randint(-5, 50)) for _ in range(4)], matrix=[Fraction(rng.randint(-4, 4)) for _ in range(6)], _has_m=has_m, _has_r=has_r)
    def from_model(self, ev, v):
        from fractions import Fraction
        a = v.f["attrs"]
        return T.CObj(None, bbox=[Fraction(ev(x)) for x in a["BBox"]], matrix=[Fraction(ev(x)) for x in a.get("Matrix", [1, 0, 0, 1, 0, 0])],
                      _has_m=v.f["_has_m"], _has_r=v.f["_has_r"])
    def to_native(self, c):
        from pyvc.extract import real_module
        pt = real_module("pdfminer.pdftypes")
        lit = real_module("pdfminer.psparser").LIT
        attrs = {"Subtype": lit("Form"), "BBox": list(c.bbox)}
        if c._has_m:
            attrs["Matrix"] = list(c.matrix)
        if c._has_r:
            attrs["Resources"] = {"Font": {"F9": 1}}
        s = pt.PDFStream(attrs, b"")
        s._has_m, s._has_r = c._has_m, c._has_r
        return s


def _form_matrix(x):
    a = x.attrs if not isinstance(x, SObj) else x.f["attrs"]
    return tuple(a["Matrix"]) if "Matrix" in a else (1, 0, 0, 1, 0, 0)


def _form_attrs(x):
    return x.attrs if not isinstance(x, SObj) else x.f["attrs"]


c = contract("pdfminer.pdfinterp:PDFPageInterpreter.do_Do#form", props=["C05"])
c.modname, c.qualname = "pdfminer.pdfinterp", "PDFPageInterpreter.do_Do"
c.param("self", T.Obj("pdfminer.pdfinterp:PDFPageInterpreter", textstate=TextStateS(), graphicstate=GStateS(), ctm=M6(),
                      gstack=T.Tup(as_list=True), device=T.Obj("pdfminer.pdfdevice:PDFDevice"),
                      resources=T.Const({"Font": {"F1": 7}}), xobjmap=T.Tup(as_list=True)))
c.param("xobjid_arg", T.Const("Fm1"))
c.ghost("xobj", _FormXObj())
c.skip_cross = True


def _do_trace(trace):
    return {t[0]: t[1] for t in trace}


c.ens("figure-brackets-the-form", lambda trace: [t[0] for t in trace] ==
      ["PDFPageInterpreter.dup", "PDFDevice.begin_figure", "PDFPageInterpreter.render_contents", "PDFDevice.set_ctm", "PDFDevice.end_figure"])
c.ens("form-ctm-is-Matrix-x-CTM", lambda self, xobj, trace: eq(_do_trace(trace)["PDFPageInterpreter.render_contents"]["ctm"],
      affine.compose(_form_matrix(xobj), self.ctm)))
c.ens("device-ctm-restored-to-callers", lambda self, trace: eq(_do_trace(trace)["PDFDevice.set_ctm"]["ctm"], self.ctm))
c.ens("runs-in-a-separate-interpreter", lambda self, trace: _do_trace(trace)["PDFPageInterpreter.render_contents"]["self"] is not self)
c.ens("own-resources-else-callers", lambda self, xobj, trace:
      (_do_trace(trace)["PDFPageInterpreter.render_contents"]["resources"] == {"Font": {"F9": 1}}) if xobj._has_r
      else (_do_trace(trace)["PDFPageInterpreter.render_contents"]["resources"] == {"Font": {"F1": 7}}
            and _do_trace(trace)["PDFPageInterpreter.render_contents"]["resources"] is not self.resources))
c.ens("figure-gets-bbox-and-matrix", lambda xobj, trace: And(
    eq(tuple(_do_trace(trace)["PDFDevice.begin_figure"]["bbox"]), tuple(_form_attrs(xobj)["BBox"])),
    eq(tuple(_do_trace(trace)["PDFDevice.begin_figure"]["matrix"]), _form_matrix(xobj))))


def _wire_form(bound, ghosts):
    bound["self"].f["xobjmap"] = {"Fm1": ghosts["xobj"]}


REGISTRY["pdfminer.pdfinterp:PDFPageInterpreter.do_Do#form"].wire = _wire_form


c = contract("pdfminer.pdfinterp:PDFPageInterpreter.do_BT", props=["C05"])
c.param("self", InterpS())
c.mod("self.textstate.matrix").mod("self.textstate.linematrix")
c.ens("Tm-and-Tlm-identity", lambda self: And(eq(self.textstate.matrix, (1, 0, 0, 1, 0, 0)), eq(self.textstate.linematrix, (0, 0))))

c = contract("pdfminer.pdfinterp:PDFPageInterpreter.do_cm", props=["C05", "C16"])
c.param("self", T.Obj("pdfminer.pdfinterp:PDFPageInterpreter", ctm=M6(), device=T.Obj("pdfminer.pdfdevice:PDFDevice"), textstate=TextStateS()))
for _n in ("a1", "b1", "c1", "d1", "e1", "f1"):
    c.param(_n, T.Operand(bad=(None,)))
c.mod("self.ctm")
c.skip_cross = True
c.ens("concatenates-in-front-of-ctm", lambda self, old, a1, b1, c1, d1, e1, f1, trace:
      And(eq(self.ctm, affine.compose((a1, b1, c1, d1, e1, f1), old.self.ctm)), len(trace) == 1,
          trace[0][0] == "PDFDevice.set_ctm", eq(trace[0][1]["ctm"], self.ctm))
      if all(is_number(v) for v in (a1, b1, c1, d1, e1, f1)) else And(eq(self.ctm, old.self.ctm), len(trace) == 0))


@exhaustive("operators-exist-with-ISO-operand-counts", props=["C05", "C16"],
            note="dispatch by operand count (PDFPageInterpreter.execute): every listed operator has a do_* method whose positional arity equals the ISO operand count")
def _():
    from pyvc.extract import real_module
    P = real_module("pdfminer.pdfinterp").PDFPageInterpreter
    iso = {"q": 0, "Q": 0, "cm": 6, "BT": 0, "ET": 0, "Tc": 1, "Tw": 1, "Tz": 1, "TL": 1, "Tf": 2, "Ts": 1, "Tr": 1, "Td": 2, "TD": 2,
           "Tm": 6, "T*": 0, "Tj": 1, "TJ": 1, "'": 1, '"': 3, "Do": 1,
           "m": 2, "l": 2, "c": 6, "v": 4, "y": 4, "h": 0, "re": 4, "S": 0, "s": 0, "f": 0, "f*": 0, "B": 0, "B*": 0, "b": 0, "b*": 0, "n": 0,
           "w": 1, "d": 2, "g": 1, "G": 1, "rg": 3, "RG": 3, "k": 4, "K": 4, "cs": 1, "CS": 1}
    fails = []
    for op, n in iso.items():
        meth = "do_%s" % op.replace("*", "_a").replace('"', "_w").replace("'", "_q")
        f = getattr(P, meth, None)
        if f is None or f.__code__.co_argcount - 1 != n:
            fails.append(dict(operator=op, method=meth, arity=None if f is None else f.__code__.co_argcount - 1, iso=n))
    return dict(cases=len(iso), failures=fails)


def _exec_dispatch(fn):
    """the `if hasattr(self, method): ...` block of execute"""
    for n in ast.walk(fn):
        if isinstance(n, ast.If) and "hasattr(self, method)" in ast.unparse(n.test):
            return n.body
    return None


class _OpMethod(T.Sort):
    """self with one operator method of arity n (0..3) that records its call; argstack of m operands"""
    def fresh(self, ctx, name):
        from pyvc.values import SymFn
        n = ctx.choose([0, 1, 2, 3], "arity")
        m = ctx.choose([0, 1, 2, 3, 4], "stack")
        calls = []
        class Code:
            co_argcount = n + 1
        fn = SymFn(lambda I, *a: calls.append(a), "do_X")
        fn.__code__ = Code
        stack = [ctx.fresh_int("arg%d" % i) for i in range(m)]
        o = SObj(_real("pdfminer.pdfinterp", "PDFPageInterpreter"), {"do_X": fn, "argstack": stack, "_n": n, "_m": m, "_calls": calls, "_stack0": list(stack)}, name)
        return o
    def sample(self, rng):
        return T.CObj(None, _n=rng.randint(0, 3), _m=rng.randint(0, 4))
    def from_model(self, ev, v):
        return T.CObj(None, _n=v.f["_n"], _m=v.f["_m"])


def _real(mod, name):
    from pyvc.extract import real_module
    return getattr(real_module(mod), name)


c = fragment("pdfminer.pdfinterp:PDFPageInterpreter.execute", "dispatch-by-operand-count", _exec_dispatch, props=["C05", "C16"], mode="stmts")
c.param("self", _OpMethod()).param("method", T.Const("do_X")).param("name", T.Const("X"))
c.skip_cross = True
c.mod("self.argstack").mod("self._calls")
c.ens("called-with-the-top-n-operands-or-skipped", lambda self: (
    (len(self._calls) == 1 and list(self._calls[0]) == self._stack0[self._m - self._n:] if self._n else len(self._calls) == 1 and self._calls[0] == ())
    if self._m >= self._n else len(self._calls) == 0))
c.ens("operands-consumed", lambda self: list(self.argstack) == (self._stack0[: self._m - self._n] if (self._n and self._m >= self._n) else
                                                               ([] if self._n and self._m < self._n else self._stack0)))


@bounded("operator-programs-vs-ISO-text-model", props=["C05"],
         bound="random programs of 6..16 operators over q Q cm BT ET Tc Tw Tz TL Tf Ts Td TD Tm T* Tj TJ ' \" with dyadic operands, two fonts with random width tables; each also split into 1..4 content streams at operator boundaries; quick 120 programs, thorough 20000")
def _(tier, seed):
    import io, random
    from fractions import Fraction as F
    from pyvc.extract import real_module
    from specs import textmodel as TM
    from specs.pdfgen import build, Name, Ref, Stream, simple_font
    rng = random.Random(seed + 5)
    n_prog = 120 if tier == "quick" else 20000
    PDFParser = real_module("pdfminer.pdfparser").PDFParser
    PDFDocument = real_module("pdfminer.pdfdocument").PDFDocument
    PDFPage = real_module("pdfminer.pdfpage").PDFPage
    interp = real_module("pdfminer.pdfinterp")
    conv = real_module("pdfminer.converter")
    layout = real_module("pdfminer.layout")
    dy = lambda lo, hi: F(rng.randint(lo * 4, hi * 4), 4)
    failures, evals, distinct = [], 0, set()
    for _ in range(n_prog):
        widths = {"F1": {c: rng.choice([250, 500, 750, 1000]) for c in range(32, 127)},
                  "F2": {c: rng.choice([300, 600]) for c in range(32, 127)}}
        prog = [("BT", []), ("Tf", [rng.choice(["F1", "F2"]), dy(4, 24)])]
        depth = 0
        for _i in range(rng.randint(6, 16)):
            op = rng.choice(["Tc", "Tw", "Tz", "TL", "Ts", "Td", "TD", "Tm", "T*", "Tj", "Tj", "TJ", "'", '"', "q", "Q", "cm", "Tf"])
            txt = lambda: bytes(rng.choice(b"AB C") for _ in range(rng.randint(1, 3)))
            if op in ("Tc", "Tw", "TL", "Ts"):
                prog.append((op, [dy(-3, 6)]))
            elif op == "Tz":
                prog.append((op, [F(rng.choice([50, 100, 150, 200]))]))
            elif op in ("Td", "TD"):
                prog.append((op, [dy(-20, 40), dy(-20, 40)]))
            elif op == "Tm":
                prog.append((op, [F(rng.choice([1, 2])), F(0), F(0), F(rng.choice([1, 2])), dy(0, 100), dy(0, 100)]))
            elif op == "T*":
                prog.append((op, []))
            elif op in ("Tj", "'"):
                prog.append((op, [txt()]))
            elif op == '"':
                prog.append((op, [dy(0, 4), dy(0, 4), txt()]))
            elif op == "TJ":
                prog.append((op, [[rng.choice([txt(), F(rng.randint(-400, 400))]) for _k in range(rng.randint(1, 4))]]))
            elif op == "q":
                prog.append(("q", [])); depth += 1
            elif op == "Q":
                if depth:
                    prog.append(("Q", [])); depth -= 1
                    prog.append(("Tf", [rng.choice(["F1", "F2"]), dy(4, 24)]))   # font survives Q in ISO too, but keep programs simple
            elif op == "cm":
                prog.append((op, [F(rng.choice([1, 2])), F(0), F(0), F(1), dy(-8, 8), dy(-8, 8)]))
            elif op == "Tf":
                prog.append((op, [rng.choice(["F1", "F2"]), dy(4, 24)]))
        prog.append(("ET", []))
        lines = TM.serialise(prog)
        want = TM.run(prog, widths, (F(1), F(0), F(0), F(1), F(0), F(0)))
        for nsplit in sorted({1, rng.randint(2, 4)}):
            cuts = sorted(rng.sample(range(1, len(lines)), min(nsplit - 1, len(lines) - 1))) if nsplit > 1 else []
            chunks, prev = [], 0
            for cpos in cuts + [len(lines)]:
                chunks.append(("\n".join(lines[prev:cpos]) + rng.choice(["\n", " ", "\r\n"])).encode("latin-1")); prev = cpos
            objs = {1: {"Type": Name("Catalog"), "Pages": Ref(2)}, 2: {"Type": Name("Pages"), "Kids": [Ref(3)], "Count": 1},
                    5: simple_font([widths["F1"][c] for c in range(32, 127)], 32, base="CustomA"),
                    6: simple_font([widths["F2"][c] for c in range(32, 127)], 32, base="CustomB")}
            cref = []
            for i, ch in enumerate(chunks):
                objs[10 + i] = Stream({}, ch); cref.append(Ref(10 + i))
            objs[3] = {"Type": Name("Page"), "Parent": Ref(2), "MediaBox": [0, 0, 612, 792], "Contents": cref if len(cref) > 1 else cref[0],
                       "Resources": {"Font": {"F1": Ref(5), "F2": Ref(6)}}}
            data = build(objs, 1)
            rm = interp.PDFResourceManager()
            dev = conv.PDFPageAggregator(rm, laparams=None)
            it = interp.PDFPageInterpreter(rm, dev)
            doc = PDFDocument(PDFParser(io.BytesIO(data)))
            got = []
            try:
                for page in PDFPage.create_pages(doc):
                    it.process_page(page)
                    got = [o for o in dev.get_result() if isinstance(o, layout.LTChar)]
            except Exception as e:  # noqa: BLE001
                failures.append(dict(program=lines, split=nsplit, error="%s: %s" % (type(e).__name__, e)))
                continue
            evals += 1
            distinct.add(tuple(op for op, _a in prog))
            ok = len(got) == len(want)
            if ok:
                for g, (code, fname, tfs, trm, adv) in zip(got, want):
                    gm = tuple(F(x).limit_denominator(1 << 20) for x in g.matrix)
                    wm = tuple(F(x) for x in trm)
                    if not (g.get_text() == chr(code) and all(abs(a - b) < F(1, 1000) for a, b in zip(gm, wm))
                            and abs(F(g.adv).limit_denominator(1 << 20) - adv) < F(1, 1000) and abs(F(g.size) - 0) >= 0
                            and g.fontname == ("CustomA" if fname == "F1" else "CustomB")):
                        ok = False
                        break
            if not ok:
                failures.append(dict(program=lines, split=nsplit, got=[(g.get_text(), [round(x, 3) for x in g.matrix], round(g.adv, 3)) for g in got][:8],
                                     want=[(chr(w[0]), [float(x) for x in w[3]], float(w[4])) for w in want][:8]))
        if len(failures) >= 3:
            break
    return dict(evaluations=evals, distinct=len(distinct), failures=failures)


from pyvc.contracts import stub


# -- Tj, ' and " with their operands (ISO Table 109: `string '` = T* then `string Tj`; `aw ac string "` = `aw Tw`, `ac Tc`, then `string '`) -----------------
_sTw = stub("pdfminer.pdfinterp:PDFPageInterpreter.do_Tw", ["self", "space"])
_sTc = stub("pdfminer.pdfinterp:PDFPageInterpreter.do_Tc", ["self", "space"])
_sTa = stub("pdfminer.pdfinterp:PDFPageInterpreter.do_T_a", ["self"])
_sTJ = stub("pdfminer.pdfinterp:PDFPageInterpreter.do_TJ", ["self", "seq"])
_sq = stub("pdfminer.pdfinterp:PDFPageInterpreter.do__q", ["self", "s"])
_SHOW_STUBS = {"pdfminer.pdfinterp:PDFPageInterpreter.do_Tw": _sTw, "pdfminer.pdfinterp:PDFPageInterpreter.do_Tc": _sTc,
               "pdfminer.pdfinterp:PDFPageInterpreter.do_T_a": _sTa, "pdfminer.pdfinterp:PDFPageInterpreter.do_TJ": _sTJ}


def _show_trace(trace):
    """the call trace with `'` expanded into T*, TJ"""
    out = []
    for nm, b in trace:
        nm = nm.split(".")[-1]
        if nm == "do__q":
            out += [("do_T_a", {}), ("do_TJ", {"seq": [b["s"]]})]
        else:
            out.append((nm, b))
    return out


c = contract("pdfminer.pdfinterp:PDFPageInterpreter.do_Tj", props=["C05"])
c.param("self", T.Obj("pdfminer.pdfinterp:PDFPageInterpreter")).param("s", T.Const(b"text"))
c.skip_cross = True
c.inline = True
c.stubs = _SHOW_STUBS
c.ens("is-TJ-of-the-one-string", lambda s, trace: (lambda t: len(t) == 1 and t[0][0] == "do_TJ" and isinstance(t[0][1]["seq"], list) and len(t[0][1]["seq"]) == 1
                                                   and t[0][1]["seq"][0] is s)(_show_trace(trace)))

c = contract("pdfminer.pdfinterp:PDFPageInterpreter.do__q", props=["C05"])
c.param("self", T.Obj("pdfminer.pdfinterp:PDFPageInterpreter")).param("s", T.Const(b"text"))
c.skip_cross = True
c.inline = True
c.stubs = _SHOW_STUBS
c.ens("next-line-then-show-the-string", lambda s, trace: (lambda t: [x[0] for x in t] == ["do_T_a", "do_TJ"] and len(t[1][1]["seq"]) == 1 and t[1][1]["seq"][0] is s)(_show_trace(trace)))

c = contract("pdfminer.pdfinterp:PDFPageInterpreter.do__w", props=["C05"])
c.param("self", T.Obj("pdfminer.pdfinterp:PDFPageInterpreter")).param("aw", T.Real()).param("ac", T.Real()).param("s", T.Const(b"text"))
c.skip_cross = True
c.inline = True
c.stubs = dict(_SHOW_STUBS, **{"pdfminer.pdfinterp:PDFPageInterpreter.do__q": _sq})
def _dq_spec(aw, ac, s, trace):
    t = _show_trace(trace)
    if not (len(t) == 4 and sorted(x[0] for x in t[:2]) == ["do_Tc", "do_Tw"] and [x[0] for x in t[2:]] == ["do_T_a", "do_TJ"]
            and len(t[3][1]["seq"]) == 1 and t[3][1]["seq"][0] is s):
        return False
    return And(*[eq(x[1]["space"], aw if x[0] == "do_Tw" else ac) for x in t[:2]])


c.ens("word-spacing-aw-character-spacing-ac-then-next-line-and-show", _dq_spec)


# -- initial text state (ISO 32000-1 Table 104) and BT's reset; the module-level identity matrix ---------------------------------------------------------------
@exhaustive("initial-text-state-is-ISO-table-104", props=["C05", "C12"],
            note="a new PDFTextState has Tc 0, Tw 0, Th 100, TL 0, Trise 0, Tmode 0, no font, and identity text and line matrices; reset() (BT) restores the two "
                 "matrices and nothing else; utils.MATRIX_IDENTITY is (1, 0, 0, 1, 0, 0); a new interpreter state after init_state has these values too")
def _():
    from pyvc.extract import real_module
    pin_ = real_module("pdfminer.pdfinterp")
    ut_ = real_module("pdfminer.utils")
    fails, cases = [], 0
    want = dict(font=None, fontsize=0, charspace=0, wordspace=0, scaling=100, leading=0, render=0, rise=0, matrix=(1, 0, 0, 1, 0, 0), linematrix=(0, 0))
    ts = pin_.PDFTextState()
    cases += 1
    got = {k: getattr(ts, k, "<missing>") for k in want}
    if got != want or set(vars(ts)) != set(want):
        fails.append(dict(fresh=str(got), attributes=sorted(vars(ts))))
    cases += 1
    if tuple(ut_.MATRIX_IDENTITY) != (1, 0, 0, 1, 0, 0):
        fails.append(dict(MATRIX_IDENTITY=str(ut_.MATRIX_IDENTITY)))
    marks = dict(font="F", fontsize=7, charspace=1.5, wordspace=2.5, scaling=50, leading=3, render=2, rise=4)
    for k, v in marks.items():
        setattr(ts, k, v)
    ts.matrix, ts.linematrix = (2, 0, 0, 2, 5, 6), (3, 4)
    ts.reset()
    cases += 1
    got = {k: getattr(ts, k) for k in want}
    if got != dict(marks, matrix=(1, 0, 0, 1, 0, 0), linematrix=(0, 0)):
        fails.append(dict(after_reset=str(got)))
    cases += 1
    it = pin_.PDFPageInterpreter(pin_.PDFResourceManager(), real_module("pdfminer.pdfdevice").PDFDevice(pin_.PDFResourceManager()))
    it.init_resources({})               # init_state reads the colour-space map that init_resources builds (render_contents calls them in this order)
    it.init_state((2, 0, 0, 3, 4, 5))
    got = {k: getattr(it.textstate, k) for k in want}
    if got != want or tuple(it.ctm) != (2, 0, 0, 3, 4, 5) or it.gstack != [] or it.argstack != []:
        fails.append(dict(after_init_state=str(got), ctm=str(it.ctm)))
    return dict(cases=cases, failures=fails)


# -- the operand stack and the small plumbing around it (execute() takes an operator's operands with pop(n): the last n pushed, oldest first) -----------------
c = contract("pdfminer.pdfinterp:PDFPageInterpreter.pop", props=["C05", "C16"])
c.param("self", T.Obj("pdfminer.pdfinterp:PDFPageInterpreter", argstack=T.Tup(T.Const("o1"), T.Const("o2"), T.Const("o3"), T.Const("o4"), as_list=True))).param("n", T.OneOf(0, 1, 2, 4, 6))
c.skip_cross = True
c.inline = True
c.mod("self.argstack")
c.returns(T.Opaque("operands"))
c.ens("the-last-n-operands-oldest-first-removed-from-the-stack", lambda self, n, result: (
    list(result) == ["o1", "o2", "o3", "o4"][4 - min(n, 4):] if n else list(result) == []) and list(self.argstack) == ["o1", "o2", "o3", "o4"][:4 - min(n, 4)])

c = contract("pdfminer.pdfinterp:PDFPageInterpreter.push", props=["C05", "C16"])
c.param("self", T.Obj("pdfminer.pdfinterp:PDFPageInterpreter", argstack=T.Tup(T.Const("o1"), as_list=True))).param("obj", T.Const("o2"))
c.skip_cross = True
c.inline = True
c.mod("self.argstack")
c.ens("appended-on-top", lambda self: list(self.argstack) == ["o1", "o2"])

c = contract("pdfminer.pdfinterp:PDFResourceManager.__init__", props=["C12", "C05"])
c.param("self", T.Obj("pdfminer.pdfinterp:PDFResourceManager")).param("caching", T.Bool())
c.skip_cross = True
c.inline = True
c.mod("self.*")
c.ens("caching-flag-stored-font-cache-empty-and-its-own", lambda self, caching: And(Iff(self.caching, caching), self._cached_fonts == {}))
