"""C20 - matrix helpers obey affine algebra (utils.mult_matrix .. apply_matrix_rect)."""
from pyvc.contracts import contract, lemma
from pyvc.logic import And, Or, eq, le, lt, Implies, Min, Max
from pyvc import sorts as T
from specs import affine

M6 = lambda: T.RealTup(6)
P2 = lambda: T.RealTup(2)
R4 = lambda: T.RealTup(4)

c = contract("pdfminer.utils:mult_matrix", props=["C20", "C05", "C04"])
c.param("m1", M6()).param("m0", M6()).returns(M6())
c.ens_result("is-composition", lambda m1, m0: affine.compose(m1, m0))

c = contract("pdfminer.utils:translate_matrix", props=["C20", "C05"])
c.param("m", M6()).param("v", P2()).returns(M6())
c.ens_result("translation-inside-projection", lambda m, v: affine.compose(affine.translation(v), m))

c = contract("pdfminer.utils:apply_matrix_pt", props=["C20", "C05", "C16"])
c.param("m", M6()).param("v", P2()).returns(P2())
c.ens_result("is-image", lambda m, v: affine.apply_pt(m, v))

c = contract("pdfminer.utils:apply_matrix_norm", props=["C20", "C05"])
c.param("m", M6()).param("v", P2()).returns(P2())
c.ens_result("is-linear-part", lambda m, v: affine.apply_norm(m, v))

c = contract("pdfminer.utils:apply_matrix_rect", props=["C20", "C04", "C05"])
c.param("m", M6()).param("rect", R4()).returns(R4())
c.ens_result("tight-hull-of-corners", lambda m, rect: affine.hull4(m, rect))


@lemma("mult-associative", props=["C20"])
def _(lc):
    a, b, c3 = lc.fresh(M6(), "A"), lc.fresh(M6(), "B"), lc.fresh(M6(), "C")
    ab = lc.call("pdfminer.utils:mult_matrix", a, b)
    bc = lc.call("pdfminer.utils:mult_matrix", b, c3)
    l = lc.call("pdfminer.utils:mult_matrix", ab, c3)
    r = lc.call("pdfminer.utils:mult_matrix", a, bc)
    lc.prove("assoc", eq(l, r))


@lemma("identity-is-unit", props=["C20"])
def _(lc):
    from pyvc.extract import real_module
    ident = real_module("pdfminer.utils").MATRIX_IDENTITY
    a = lc.fresh(M6(), "A")
    lc.prove("left", eq(lc.call("pdfminer.utils:mult_matrix", ident, a), a))
    lc.prove("right", eq(lc.call("pdfminer.utils:mult_matrix", a, ident), a))


@lemma("apply-composed-equals-apply-factors", props=["C20"])
def _(lc):
    m1, m0, p = lc.fresh(M6(), "M1"), lc.fresh(M6(), "M0"), lc.fresh(P2(), "p")
    m = lc.call("pdfminer.utils:mult_matrix", m1, m0)
    lhs = lc.call("pdfminer.utils:apply_matrix_pt", m, p)
    q = lc.call("pdfminer.utils:apply_matrix_pt", m1, p)
    rhs = lc.call("pdfminer.utils:apply_matrix_pt", m0, q)
    lc.prove("compose", eq(lhs, rhs))


@lemma("translate-composes-as-documented", props=["C20"])
def _(lc):
    m, v, p = lc.fresh(M6(), "M"), lc.fresh(P2(), "v"), lc.fresh(P2(), "p")
    t = lc.call("pdfminer.utils:translate_matrix", m, v)
    lhs = lc.call("pdfminer.utils:apply_matrix_pt", t, p)
    rhs = lc.call("pdfminer.utils:apply_matrix_pt", m, (p[0] + v[0], p[1] + v[1]))
    lc.prove("origin-moved-in-own-coordinates", eq(lhs, rhs))
    # and it is mult_matrix with a pure translation on the left
    tm = lc.call("pdfminer.utils:mult_matrix", (1, 0, 0, 1, v[0], v[1]), m)
    lc.prove("equals-mult-by-translation", eq(t, tm))


@lemma("norm-is-difference-of-points", props=["C20"])
def _(lc):
    m, v = lc.fresh(M6(), "M"), lc.fresh(P2(), "v")
    n = lc.call("pdfminer.utils:apply_matrix_norm", m, v)
    a = lc.call("pdfminer.utils:apply_matrix_pt", m, v)
    o = lc.call("pdfminer.utils:apply_matrix_pt", m, (0, 0))
    lc.prove("difference", eq(n, (a[0] - o[0], a[1] - o[1])))


@lemma("rect-hull-contains-image-of-every-point", props=["C20"])
def _(lc):
    m, r, p = lc.fresh(M6(), "M"), lc.fresh(R4(), "r"), lc.fresh(P2(), "p")
    lc.assume(And(le(r[0], r[2]), le(r[1], r[3])))
    lc.assume(And(le(r[0], p[0]), le(p[0], r[2]), le(r[1], p[1]), le(p[1], r[3])))
    h = lc.call("pdfminer.utils:apply_matrix_rect", m, r)
    q = lc.call("pdfminer.utils:apply_matrix_pt", m, p)
    a, b, c_, d = m[0], m[1], m[2], m[3]
    # hints: a product with a value from an interval lies between the products with the end points
    for nm, k, lo, hi, t in (("a*px", a, r[0], r[2], p[0]), ("c*py", c_, r[1], r[3], p[1]),
                             ("b*px", b, r[0], r[2], p[0]), ("d*py", d, r[1], r[3], p[1])):
        lc.prove("hint-%s-lower" % nm, le(Min(k * lo, k * hi), k * t), keep=True)
        lc.prove("hint-%s-upper" % nm, le(k * t, Max(k * lo, k * hi)), keep=True)
    lc.prove("inside-x-lo", le(h[0], q[0]))
    lc.prove("inside-x-hi", le(q[0], h[2]))
    lc.prove("inside-y-lo", le(h[1], q[1]))
    lc.prove("inside-y-hi", le(q[1], h[3]))
    cs = [lc.call("pdfminer.utils:apply_matrix_pt", m, cpt) for cpt in affine.corners(r)]
    lc.prove("x0-attained", Or(*[eq(h[0], cp[0]) for cp in cs]))
    lc.prove("x1-attained", Or(*[eq(h[2], cp[0]) for cp in cs]))
    lc.prove("y0-attained", Or(*[eq(h[1], cp[1]) for cp in cs]))
    lc.prove("y1-attained", Or(*[eq(h[3], cp[1]) for cp in cs]))
