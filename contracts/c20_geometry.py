"""C20 - matrix helpers obey affine algebra (utils.mult_matrix .. apply_matrix_rect)."""
from pyvc.contracts import contract, lemma
from pyvc.logic import And, Or, eq, le, lt, Implies, Min, Max
from pyvc import sorts as T
from specs import affine

M6 = lambda: T.RealTup(6)
P2 = lambda: T.RealTup(2)
R4 = lambda: T.RealTup(4)

c = contract("pdfminer.utils:mult_matrix", props=["C20", "C05", "C04"])
c.param("m1", M6()).param("m0", M6()).returns(M6())
c.ens_result("is-composition", lambda m1, m0: affine.compose(m1, m0))

c = contract("pdfminer.utils:translate_matrix", props=["C20", "C05"])
c.param("m", M6()).param("v", P2()).returns(M6())
c.ens_result("translation-inside-projection", lambda m, v: affine.compose(affine.translation(v), m))

c = contract("pdfminer.utils:apply_matrix_pt", props=["C20", "C05", "C16"])
c.param("m", M6()).param("v", P2()).returns(P2())
c.ens_result("is-image", lambda m, v: affine.apply_pt(m, v))

c = contract("pdfminer.utils:apply_matrix_norm", props=["C20", "C05"])
c.param("m", M6()).param("v", P2()).returns(P2())
c.ens_result("is-linear-part", lambda m, v: affine.apply_norm(m, v))

c = contract("pdfminer.utils:apply_matrix_rect", props=["C20", "C04", "C05"])
c.param("m", M6()).param("rect", R4()).returns(R4())
c.ens_result("tight-hull-of-corners", lambda m, rect: affine.hull4(m, rect))


@lemma("mult-associative", props=["C20"])
def _(lc):
    a, b, c3 = lc.fresh(M6(), "A"), lc.fresh(M6(), "B"), lc.fresh(M6(), "C")
    ab = lc.call("pdfminer.utils:mult_matrix", a, b)
    bc = lc.call("pdfminer.utils:mult_matrix", b, c3)
    l = lc.call("pdfminer.utils:mult_matrix", ab, c3)
    r = lc.call("pdfminer.utils:mult_matrix", a, bc)
    lc.prove("assoc", eq(l, r))


@lemma("identity-is-unit", props=["C20"])
def _(lc):
    from pyvc.extract import real_module
    ident = real_module("pdfminer.utils").MATRIX_IDENTITY
    a = lc.fresh(M6(), "A")
    lc.prove("left", eq(lc.call("pdfminer.utils:mult_matrix", ident, a), a))
    lc.prove("right", eq(lc.call("pdfminer.utils:mult_matrix", a, ident), a))


@lemma("apply-composed-equals-apply-factors", props=["C20"])
def _(lc):
    m1, m0, p = lc.fresh(M6(), "M1"), lc.fresh(M6(), "M0"), lc.fresh(P2(), "p")
    m = lc.call("pdfminer.utils:mult_matrix", m1, m0)
    lhs = lc.call("pdfminer.utils:apply_matrix_pt", m, p)
    q = lc.call("pdfminer.utils:apply_matrix_pt", m1, p)
    rhs = lc.call("pdfminer.utils:apply_matrix_pt", m0, q)
    lc.prove("compose", eq(lhs, rhs))


@lemma("translate-composes-as-documented", props=["C20"])
def _(lc):
    m, v, p = lc.fresh(M6(), "M"), lc.fresh(P2(), "v"), lc.fresh(P2(), "p")
    t = lc.call("pdfminer.utils:translate_matrix", m, v)
    lhs = lc.call("pdfminer.utils:apply_matrix_pt", t, p)
    rhs = lc.call("pdfminer.utils:apply_matrix_pt", m, (p[0] + v[0], p[1] + v[1]))
    lc.prove("origin-moved-in-own-coordinates", eq(lhs, rhs))
    # and it is mult_matrix with a pure translation on the left
    tm = lc.call("pdfminer.utils:mult_matrix", (1, 0, 0, 1, v[0], v[1]), m)
    lc.prove("equals-mult-by-translation", eq(t, tm))


@lemma("norm-is-difference-of-points", props=["C20"])
def _(lc):
    m, v = lc.fresh(M6(), "M"), lc.fresh(P2(), "v")
    n = lc.call("pdfminer.utils:apply_matrix_norm", m, v)
    a = lc.call("pdfminer.utils:apply_matrix_pt", m, v)
    o = lc.call("pdfminer.utils:apply_matrix_pt", m, (0, 0))
    lc.prove("difference", eq(n, (a[0] - o[0], a[1] - o[1])))


@lemma("rect-hull-contains-image-of-every-point", props=["C20"])
def _(lc):
    m, r, p = lc.fresh(M6(), "M"), lc.fresh(R4(), "r"), lc.fresh(P2(), "p")
    lc.assume(And(le(r[0], r[2]), le(r[1], r[3])))
    lc.assume(And(le(r[0], p[0]), le(p[0], r[2]), le(r[1], p[1]), le(p[1], r[3])))
    h = lc.call("pdfminer.utils:apply_matrix_rect", m, r)
    q = lc.call("pdfminer.utils:apply_matrix_pt", m, p)
    a, b, c_, d = m[0], m[1], m[2], m[3]
    # hints: a product with a value from an interval lies between the products with the end points
    for nm, k, lo, hi, t in (("a*px", a, r[0], r[2], p[0]), ("c*py", c_, r[1], r[3], p[1]),
                             ("b*px", b, r[0], r[2], p[0]), ("d*py", d, r[1], r[3], p[1])):
        lc.prove("hint-%s-lower" % nm, le(Min(k * lo, k * hi), k * t), keep=True)
        lc.prove("hint-%s-upper" % nm, le(k * t, Max(k * lo, k * hi)), keep=True)
    lc.prove("inside-x-lo", le(h[0], q[0]))
    lc.prove("inside-x-hi", le(q[0], h[2]))
    lc.prove("inside-y-lo", le(h[1], q[1]))
    lc.prove("inside-y-hi", le(q[1], h[3]))
    cs = [lc.call("pdfminer.utils:apply_matrix_pt", m, cpt) for cpt in affine.corners(r)]
    lc.prove("x0-attained", Or(*[eq(h[0], cp[0]) for cp in cs]))
    lc.prove("x1-attained", Or(*[eq(h[2], cp[0]) for cp in cs]))
    lc.prove("y0-attained", Or(*[eq(h[1], cp[1]) for cp in cs]))
    lc.prove("y1-attained", Or(*[eq(h[3], cp[1]) for cp in cs]))


# ---------------------------------------------------------------------------
# Plane: grid range computation, overlap filter, Lemma G.  (add/remove/find as
# whole-history statements: bounded stand-in below, see DESIGN.md.)
import ast
from pyvc.contracts import fragment, bounded, exhaustive
from pyvc.logic import Iff, Not, any_z3
from specs import plane as PS

PlaneS = lambda: T.Obj("pdfminer.utils:Plane", x0=T.Real(), y0=T.Real(), x1=T.Real(), y1=T.Real(),
                       gridsize=T.Int(lo=1, hi=1000, samples=[1, 2, 50]))


def ymember(result, w):
    """membership of w in the yielded sequence (symbolic comprehension or concrete list)"""
    from pyvc.symexec import SYieldComp
    rs = []
    for item in result:
        if isinstance(item, SYieldComp):
            rs.append(item.member(w))
        else:
            rs.append(eq(item, w))
    return Or(*rs)


c = contract("pdfminer.utils:drange", props=["C20", "C09"], inline=True)
c.param("v0", T.Real()).param("v1", T.Real()).param("d", T.Int(lo=1, hi=1000, samples=[1, 2, 50]))
c.ghost("t", T.Int(lo=-200, hi=200))
c.ens("range-is-floor-cells", lambda v0, v1, d, t, result:
      Iff(_in_range(result, t), And(le(PS.lo(v0, d), t), lt(t, PS.hi(v1, d)))))


def _in_range(r, t):
    if isinstance(r, range):
        return t in r
    return r.contains(t)


c = contract("pdfminer.utils:Plane._getrange", props=["C20", "C09"])
c.param("self", PlaneS()).param("bbox", R4())
c.ghost("cx", T.Int(lo=-200, hi=200)).ghost("cy", T.Int(lo=-200, hi=200))
c.ens("yields-exactly-the-cells-of-the-clipped-box", lambda self, bbox, cx, cy, result:
      Iff(ymember(result, (cx, cy)), PS.in_cells((self.x0, self.y0, self.x1, self.y1), self.gridsize, bbox, cx, cy)))


def _find_filter(fn):
    """the `if <box test>: continue` that directly precedes `yield obj` in Plane.find"""
    for n in ast.walk(fn):
        if isinstance(n, ast.For):
            body = n.body
            for i, st in enumerate(body[:-1]):
                nxt = body[i + 1]
                if (isinstance(st, ast.If) and len(st.body) == 1 and isinstance(st.body[0], ast.Continue) and not st.orelse
                        and isinstance(nxt, ast.Expr) and isinstance(nxt.value, ast.Yield)):
                    return st.test
    return None


BoxObj = lambda: T.Obj(None, x0=T.Real(), y0=T.Real(), x1=T.Real(), y1=T.Real())
c = fragment("pdfminer.utils:Plane.find", "overlap-filter", _find_filter, props=["C20", "C09"])
c.param("obj", BoxObj()).param("x0", T.Real()).param("y0", T.Real()).param("x1", T.Real()).param("y1", T.Real())
c.ens("skips-exactly-the-non-overlapping", lambda obj, x0, y0, x1, y1, result:
      Iff(result, Not(PS.proper_overlap((obj.x0, obj.y0, obj.x1, obj.y1), (x0, y0, x1, y1)))))


def _add_range_arg(fn):
    """the bbox expression handed to self._getrange(...) in add/remove"""
    for n in ast.walk(fn):
        if isinstance(n, ast.Call) and isinstance(n.func, ast.Attribute) and n.func.attr == "_getrange":
            return n.args[0]
    return None


for _m in ("add", "remove"):
    c = fragment("pdfminer.utils:Plane.%s" % _m, "cells-of-own-box", _add_range_arg, props=["C20", "C09"])
    c.param("obj", BoxObj()).param("self", T.Opaque("plane"))
    c.ens("range-is-computed-from-the-object-box", lambda obj, result: eq(result, (obj.x0, obj.y0, obj.x1, obj.y1)))


@lemma("grid-lemma-G", props=["C20", "C09"],
       note="properly overlapping boxes whose common region meets the index bounds share a grid cell")
def _(lc):
    B, o, q = lc.fresh(R4(), "B"), lc.fresh(R4(), "o"), lc.fresh(R4(), "q")
    g = lc.fresh(T.Int(lo=1), "g")
    lc.assume(And(lt(B[0], B[2]), lt(B[1], B[3])))
    lc.assume(And(le(o[0], o[2]), le(o[1], o[3]), le(q[0], q[2]), le(q[1], q[3])))
    lc.assume(PS.proper_overlap(o, q))
    common = (Max(o[0], q[0]), Max(o[1], q[1]), Min(o[2], q[2]), Min(o[3], q[3]))
    lc.assume(PS.proper_overlap(common, B))
    import z3
    # witness cell: the cell of the lower-left corner of the common region clipped to the bounds
    wx = PS.lo(Max(common[0], B[0]), g)
    wy = PS.lo(Max(common[1], B[1]), g)
    lc.prove("witness-cell-in-object", PS.in_cells(B, g, o, wx, wy))
    lc.prove("witness-cell-in-query", PS.in_cells(B, g, q, wx, wy))


@lemma("grid-lemma-G-outside-bounds", props=["C20"],
       note="the same statement without the in-bounds hypothesis: recorded finding F17 (clipping)")
def _(lc):
    B, o, q = lc.fresh(R4(), "B"), lc.fresh(R4(), "o"), lc.fresh(R4(), "q")
    g = lc.fresh(T.Int(lo=1), "g")
    lc.assume(And(lt(B[0], B[2]), lt(B[1], B[3])))
    lc.assume(And(le(o[0], o[2]), le(o[1], o[3]), le(q[0], q[2]), le(q[1], q[3])))
    lc.assume(PS.proper_overlap(o, q))
    common = (Max(o[0], q[0]), Max(o[1], q[1]), Min(o[2], q[2]), Min(o[3], q[3]))
    wx = PS.lo(Max(common[0], B[0]), g)
    wy = PS.lo(Max(common[1], B[1]), g)
    lc.prove_known("shared-cell-for-every-overlapping-pair",
                   And(PS.in_cells(B, g, o, wx, wy), PS.in_cells(B, g, q, wx, wy)),
                   finding_id="F17", outside="grid-lemma-G")


@bounded("plane-histories-vs-brute-force", props=["C20"],
         bound="add/remove/find/iterate histories of <= 4 operations over 3 boxes (a quarter: <= 10 operations over 6 boxes, most members removed again) from a 5-value dyadic grid (quick: seeded sample of 4000 histories; thorough: 60000), index bounds (0,0,8,8), gridsize in {1,3,50}")
def _(tier, seed):
    import random, itertools
    from pyvc.extract import real_module
    Plane = real_module("pdfminer.utils").Plane
    vals = [-1.5, 0, 2.5, 4, 9]
    rng = random.Random(seed)

    class Box:
        def __init__(self, b, i):
            (self.x0, self.y0, self.x1, self.y1), self.i = b, i
        def __repr__(self):
            return "Box%d" % self.i

    def inb(b, B=(0, 0, 8, 8)):
        return b[0] < B[2] and B[0] < b[2] and b[1] < B[3] and B[1] < b[3]

    n = 4000 if tier == "quick" else 60000
    evals = 0
    failures = []
    distinct = set()
    for _ in range(n):
        g = rng.choice([1, 3, 50])
        boxes = []
        long_history = rng.random() < 0.25          # a quarter of the histories: 6 boxes and up to 10 operations (most members removed again)
        for i in range(6 if long_history else 3):
            x0, x1 = sorted(rng.sample(vals, 2)); y0, y1 = sorted(rng.sample(vals, 2))
            boxes.append(Box((x0, y0, x1, y1), i))
        p = Plane((0, 0, 8, 8), gridsize=g)
        live, seq, hist = [], [], []
        for _step in range(10 if long_history else 4):
            op = rng.choice(["add", "add", "remove", "find", "iter"]) if not long_history else (rng.choice(["add", "add", "add"]) if _step < 5 else rng.choice(["remove", "remove", "iter", "find"]))
            if op == "add":
                cand = [b for b in boxes if b not in live and b not in seq]
                if not cand:
                    continue
                b = rng.choice(cand)
                how = rng.choice(["add", "add", "extend-list", "extend-generator"])
                if how == "add":
                    p.add(b)
                elif how == "extend-list":
                    p.extend([b])
                else:
                    p.extend(x for x in [b])          # an iterable that can be walked only once
                live.append(b); seq.append(b); hist.append((how, b.i))
            elif op == "remove":
                if not live:
                    continue
                b = rng.choice(live); p.remove(b); live.remove(b); hist.append(("remove", b.i))
            elif op == "find":
                x0, x1 = sorted(rng.sample(vals, 2)); y0, y1 = sorted(rng.sample(vals, 2))
                q = (x0, y0, x1, y1)
                got = list(p.find(q))
                hist.append(("find", q))
                def bb(b): return (b.x0, b.y0, b.x1, b.y1)
                want = [b for b in live if bb(b)[0] < q[2] and q[0] < bb(b)[2] and bb(b)[1] < q[3] and q[1] < bb(b)[3]]
                # in-bounds part of the theorem: common region must meet the index bounds
                def common_in(b):
                    c = (max(bb(b)[0], q[0]), max(bb(b)[1], q[1]), min(bb(b)[2], q[2]), min(bb(b)[3], q[3]))
                    return inb(c)
                evals += 1
                distinct.add((g, tuple(hist[-3:]).__repr__()))
                ok = len(got) == len(set(map(id, got))) and all(b in want for b in got) and all((b in got) for b in want if common_in(b))
                if not ok:
                    failures.append(dict(gridsize=g, boxes=[bb(b) for b in boxes], history=hist, got=[b.i for b in got], want=[b.i for b in want]))
            else:
                got = list(p)
                evals += 1
                hist.append(("iter",))
                if got != [b for b in seq if b in live]:
                    failures.append(dict(gridsize=g, boxes=[(b.x0, b.y0, b.x1, b.y1) for b in boxes], history=hist, got=[b.i for b in got]))
        if len(failures) >= 3:
            break
    return dict(evaluations=evals, distinct=len(distinct), failures=failures)


from pyvc.contracts import stub, scenario
from pyvc.values import SObj


# -- Plane.extend: any iterable - also one that can be walked only once - and every object goes through add(), once, in order ------------------------------------
class _OnceIterable:
    """an iterable that yields its items on the first walk only (a generator, map, zip ...)"""
    def __init__(self, items):
        self.items, self.walks = items, 0
    def __sym_iter__(self, I):
        from pyvc.values import SIter
        self.walks += 1
        items = self.items if self.walks == 1 else []
        return SIter(len(items), lambda k: items[k], "one-shot")


class _ObjsArg(T.Sort):
    def fresh(self, ctx, name):
        kind = ctx.choose(["list", "tuple", "one-shot-iterator", "empty"], "iterable-kind")
        items = [] if kind == "empty" else ["obj-a", "obj-b", "obj-a2"]
        v = {"list": list(items), "tuple": tuple(items), "one-shot-iterator": _OnceIterable(list(items)), "empty": []}[kind]
        return SObj(None, {"v": v, "_kind": kind, "_items": items}, name)
    def sample(self, rng):
        return None
    def from_model(self, ev, v):
        return v.f["_kind"]


_padd = stub("pdfminer.utils:Plane.add", ["self", "obj"])
sc = scenario("pdfminer.utils", "plane-extend-adds-each-object-once-in-order", """
def extend_with(plane, arg):
    plane.extend(arg.v)
""", props=["C20", "C08"])
sc.param("plane", T.Obj("pdfminer.utils:Plane")).param("arg", _ObjsArg())
sc.skip_cross = True
_pgr = stub("pdfminer.utils:Plane._getrange", ["self", "bbox"]); _pgr.result_fn = ("cells", lambda bbox: [(0, 0)])
sc.wire = lambda bound, ghosts: bound["plane"].f.update(_seq=[], _objs=set(), _grid={}, gridsize=50, x0=0, y0=0, x1=100, y1=100)
sc.stubs = {"pdfminer.utils:Plane.add": _padd, "pdfminer.utils:Plane._getrange": _pgr}
sc.mod("plane.*")
sc.ens("every-object-through-add-once-in-iteration-order", lambda arg, trace: (
    all(t[0].endswith("Plane.add") for t in trace) and [t[1].get("obj") for t in trace] == arg._items))
