"""C09 - grouping follows the documented margins; every decision is invariant under scaling the page.
Documented semantics (docs/source/topic/converting_pdf_to_text.rst, LAParams docstring): the vertical *overlap* of two boxes is
the length their vertical extents have in common, the horizontal *distance* the gap between their horizontal extents."""
import ast
import z3
from pyvc.contracts import contract, fragment, lemma, bounded, exhaustive, scenario, stub, REGISTRY
from pyvc.logic import And, Or, Not, Implies, Iff, eq, le, lt, If, ne, Min, Max, ForAllInt
from pyvc import sorts as T
from pyvc.values import SObj
from pyvc.extract import real_module
from contracts.c08_layout import Comp, box_of, union, has_box, lp_dict

lay = real_module("pdfminer.layout")


def common(a0, a1, b0, b1):
    """length two closed intervals have in common (0 when disjoint)"""
    return Max(0, Min(a1, b1) - Max(a0, b0))


def gap(a0, a1, b0, b1):
    """distance between two closed intervals (0 when they meet)"""
    return Max(0, Max(a0, b0) - Min(a1, b1))


def meet(a0, a1, b0, b1):
    return And(le(b0, a1), le(a0, b1))


for _n, _spec in (
        ("is_hoverlap", lambda s, o: meet(s.x0, s.x1, o.x0, o.x1)), ("is_voverlap", lambda s, o: meet(s.y0, s.y1, o.y0, o.y1)),
        ("hdistance", lambda s, o: gap(s.x0, s.x1, o.x0, o.x1)), ("vdistance", lambda s, o: gap(s.y0, s.y1, o.y0, o.y1)),
        ("hoverlap", lambda s, o: common(s.x0, s.x1, o.x0, o.x1)), ("voverlap", lambda s, o: common(s.y0, s.y1, o.y0, o.y1))):
    c = contract("pdfminer.layout:LTComponent." + _n, props=["C09"])
    c.param("self", Comp()).param("obj", Comp())
    c.skip_cross = True
    c.inline = True
    c.returns(T.Real() if not _n.startswith("is_") else T.Bool())
    if _n.startswith("is_"):
        c.ens("extents-meet", (lambda _s: lambda self, obj, result: Iff(result, _s(self, obj)))(_spec))
    else:
        c.ens("documented-length", (lambda _s: lambda self, obj, result: eq(result, _s(self, obj)))(_spec))


# -- neighbour relation of lines (find_neighbors docstrings): candidates come from the plane query around the line grown by
#    d = line_margin x (height | width); kept when of the same orientation, same size within d and left/right/centre (lower/upper/centre)
#    aligned within d ------------------------------------------------------------------------------------------------------------------------
def _neighbors(cls, other_cls):
    horiz = cls.endswith("Horizontal")
    c = contract("pdfminer.layout:%s.find_neighbors" % cls, props=["C09", "C08"])
    c.param("self", Comp("pdfminer.layout:" + cls)).param("plane", T.Obj("pdfminer.utils:Plane")).param("ratio", T.Real())
    c.ghost("cand", Comp("pdfminer.layout:" + cls)).ghost("alien", Comp("pdfminer.layout:" + other_cls)).ghost("me", T.OneOf(False, True))
    c.skip_cross = True
    st = stub("pdfminer.utils:Plane.find", ["self", "bbox"])
    st.result_fn = ("found", lambda self: list(self.f["_found"]))
    c.stubs = {"pdfminer.utils:Plane.find": st}

    def wire(bound, ghosts):
        # the query returns: a line of the same orientation, one of the other orientation, and (case me) the line itself
        bound["plane"].f["_found"] = [ghosts["cand"], ghosts["alien"]] + ([bound["self"]] if ghosts["me"] else [])
    c.wire = wire

    def rel(s, o, d):
        if horiz:
            return And(le(Abs(o.height - s.height), d),
                       Or(le(Abs(o.x0 - s.x0), d), le(Abs(o.x1 - s.x1), d), le(Abs((o.x0 + o.x1) / 2 - (s.x0 + s.x1) / 2), d)))
        return And(le(Abs(o.width - s.width), d),
                   Or(le(Abs(o.y0 - s.y0), d), le(Abs(o.y1 - s.y1), d), le(Abs((o.y0 + o.y1) / 2 - (s.y0 + s.y1) / 2), d)))

    def spec(self, ratio, cand, alien, me, result, trace):
        d = ratio * (self.height if horiz else self.width)
        q = (self.x0, self.y0 - d, self.x1, self.y1 + d) if horiz else (self.x0 - d, self.y0, self.x1 + d, self.y1)
        if not (len(trace) == 1 and isinstance(result, list)):
            return False
        names = [o.name for o in result]
        if "alien" in names or names != [n for n in ("cand", "self") if n in names]:
            return False
        return And(eq(trace[0][1]["bbox"], q), Iff("cand" in names, rel(self, cand, d)),
                   # a line with a non-negative margin is its own neighbour (used by group_textlines: see C08)
                   Implies(And(me, le(0, d)), "self" in names), Implies(Not(me), "self" not in names))
    c.ens("documented-neighbour-relation", spec)
    return c


from pyvc.logic import Abs
_neighbors("LTTextLineHorizontal", "LTTextLineVertical")
_neighbors("LTTextLineVertical", "LTTextLineHorizontal")


# -- scale invariance: every decision layout analysis takes is a homogeneous predicate of the coordinates, so multiplying the page
#    by any k > 0 (a fortiori 2^n, where floats scale exactly) leaves every decision and every order unchanged.  The predicates below are
#    the documented forms the contracts above (and in c08_layout, c20_geometry) tie to the real code for all inputs. -----------------------------
def scaled(o, k, name):
    f = {n: o.f[n] * k for n in ("x0", "y0", "x1", "y1", "width", "height")}
    f["bbox"] = (f["x0"], f["y0"], f["x1"], f["y1"])
    return SObj(o.cls, f, name)


def _lp(lc):
    lp = lc.fresh(T.Obj("pdfminer.layout:LAParams", line_overlap=T.Real(), char_margin=T.Real(), word_margin=T.Real(), line_margin=T.Real(),
                        boxes_flow=T.Real(-1, 1), detect_vertical=T.Bool()), "laparams")
    return lp


@lemma("scale-invariance-of-line-grouping", props=["C09"], note="halign/valign, the word-gap test and the emptiness test on k x coordinates")
def _(lc):
    from contracts.c08_layout import halign_doc, valign_doc
    a, b, lp = lc.fresh(Comp(), "a"), lc.fresh(Comp(), "b"), _lp(lc)
    k = lc.fresh(T.Real(), "k")
    lc.assume(lt(0, k))
    ka, kb = scaled(a, k, "ka"), scaled(b, k, "kb")
    # products of two unknowns: give the solver the factored forms
    lc.prove("halign", Iff(halign_doc(a, b, lp), halign_doc(ka, kb, lp)))
    lc.prove("valign", Iff(valign_doc(a, b, lp), valign_doc(ka, kb, lp)))
    x1 = lc.fresh(T.Real(), "prev_x1")
    hm = eq(Max(kb.width, kb.height), k * Max(b.width, b.height))
    lc.prove("glyph-size-scales", hm)
    x, y, m = lc.fresh(T.Real(), "x"), lc.fresh(T.Real(), "y"), lc.fresh(T.Real(), "m")
    step = Implies(lt(0, m), Iff(lt(x, y), lt(m * x, m * y)))
    lc.prove("order-of-scaled-reals", step)
    size = Max(b.width, b.height)
    hi = lc.instantiate(step, [(x, x1), (y, b.x0 - lp.word_margin * size), (m, k)])
    hk = lt(0, k)
    lc.prove("k-positive", hk)
    lc.derive("word-gap", Iff(lt(x1, b.x0 - lp.word_margin * size), lt(x1 * k, kb.x0 - lp.word_margin * Max(kb.width, kb.height))),
              [hm, hi, hk], [Max(kb.width, kb.height), size])
    lc.prove("empty-box", Iff(Or(le(a.width, 0), le(a.height, 0)), Or(le(ka.width, 0), le(ka.height, 0))))


@lemma("scale-invariance-of-box-grouping", props=["C09"], note="neighbour relation and its query box, proper overlap of the plane query, the pair distance order, every sort key")
def _(lc):
    a, b, c_, d_, lp = lc.fresh(Comp(), "a"), lc.fresh(Comp(), "b"), lc.fresh(Comp(), "c"), lc.fresh(Comp(), "d"), _lp(lc)
    k = lc.fresh(T.Real(), "k")
    lc.assume(lt(0, k))
    ka, kb, kc, kd = scaled(a, k, "ka"), scaled(b, k, "kb"), scaled(c_, k, "kc"), scaled(d_, k, "kd")

    def rel(s, o, r):
        d = r * s.height
        return And(le(Abs(o.height - s.height), d), Or(le(Abs(o.x0 - s.x0), d), le(Abs(o.x1 - s.x1), d), le(Abs((o.x0 + o.x1) / 2 - (s.x0 + s.x1) / 2), d)))
    lc.prove("neighbour-relation", Iff(rel(a, b, lp.line_margin), rel(ka, kb, lp.line_margin)))

    def overlap(p, q):         # Plane.find's filter (C20 fragment overlap-filter)
        return Not(Or(le(p.x1, q.x0), le(q.x1, p.x0), le(p.y1, q.y0), le(q.y1, p.y0)))
    lc.prove("plane-query-overlap", Iff(overlap(a, b), overlap(ka, kb)))

    def dist(p, q):
        return (Max(p.x1, q.x1) - Min(p.x0, q.x0)) * (Max(p.y1, q.y1) - Min(p.y0, q.y0)) - p.width * p.height - q.width * q.height
    # dist(kp, kq) = k^2 dist(p, q); with the four distances and k^2 abstracted the order of two candidate pairs is linear arithmetic
    kk = k * k

    def homogeneous(tag, p, q, kp, kq):
        hull = [(Max, "x1"), (Min, "x0"), (Max, "y1"), (Min, "y0")]
        hs = []
        for f, n in hull:
            h = eq(f(getattr(kp, n), getattr(kq, n)), k * f(getattr(p, n), getattr(q, n)))
            lc.prove("hull-scales:%s:%s" % (tag, n), h)
            hs.append(h)
        goal = eq(dist(kp, kq), kk * dist(p, q))
        lc.derive("pair-distance-is-homogeneous-of-degree-2:" + tag, goal, hs,
                  [t for f, n in hull for t in (f(getattr(kp, n), getattr(kq, n)), f(getattr(p, n), getattr(q, n)))])
        return goal
    h1, h2 = homogeneous("ab", a, b, ka, kb), homogeneous("cd", c_, d_, kc, kd)
    x, y, m = lc.fresh(T.Real(), "x"), lc.fresh(T.Real(), "y"), lc.fresh(T.Real(), "m")
    step = Implies(lt(0, m), Iff(lt(x, y), lt(m * x, m * y)))
    lc.prove("order-of-scaled-reals", step)
    h3 = lc.instantiate(step, [(x, dist(a, b)), (y, dist(c_, d_)), (m, kk)])
    h4 = lt(0, kk)
    lc.prove("square-positive", h4)
    lc.derive("closest-pair-order", Iff(lt(dist(a, b), dist(c_, d_)), lt(dist(ka, kb), dist(kc, kd))), [h1, h2, h3, h4],
              [dist(ka, kb), dist(kc, kd), dist(a, b), dist(c_, d_), kk])
    lrtb = lambda o: (1 - lp.boxes_flow) * o.x0 - (1 + lp.boxes_flow) * (o.y0 + o.y1)
    tbrl = lambda o: -(1 + lp.boxes_flow) * (o.x0 + o.x1) - (1 - lp.boxes_flow) * o.y1
    for nm, key in (("lines-in-box", lambda o: -o.y1), ("lines-in-vertical-box", lambda o: -o.x1), ("lrtb-key", lrtb), ("tbrl-key", tbrl)):
        lc.prove("sort-order:" + nm, And(Iff(lt(key(a), key(b)), lt(key(ka), key(kb))), Iff(eq(key(a), key(b)), eq(key(ka), key(kb)))))
    lc.prove("sort-order:flow-none-key", And(
        Iff(Or(lt(-a.y0, -b.y0), And(eq(a.y0, b.y0), lt(a.x0, b.x0))), Or(lt(-ka.y0, -kb.y0), And(eq(ka.y0, kb.y0), lt(ka.x0, kb.x0))))))


@lemma("reading-order-of-columns", props=["C09"], note="LRTB key: inside one column higher boxes come first; of two boxes at the same height the left one comes first (boxes_flow < 1)")
def _(lc):
    a, b, lp = lc.fresh(Comp(), "a"), lc.fresh(Comp(), "b"), _lp(lc)
    key = lambda o: (1 - lp.boxes_flow) * o.x0 - (1 + lp.boxes_flow) * (o.y0 + o.y1)
    lc.assume(lt(-1, lp.boxes_flow))
    lc.prove("same-column-top-to-bottom", Implies(And(eq(a.x0, b.x0), lt(b.y0 + b.y1, a.y0 + a.y1)), lt(key(a), key(b))))
    lc.assume(lt(lp.boxes_flow, 1))
    lc.prove("same-height-left-before-right", Implies(And(eq(a.y0 + a.y1, b.y0 + b.y1), lt(a.x0, b.x0)), lt(key(a), key(b))))


# -- bounded stand-ins: real LTPage.analyze on arrangements with gaps on / just below / just above every threshold, and on scaled pages ---------------
def _analyze(chars, lp, bbox=(0, 0, 1024, 1024)):
    page = lay.LTPage(1, bbox)
    for ch in chars:
        page.add(ch)
    page.analyze(lp)
    return page


def signature(page, chars, merge_ties=False):
    """the outcome as nested tuples of glyph numbers and inserted text (no coordinates): equal signatures = same lines, boxes, order, spaces.
    merge_ties: lines of one box whose sort keys are equal are listed in a canonical order (see finding F36)"""
    idx = {id(c_): k for k, c_ in enumerate(chars)}

    def sig(o):
        if isinstance(o, lay.LTChar):
            return idx[id(o)]
        if isinstance(o, lay.LTAnno):
            return o.get_text()
        if isinstance(o, lay.LTTextBox) and merge_ties:
            key = (lambda l_: -l_.y1) if isinstance(o, lay.LTTextBoxHorizontal) else (lambda l_: -l_.x1)
            ms = sorted(o, key=lambda l_: (key(l_), repr(sig(l_))))
            return (type(o).__name__, o.index) + tuple(sig(m) for m in ms)
        if isinstance(o, (lay.LTTextLine, lay.LTTextBox, lay.LTTextGroup)):
            return (type(o).__name__, getattr(o, "index", None)) + tuple(sig(m) for m in o)
        return type(o).__name__
    groups = tuple(sig(g) for g in page.groups) if page.groups else None
    return tuple(sig(o) for o in page), groups


@bounded("thresholds-of-the-documented-margins", props=["C09"],
         bound="quick: 4000 two-glyph / two-line arrangements with exact binary coordinates whose gap, overlap or offset is on, 1/64 below and 1/64 above "
               "each threshold (char_margin, line_overlap, word_margin, line_margin; horizontal and vertical writing), random dyadic LAParams and glyph sizes, "
               "real LTPage.analyze; thorough: 100000")
def _(tier, seed):
    import random
    from fractions import Fraction as F
    from contracts.c08_layout import make_char
    rng = random.Random(seed + 9)
    n = 4000 if tier == "quick" else 100000
    eps = F(1, 64)
    failures, evals, kinds = [], 0, set()
    for it in range(n):
        kind = rng.choice(["char_margin", "line_overlap", "word_margin", "line_margin"])
        vertical = rng.random() < .3 and kind != "line_margin"
        lo, cm = rng.choice([F(1, 4), F(1, 2), F(3, 4)]), rng.choice([F(1, 2), F(2), F(3)])
        wm, lm = rng.choice([F(1, 8), F(1, 4), F(1, 2)]), rng.choice([F(1, 4), F(1, 2), F(1)])
        lp = lay.LAParams(line_overlap=float(lo), char_margin=float(cm), word_margin=float(wm), line_margin=float(lm), detect_vertical=vertical, boxes_flow=rng.choice([None, .5]))
        w0, h0, w1, h1 = [F(rng.choice([4, 8, 12, 16])) for _ in range(4)]
        delta = rng.choice([-eps, F(0), eps])
        x, y = F(100), F(500)
        T_ = lambda b: tuple(float(v) for v in (b if not vertical else (b[1], b[0], b[3], b[2])))       # vertical writing: transpose the arrangement
        if vertical:
            w0, h0, w1, h1 = w0, h0, w1, h1
        if kind == "char_margin":
            thr = cm * max(w0, w1)
            gap = thr + delta
            a = (x, y, x + w0, y + h0); b = (x + w0 + gap, y, x + w0 + gap + w1, y + h1)
            want_join = gap < thr
        elif kind == "line_overlap":
            thr = lo * min(h0, h1)
            ov = thr + delta                       # b sits above a with `ov` of common vertical extent
            a = (x, y, x + w0, y + h0); b = (x + w0, y + h0 - ov, x + w0 + w1, y + h0 - ov + h1)
            want_join = ov > thr
        elif kind == "word_margin":
            thr = wm * max(w1, h1)
            gap = thr + delta
            if gap >= cm * max(w0, w1):
                continue
            a = (x, y, x + w0, y + h0); b = (x + w0 + gap, y, x + w0 + gap + w1, y + h1)
            want_join = True
        else:
            h1 = h0
            thr = lm * h0
            gap = thr + delta                      # second line below the first, left aligned, same height
            a = (x, y, x + w0, y + h0); b = (x, y - gap - h1, x + w1, y - gap)
            want_join = gap < thr
        if vertical:
            # transposed: runs downwards in a column; for the vertical writing mode the second glyph must lie below the first
            ta, tb = T_(a), T_(b)
            ta, tb = (ta[0], 1000 - ta[3], ta[2], 1000 - ta[1]), (tb[0], 1000 - tb[3], tb[2], 1000 - tb[1])
            chars = [make_char(ta, "a"), make_char(tb, "b")]
        else:
            chars = [make_char(tuple(map(float, a)), "a"), make_char(tuple(map(float, b)), "b")]
        evals += 1
        kinds.add((kind, vertical, delta))
        try:
            page = _analyze(chars, lp)
            lines = [l_ for o in page if isinstance(o, lay.LTTextBox) for l_ in o]
            boxes = [o for o in page if isinstance(o, lay.LTTextBox)]
            if kind == "line_margin":
                got = len(boxes) == 1
                ok = got == want_join
                detail = "one box: %s, documented: %s" % (got, want_join)
            elif kind == "word_margin":
                txt = "".join(l_.get_text() for l_ in lines)
                want = "a b\n" if gap > thr else "ab\n"
                ok, detail = txt == want, "text %r, documented %r" % (txt, want)
            else:
                got = len(lines) == 1
                if vertical and got:
                    got = isinstance(lines[0], lay.LTTextLineVertical)
                ok, detail = got == want_join, "one line: %s, documented: %s" % (got, want_join)
        except Exception as e:  # noqa: BLE001
            ok, detail = False, "%s: %s" % (type(e).__name__, e)
        if not ok:
            failures.append(dict(kind=kind, vertical=vertical, delta=str(delta), laparams=lp_dict(lp), glyphs=[c_.bbox for c_ in chars], got=detail))
            if len(failures) >= 3:
                break
    return dict(evaluations=evals, distinct=len(kinds), failures=failures)


@bounded("outcome-unchanged-by-power-of-two-scaling", props=["C09"],
         bound="quick: 1500 generated pages (the C08 generator: rows, columns, scattered, off-page, zero-size) x random LAParams, each analysed at scale 1 and at "
               "three scales 2^k, k in -6..8 (page box scaled too): identical lines, boxes, groups, order, numbering and inserted blanks; thorough: 40000 pages")
def _(tier, seed):
    import random
    from contracts.c08_layout import gen_page, lap_grid, make_char
    rng = random.Random(seed + 90)
    n = 1500 if tier == "quick" else 40000
    failures, evals, shapes, known = [], 0, set(), []
    for it in range(n):
        chars, _others = gen_page(rng, nmax=10)
        lp = lap_grid(rng)
        boxes = [c_.bbox for c_ in chars]
        texts = [c_.get_text() for c_ in chars]
        base = None
        for k in [0] + rng.sample(range(-6, 9), 3):
            s = 2.0 ** k
            cs = [make_char(tuple(v * s for v in b), t) for b, t in zip(boxes, texts)]
            evals += 1
            try:
                page = _analyze(cs, lp, (0, 0, 100 * s, 100 * s))
                sg = (signature(page, cs), signature(page, cs, merge_ties=True))
            except Exception as e:  # noqa: BLE001
                sg = ("%s: %s" % (type(e).__name__, e),) * 2
            if base is None:
                base = sg
            elif sg[1] != base[1]:
                failures.append(dict(glyphs=list(zip(boxes, texts)), laparams=lp_dict(lp), scale="2^%d" % k, at_scale_1=repr(base[0])[:300], scaled=repr(sg[0])[:300]))
                break
            elif sg[0] != base[0]:
                # only the order of lines with equal sort keys inside a box differs: finding F36
                known.append(dict(known="F36", glyphs=list(zip(boxes, texts)), laparams=lp_dict(lp), scale="2^%d" % k))
                break
        shapes.add((len(chars), lp.boxes_flow, lp.detect_vertical))
        if len(failures) >= 3:
            break
    return dict(evaluations=evals, distinct=len(shapes), failures=(failures + known[:1])[:3], known_F36_count=len(known))


@bounded("columns-read-left-to-right-top-to-bottom", props=["C09"],
         bound="quick: 600 generated pages: one column of 2..5 paragraphs (any line counts and paragraph gaps above line_margin), and two columns of equal "
               "vertical extent (same paragraph structure, column gap 1..2 column widths so that each column is grouped before the columns are joined) with "
               "boxes_flow in {0.25, 0.5, 0.75}: boxes of a column top to bottom, the left column before the right one; thorough: 20000.  Columns of unequal "
               "extent are ordered by the documented boxes_flow weighting of the group centres and are not asserted.")
def _(tier, seed):
    import random
    from contracts.c08_layout import make_char
    rng = random.Random(seed + 99)
    n = 600 if tier == "quick" else 20000
    failures, evals, shapes = [], 0, set()
    for it in range(n):
        gw, gh = 8.0, 12.0
        ncols = rng.choice([1, 2])
        colw = rng.choice([6, 10, 14])
        gapw = colw * rng.choice([1, 2])
        top = 900.0
        npar = rng.randint(2, 5 if ncols == 1 else 4)
        struct = [(rng.randint(1 if ncols == 1 else 2, 3), rng.choice([1.0, 1.5, 2.0]) if ncols == 1 else 1.0) for _ in range(npar)]
        chars = []
        for col in range(ncols):
            x0 = 50.0 + col * (colw + gapw) * gw
            y = top
            for p, (nl, pgap) in enumerate(struct):
                for ln_ in range(nl):
                    nch = colw if ln_ < nl - 1 else rng.randint(2, colw)
                    for k in range(nch):
                        chars.append(make_char((x0 + k * gw, y - gh, x0 + (k + 1) * gw, y), "abcdefghij"[k % 10]))
                    y -= gh * 1.25
                y -= gh * pgap
        lp = lay.LAParams(boxes_flow=rng.choice([.5, .25, .75]))
        evals += 1
        shapes.add((ncols, tuple(struct), colw, gapw))
        try:
            page = _analyze(chars, lp)
            boxes = [o for o in page if isinstance(o, lay.LTTextBox)]
            got = [(0 if b.x0 < 50.0 + (colw + gapw / 2) * gw else 1, round(b.y1, 3)) for b in boxes]
            want = sorted(got, key=lambda t: (t[0], -t[1]))
            ok = got == want and len(boxes) == npar * ncols
            detail = "boxes (column, top) in output order: %r" % got
        except Exception as e:  # noqa: BLE001
            ok, detail = False, "%s: %s" % (type(e).__name__, e)
        if not ok:
            failures.append(dict(columns=ncols, paragraphs=struct, column_width=colw, column_gap=gapw, laparams=lp_dict(lp), got=detail))
            if len(failures) >= 3:
                break
    return dict(evaluations=evals, distinct=len(shapes), failures=failures)


@bounded("boxes-are-the-connected-components-of-the-neighbour-relation", props=["C09", "C08"],
         bound="every neighbour relation on 1..4 lines in which a line found by any line also finds itself (6 697 relations; what find_neighbors can return, see its "
               "contract): the boxes yielded by the real group_textlines are exactly the connected components of the relation read as an undirected graph "
               "(a line joins every line it finds and every line that finds it), each component once, in order of its first line")
def _(tier, seed):
    import itertools
    from contracts.c08_layout import make_char
    cases, failures = 0, []
    for n in (1, 2, 3, 4):
        for bits in itertools.product([0, 1], repeat=n * n):
            R = [[j for j in range(n) if bits[i * n + j]] for i in range(n)]
            found = {j for i in range(n) for j in R[i]}
            if any(j not in R[j] for j in found):
                continue
            # reference: union-find over the undirected edges
            comp = list(range(n))
            def root(a):
                while comp[a] != a:
                    a = comp[a]
                return a
            for i in range(n):
                for j in R[i]:
                    ra, rb = root(i), root(j)
                    if ra != rb:
                        comp[max(ra, rb)] = min(ra, rb)
            want = {}
            for i in range(n):
                want.setdefault(root(i), []).append(i)
            want = sorted(sorted(v) for v in want.values())
            cont = lay.LTLayoutContainer((0, 0, 100, 100))
            lines = []
            for i in range(n):
                ln_ = lay.LTTextLineHorizontal(0.1)
                ln_.add(make_char((10 * i, 10 * i, 10 * i + 5, 10 * i + 5), "x"))
                lines.append(ln_)
            for i, ln_ in enumerate(lines):
                ln_.find_neighbors = (lambda i: lambda plane, ratio: [lines[j] for j in R[i]])(i)
            cases += 1
            try:
                boxes = list(cont.group_textlines(lay.LAParams(), lines))
                got = sorted(sorted(lines.index(l_) for l_ in b) for b in boxes)
                ok = got == want
                detail = "boxes %r, connected components %r" % (got, want)
            except Exception as e:  # noqa: BLE001
                ok, detail = False, "%s: %s" % (type(e).__name__, e)
            if not ok:
                failures.append(dict(neighbours_of_each_line=R, got=detail))
                if len(failures) >= 3:
                    return dict(evaluations=cases, distinct=cases, failures=failures)
    return dict(evaluations=cases, distinct=cases, failures=failures)


# -- LAParams: the documented defaults, every argument stored under its own name, boxes_flow validated ------------------------------------------------------
@exhaustive("laparams-documented-defaults-and-argument-wiring", props=["C09", "C08"],
            note="LAParams() has the documented defaults (line_overlap 0.5, char_margin 2.0, line_margin 0.5, word_margin 0.1, boxes_flow 0.5, detect_vertical False, "
                 "all_texts False); each keyword argument, given a value no other argument has, ends up in the attribute of the same name and nowhere else; "
                 "boxes_flow outside [-1, 1] or of a non-numeric type is refused, None is accepted")
def _():
    import inspect
    LA = lay.LAParams
    fails, cases = [], 0
    want = dict(line_overlap=0.5, char_margin=2.0, line_margin=0.5, word_margin=0.1, boxes_flow=0.5, detect_vertical=False, all_texts=False)
    d = LA()
    cases += 1
    got = {k: getattr(d, k, "<missing>") for k in want}
    if got != want or list(inspect.signature(LA.__init__).parameters)[1:] != list(want):
        fails.append(dict(defaults=got, signature=list(inspect.signature(LA.__init__).parameters)))
    marks = dict(line_overlap=0.125, char_margin=3.25, line_margin=0.75, word_margin=0.375, boxes_flow=-0.25, detect_vertical=True, all_texts=True)
    for k, v in marks.items():
        cases += 1
        o = LA(**{k: v})
        got = {a: getattr(o, a, "<missing>") for a in want}
        if got != dict(want, **{k: v}):
            fails.append(dict(argument=k, value=v, attributes=got))
    for bf, ok in ((None, True), (-1, True), (1, True), (1.0, True), (0, True), (1.5, False), (-1.01, False), ("0.5", False)):
        cases += 1
        try:
            LA(boxes_flow=bf)
            accepted = True
        except (real_module("pdfminer.pdfexceptions").PDFTypeError, real_module("pdfminer.pdfexceptions").PDFValueError):
            accepted = False
        if accepted != ok:
            fails.append(dict(boxes_flow=repr(bf), accepted=accepted))
    return dict(cases=cases, failures=fails)
