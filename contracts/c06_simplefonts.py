"""C06 - simple fonts: encoding overlay, ToUnicode precedence, width lookup, glyph names."""
import ast
import z3
from pyvc.contracts import contract, fragment, lemma, bounded, exhaustive, scenario, stub, REGISTRY
from pyvc.logic import And, Or, Not, Implies, Iff, eq, le, lt, If, ne, ForAllInt, any_z3, to_z3
from pyvc import sorts as T
from pyvc.values import SObj, SBytes, SList, SMap, SymFn
from pyvc.extract import real_module

edb = real_module("pdfminer.encodingdb")
pf = real_module("pdfminer.pdffont")
PDFKeyError = real_module("pdfminer.pdfexceptions").PDFKeyError


def mhas(m, k):
    return m.has(k) if isinstance(m, SMap) else (k in m)


def mget(m, k):
    return m.get(k) if isinstance(m, SMap) else m.get(k)


# -- EncodingDB.get_encoding: base table overlaid by Differences on a private copy --------------------------------------------------
_GOOD = {"alpha": 945, "beta": 946, "A": 65}


class _Diff(T.Sort):
    """a /Differences array: up to 3 items, each a code (any int) or a glyph name (mappable or not)"""
    def fresh(self, ctx, name):
        lit = real_module("pdfminer.psparser").LIT
        n = ctx.choose([0, 1, 2, 3], "ndiff")
        out = []
        for i in range(n):
            k = ctx.choose(["code", "alpha", "beta", "nosuchglyph"], "item%d" % i)
            out.append(ctx.fresh_int("code%d" % i) if k == "code" else lit(k))
        return out
    def sample(self, rng):
        return None
    def from_model(self, ev, v):
        return [int(ev(x)) if isinstance(x, z3.ExprRef) else str(x) for x in v]


class _EncCls(T.Sort):
    """EncodingDB with symbolic tables (code -> character id); WinAnsi and Standard are distinct objects"""
    def fresh(self, ctx, name):
        std = T.IntMap(real=False).fresh(ctx, "std")
        win = T.IntMap(real=False).fresh(ctx, "win")
        o = SObj(edb.EncodingDB, {"std2unicode": std, "encodings": {"StandardEncoding": std, "WinAnsiEncoding": win}, "_std": std, "_win": win,
                                  "_std0": SMap(std.dom, std.val), "_win0": SMap(win.dom, win.val)}, name)
        return o
    def sample(self, rng):
        return None
    def from_model(self, ev, v):
        return {}


_n2u = stub("pdfminer.encodingdb:name2unicode", ["name"])
_n2u.result_fn = ("agl", lambda name: _GOOD[name])
_n2u.may_raise(PDFKeyError, lambda name: name not in _GOOD)
_n2u.raises = {PDFKeyError: (lambda name: name not in _GOOD)}

c = contract("pdfminer.encodingdb:EncodingDB.get_encoding", props=["C06", "C12"])
c.param("cls", _EncCls()).param("name", T.OneOf("WinAnsiEncoding", "StandardEncoding", "NoSuchEncoding")).param("diff", _Diff())
c.ghost("q", T.Int(-5, 300))
c.skip_cross = True
c.stubs = {"pdfminer.encodingdb:name2unicode": _n2u}


def _overlay(diff):
    """ISO 32000-1 9.6.6.1: an integer sets the current code, each name is assigned to it and advances it"""
    out, cid = [], 0
    for x in diff:
        if isinstance(x, (int, z3.ExprRef)):
            cid = x
        else:
            out.append((cid, x.name))
            cid = cid + 1
    return out


def _enc_spec(cls, name, diff, result, q):
    base = cls._win0 if name == "WinAnsiEncoding" else cls._std0
    val, has = base.get(q), base.has(q)
    for code, gname in _overlay(diff):
        if gname in _GOOD:
            val = If(eq(q, code), _GOOD[gname], val)
            has = Or(eq(q, code), has)
        # a name without AGL value: pdfminer keeps the base entry (recorded finding F25: the property says the
        # code then has no encoding text); asserted here only as 'nothing else changes'
    return And(Iff(mhas(result, q), has), Implies(has, eq(mget(result, q), val)))


c.ens("base-table-overlaid-by-Differences", lambda cls, name, diff, result, q: _enc_spec(cls, name, diff, result, q))
c.ens("shared-class-tables-are-never-written", lambda cls, q: And(
    Iff(cls._std.has(q), cls._std0.has(q)), eq(cls._std.get(q), cls._std0.get(q)),
    Iff(cls._win.has(q), cls._win0.has(q)), eq(cls._win.get(q), cls._win0.get(q))))
c.ens("result-is-private-when-differences-are-applied", lambda cls, diff, result: (result is not cls._std and result is not cls._win) if diff else True)


# -- PDFSimpleFont.to_unichr: ToUnicode entry, else encoding entry, else undefined --------------------------------------------------
class _UMap(T.Sort):
    def fresh(self, ctx, name):
        kind = ctx.choose(["none", "hit", "miss"], "tounicode")
        if kind == "none":
            return None
        u = ctx.fresh_int("tounicode_text")
        def get_unichr(I, cid):
            from pyvc.symexec import SymRaise
            if kind == "miss":
                raise SymRaise(KeyError, "get_unichr")
            return u
        o = SObj(None, {"get_unichr": SymFn(get_unichr, "get_unichr"), "_kind": kind, "_u": u}, name)
        return o
    def sample(self, rng):
        return None
    def from_model(self, ev, v):
        return None if v is None else v.f["_kind"]


PDFUnicodeNotDefined = pf.PDFUnicodeNotDefined
c = contract("pdfminer.pdffont:PDFSimpleFont.to_unichr", props=["C06"])
c.param("self", T.Obj("pdfminer.pdffont:PDFSimpleFont", unicode_map=_UMap(), cid2unicode=T.IntMap(real=False))).param("cid", T.Int(0, 255))
c.skip_cross = True
c.may_raise(PDFUnicodeNotDefined, lambda self, cid: And(self.unicode_map is None or self.unicode_map._kind == "miss", Not(self.cid2unicode.has(cid))))
c.ens("ToUnicode-wins-then-encoding", lambda self, cid, result: (
    eq(result, self.unicode_map._u) if (self.unicode_map is not None and self.unicode_map._kind == "hit")
    else And(self.cid2unicode.has(cid), eq(result, self.cid2unicode.get(cid)))))


# -- PDFFont.char_width: numeric-key width, else width keyed by the code's text, else default; times hscale -----------------------------
_tu = stub("pdfminer.pdffont:PDFFont.to_unichr", ["self", "cid"], T.Int(10 ** 6, 2 * 10 ** 6))
_tu.may_raise(PDFUnicodeNotDefined, None)
c = contract("pdfminer.pdffont:PDFFont.char_width", props=["C06", "C05", "C12"])
c.mod = []      # a query: in particular self.widths (for a standard-14 font the process-wide FONT_METRICS table itself) is left as it was
c.param("self", T.Obj("pdfminer.pdffont:PDFFont", widths=T.IntMap(real=True), default_width=T.Real(), hscale=T.Real())).param("cid", T.Int(0, 255))
c.skip_cross = True
c.stubs = {"pdfminer.pdffont:PDFFont.to_unichr": _tu}
c.returns(T.Real())
c.ens("width-precedence-and-scale", lambda old, cid, result, trace: (lambda self: If(
    self.widths.has(cid), eq(result, self.widths.get(cid) * self.hscale),
    (If(self.widths.has(trace[0][1]["__result__"]), eq(result, self.widths.get(trace[0][1]["__result__"]) * self.hscale),
        eq(result, self.default_width * self.hscale))
     if (trace and "__result__" in trace[0][1]) else eq(result, self.default_width * self.hscale))))(old.self))
c.ens("text-lookup-only-when-no-numeric-entry", lambda old, cid, trace: Implies(old.self.widths.has(cid), len(trace) == 0))


# -- width tables from FirstChar/Widths; Type3 scale from FontMatrix -----------------------------------------------------------------------
def _widths_comp(cls):
    def sel(fn):
        for n in ast.walk(fn):
            if isinstance(n, ast.DictComp) and "firstchar" in ast.unparse(n):
                return n
        return None
    return sel


for _cls in ("PDFType1Font", "PDFType3Font"):
    c = fragment("pdfminer.pdffont:%s.__init__" % _cls, "width-table", _widths_comp(_cls), props=["C06"])
    c.param("firstchar", T.OneOf(0, 32, 65)).param("width_list", T.Tup(T.Real(), T.Real(), T.Real(), as_list=True))
    c.ens("FirstChar-plus-k-maps-to-Widths-k", lambda firstchar, width_list, result: And(
        set(result.keys()) == {firstchar, firstchar + 1, firstchar + 2}, *[eq(result[firstchar + k], width_list[k]) for k in range(3)]))


def _t3_scale(fn):
    for n in ast.walk(fn):
        if isinstance(n, ast.Assign) and "apply_matrix_norm" in ast.unparse(n.value):
            return [n]
    return None


c = fragment("pdfminer.pdffont:PDFType3Font.__init__", "glyph-space-scale", _t3_scale, props=["C06"], mode="stmts")
c.param("self", T.Obj("pdfminer.pdffont:PDFType3Font", matrix=T.RealTup(6), hscale=T.Real(), vscale=T.Real()))
c.mod("self.hscale").mod("self.vscale")
c.ens("scales-are-the-font-matrix-applied-to-the-unit-vector", lambda self: And(
    eq(self.hscale, self.matrix[0] + self.matrix[2]), eq(self.vscale, self.matrix[1] + self.matrix[3])))


# -- glyph names: Adobe Glyph List algorithm (AGL specification section 2), bounded --------------------------------------------------
def agl_model(name, agl):
    """independent model; returns the text or None when any component has no mapping (pdfminer documents that it
    reports 'no mapping' instead of the empty string)"""
    name = name.split(".")[0]
    out = ""
    for comp in name.split("_"):
        if comp in agl:
            out += agl[comp]
            continue
        hexd = "0123456789abcdefABCDEF"
        if comp.startswith("uni") and len(comp) > 3 and (len(comp) - 3) % 4 == 0 and all(ch in hexd for ch in comp[3:]):
            vals = [int(comp[i:i + 4], 16) for i in range(3, len(comp), 4)]
            if any(0xD800 <= v <= 0xDFFF for v in vals):
                return None
            out += "".join(map(chr, vals))
            continue
        if comp.startswith("u") and 4 <= len(comp) - 1 <= 6 and all(ch in hexd for ch in comp[1:]):
            v = int(comp[1:], 16)
            if 0xD800 <= v <= 0xDFFF or v > 0x10FFFF:
                return None
            out += chr(v)
            continue
        return None
    return out


@bounded("glyph-names-vs-AGL-model", props=["C06"],
         bound="quick: 6000 names from the grammar (AGL list names, uniXXXX sequences, uXXXX..uXXXXXX, up to 3 underscore-joined components, dot suffixes at the end and in the middle (before a later underscore), near-misses); thorough: 200000")
def _(tier, seed):
    import random
    rng = random.Random(seed + 6)
    agl = real_module("pdfminer.glyphlist").glyphname2unicode
    names = sorted(agl)
    n = 6000 if tier == "quick" else 200000
    failures, evals, distinct = [], 0, set()

    def comp():
        r = rng.random()
        hx = lambda k, up=True: "".join(rng.choice("0123456789ABCDEF" if up else "0123456789abcdef") for _ in range(k))
        if r < 0.35:
            return rng.choice(names)
        if r < 0.55:
            return "uni" + "".join(hx(4, rng.random() < 0.8) for _ in range(rng.randint(1, 3)))
        if r < 0.7:
            return "u" + hx(rng.choice([4, 5, 6]), rng.random() < 0.8)
        if r < 0.8:
            return rng.choice(["uni" + hx(3), "uniD800", "u" + hx(3), "u" + hx(7), "uDFFF", "foo", "Aacutee", "uni", "u", "u110000", "uni004"])
        return rng.choice(names) + rng.choice(["", "x"])
    for _ in range(n):
        parts = [comp() for _k in range(rng.choice([1, 1, 1, 2, 3]))]
        r_ = rng.random()
        if r_ < 0.3:
            name = "_".join(parts) + "." + rng.choice(["alt", "sc", "001", "a.b"])
        elif r_ < 0.45:
            # the suffix starts at the FIRST period of the whole name: everything after it - further components included - is dropped
            k_ = rng.randrange(len(parts))
            parts[k_] += "." + rng.choice(["alt", "sc", "x_" + rng.choice(names), "1"])
            name = "_".join(parts)
        else:
            name = "_".join(parts)
        distinct.add(name)
        evals += 1
        want = agl_model(name, agl)
        try:
            got = edb.name2unicode(name)
        except (KeyError, ValueError):
            got = None
        except Exception as e:  # noqa: BLE001
            got = "%s: %s" % (type(e).__name__, e)
        if got != want:
            failures.append(dict(name=name, got=got, want=want))
            if len(failures) >= 3:
                break
    return dict(evaluations=evals, distinct=len(distinct), failures=failures)


@exhaustive("encoding-tables-vs-independent-codecs", props=["C06"],
            note="data check: WinAnsi vs cp1252, MacRoman vs mac_roman for every code where both are defined (documented ISO Annex D differences excluded)")
def _():
    fails, cases = [], 0
    E = edb.EncodingDB
    # ISO 32000-1 Annex D notes: WinAnsi codes 0x7f,0x81,0x8d,0x8f,0x90,0x9d are bullets / undefined; 0xa0 = space, 0xad = hyphen
    skip_win = {0x7F, 0x80, 0x81, 0x8D, 0x8E, 0x8F, 0x90, 0x9D, 0x9E, 0xA0, 0xAD}
    for code, ch in E.win2unicode.items():
        if code in skip_win or code < 32:
            continue
        cases += 1
        try:
            want = bytes([code]).decode("cp1252")
        except UnicodeDecodeError:
            continue
        if ch != want:
            fails.append(dict(table="WinAnsi", code=code, got=ch, want=want))
    skip_mac = {0xCA, 0xDB, 0xF0, 0xBD, 0xC6, 0xB7, 0xB8, 0xB9, 0xBA, 0xC3, 0xD7, 0xAD, 0xB0, 0xB2, 0xB3, 0xB6}
    for code, ch in E.mac2unicode.items():
        if code in skip_mac or code < 32:
            continue
        cases += 1
        want = bytes([code]).decode("mac_roman")
        if ch != want:
            fails.append(dict(table="MacRoman", code=code, got=ch, want=want))
    return dict(cases=cases, failures=fails[:5])


@bounded("simple-font-documents-vs-oracle", props=["C06"],
         bound="quick: 150 generated documents, Type1/TrueType/Type3 x {no Encoding, WinAnsi, MacRoman, dict with BaseEncoding+Differences} x ToUnicode for some codes x Widths/FirstChar/MissingWidth (incl. width 0) x Type3 FontMatrix; every shown code's text and advance compared; thorough: 20000")
def _(tier, seed):
    import io, random
    from specs.pdfgen import build, Name, Ref, Stream
    rng = random.Random(seed + 66)
    n = 150 if tier == "quick" else 20000
    interp = real_module("pdfminer.pdfinterp"); conv = real_module("pdfminer.converter"); layout = real_module("pdfminer.layout")
    PDFParser = real_module("pdfminer.pdfparser").PDFParser; PDFDocument = real_module("pdfminer.pdfdocument").PDFDocument
    PDFPage = real_module("pdfminer.pdfpage").PDFPage
    agl = real_module("pdfminer.glyphlist").glyphname2unicode
    failures, evals, distinct = [], 0, set()
    for _ in range(n):
        kind = rng.choice(["Type1", "TrueType", "Type3"])
        enc_kind = rng.choice(["none", "WinAnsiEncoding", "MacRomanEncoding", "dict"])
        codes = [rng.choice([65, 66, 97, 120, 0xE9, 0x80, 200, 33]) for _i in range(rng.randint(1, 5))]
        base = {"none": "std", "WinAnsiEncoding": "cp1252", "MacRomanEncoding": "mac_roman"}.get(enc_kind)
        diffs, dmap = [], {}
        if enc_kind == "dict":
            base = rng.choice(["cp1252", "mac_roman"])
            for _k in range(rng.randint(0, 2)):
                c0 = rng.choice(codes)
                names = [rng.choice(["alpha", "Euro", "uni30A2", "f_i", "A.sc", "u1F600"]) for _i in range(rng.randint(1, 2))]
                diffs += [c0] + [Name(nm) for nm in names]
                for i, nm in enumerate(names):
                    dmap[c0 + i] = agl_model(nm, agl)
        tou = {}
        for cc in set(codes):
            if rng.random() < 0.3:
                tou[cc] = rng.choice(["Z", "ß", "あ"])

        def enc_text(cc):
            if cc in dmap:
                return dmap[cc]
            if base == "std":
                return chr(cc) if 65 <= cc <= 122 and cc not in (96,) else None
            try:
                t = bytes([cc]).decode(base)
            except UnicodeDecodeError:
                return None
            return t
        if any(cc not in tou and enc_text(cc) is None for cc in codes):
            continue      # codes whose encoding entry the independent codecs cannot tell
        first = rng.choice([0, 32, 65])
        widths = [rng.choice([0, 250, 500, 1000]) for _i in range(rng.randint(1, 200))]
        missing = rng.choice([None, 0, 300])
        fm = rng.choice([[0.001, 0, 0, 0.001, 0, 0], [0.002, 0, 0, 0.002, 0, 0]])
        font = {"Type": Name("Font"), "Subtype": Name(kind), "FirstChar": first, "Widths": widths}
        desc = {"Type": Name("FontDescriptor"), "FontName": Name("Custom"), "Flags": 32, "FontBBox": [0, -200, 1000, 800], "ItalicAngle": 0, "Ascent": 800,
                "Descent": -200, "CapHeight": 700, "StemV": 80}
        if missing is not None:
            desc["MissingWidth"] = missing
        if kind == "Type3":
            # Type3: its own Encoding dictionary; keep to codes it names
            codes = [rng.choice([65, 97]) for _i in range(len(codes))]
            enc_kind, base, diffs, dmap = "dict3", "std", [65, Name("A"), 97, Name("a")], {65: "A", 97: "a"}
            tou = {cc: t for cc, t in tou.items() if cc in codes}
            font.update({"FontBBox": [0, 0, 1000, 1000], "FontMatrix": fm, "CharProcs": {}, "Encoding": {"Type": Name("Encoding"), "Differences": diffs}})
        else:
            font["BaseFont"] = Name("Custom")
        font["FontDescriptor"] = Ref(8)
        if kind != "Type3":
            if enc_kind in ("WinAnsiEncoding", "MacRomanEncoding"):
                font["Encoding"] = Name(enc_kind)
            elif enc_kind == "dict":
                font["Encoding"] = {"Type": Name("Encoding"), "BaseEncoding": Name("WinAnsiEncoding" if base == "cp1252" else "MacRomanEncoding"), "Differences": diffs}
        objs = {1: {"Type": Name("Catalog"), "Pages": Ref(2)}, 2: {"Type": Name("Pages"), "Kids": [Ref(3)], "Count": 1},
                3: {"Type": Name("Page"), "Parent": Ref(2), "MediaBox": [0, 0, 600, 600], "Contents": Ref(4), "Resources": {"Font": {"F1": Ref(5)}}},
                5: font, 8: desc}
        if tou:
            lines = ["begincmap", "1 begincodespacerange <00> <FF> endcodespacerange", "%d beginbfchar" % len(tou)]
            lines += ["<%02X> <%s>" % (cc, t.encode("utf-16-be").hex()) for cc, t in tou.items()] + ["endbfchar", "endcmap"]
            objs[7] = Stream({}, "\n".join(lines).encode()); font["ToUnicode"] = Ref(7)
        objs[4] = Stream({}, ("BT /F1 10 Tf <%s> Tj ET" % "".join("%02X" % cc for cc in codes)).encode())
        if any(cc not in tou and enc_text(cc) is None for cc in codes):
            continue
        data = build(objs, 1)
        evals += 1
        distinct.add((kind, enc_kind, len(diffs), len(tou), missing))
        try:
            rm = interp.PDFResourceManager(); dev = conv.PDFPageAggregator(rm, laparams=None); it = interp.PDFPageInterpreter(rm, dev)
            doc = PDFDocument(PDFParser(io.BytesIO(data)))
            it.process_page(next(iter(PDFPage.create_pages(doc))))
            got = [(o.get_text(), round(o.adv, 6)) for o in dev.get_result() if isinstance(o, layout.LTChar)]
        except Exception as e:  # noqa: BLE001
            got = "%s: %s" % (type(e).__name__, e)
        want = []
        for cc in codes:
            t = tou.get(cc, enc_text(cc))
            w = widths[cc - first] if first <= cc < first + len(widths) else (missing or 0)
            scale = fm[0] if kind == "Type3" else 0.001
            want.append((t, round(w * scale * 10, 6)))
        if got != want:
            failures.append(dict(kind=kind, encoding=enc_kind, differences=str(diffs), tounicode=str(tou), first=first, widths=widths[:6], missing=missing,
                                 codes=codes, got=str(got)[:300], want=str(want)[:300]))
            if len(failures) >= 3:
                break
    return dict(evaluations=evals, distinct=len(distinct), failures=failures)


@exhaustive("recorded-deviations-of-simple-fonts", props=["C06"],
            note="two recorded findings, each exhibited on a generated document: F25 (an unmappable /Differences name keeps the base encoding's character) and F26 (a standard-14 BaseFont name makes the built-in metrics win over the font's own /Widths)")
def _():
    import io
    from specs.pdfgen import build, Name, Ref, Stream
    hl = real_module("pdfminer.high_level"); layout = real_module("pdfminer.layout")
    fails = []

    def chars(font, content):
        objs = {1: {"Type": Name("Catalog"), "Pages": Ref(2)}, 2: {"Type": Name("Pages"), "Kids": [Ref(3)], "Count": 1},
                3: {"Type": Name("Page"), "Parent": Ref(2), "MediaBox": [0, 0, 600, 600], "Contents": Ref(4), "Resources": {"Font": {"F1": Ref(5)}}},
                4: Stream({}, content), 5: font}
        page = next(iter(hl.extract_pages(io.BytesIO(build(objs, 1)))))
        out = []
        def walk(o):
            if isinstance(o, layout.LTChar):
                out.append((o.get_text(), round(o.adv, 4)))
            elif hasattr(o, "__iter__"):
                for x in o:
                    walk(x)
        walk(page)
        return out
    f25 = {"Type": Name("Font"), "Subtype": Name("Type1"), "BaseFont": Name("Custom"), "FirstChar": 65, "Widths": [500],
           "Encoding": {"Type": Name("Encoding"), "BaseEncoding": Name("WinAnsiEncoding"), "Differences": [65, Name("nosuchglyphname")]}}
    got = chars(f25, b"BT /F1 10 Tf (A) Tj ET")
    if got != [("(cid:65)", 5.0)]:
        # only the recorded deviation itself is a known finding; anything else is a new violation
        fails.append(dict(case="Differences [65 /nosuchglyphname] over WinAnsi", got=got, want=[("(cid:65)", 5.0)],
                          known="F25" if got == [("A", 5.0)] else None))
    f26 = {"Type": Name("Font"), "Subtype": Name("Type1"), "BaseFont": Name("Helvetica"), "FirstChar": 65, "Widths": [1000, 1000]}
    got = chars(f26, b"BT /F1 10 Tf (A) Tj ET")
    if got != [("A", 10.0)]:
        fails.append(dict(case="BaseFont /Helvetica with /Widths [1000 1000]", got=got, want=[("A", 10.0)],
                          known="F26" if got == [("A", 6.67)] else None))
    return dict(cases=2, failures=fails)


# -- PDFFont.__init__ and the metric getters (C05: glyph boxes are built from them; C06) ------------------------------------------------------------------
class _Descriptor(T.Sort):
    NAMES = ["literal", "bytes", "str", "number", "absent"]
    def fresh(self, ctx, name):
        nk = ctx.choose(self.NAMES, "FontName")
        has = {k: ctx.choose([True, False], "has-" + k) for k in ("Ascent", "Descent", "MissingWidth")}
        vals = {k: ctx.fresh_real(k) if hasattr(ctx, "fresh_real") else T.Real().fresh(ctx, k) for k in ("Ascent", "Descent", "MissingWidth")}
        d = {k: vals[k] for k in vals if has[k]}
        LIT_ = real_module("pdfminer.psparser").LIT
        if nk != "absent":
            d["FontName"] = {"literal": LIT_("ABCDEF+Times"), "bytes": b"Times-\xe9", "str": "Arial", "number": 12}[nk]
        return SObj(None, {"d": d, "_name": nk, "_has": has, "_vals": vals}, name)
    def sample(self, rng):
        return None
    def from_model(self, ev, v):
        return {"FontName": v.f["_name"], "has": v.f["_has"]}


_pb = stub("pdfminer.pdffont:PDFFont._parse_bbox", ["descriptor"], T.Const((0, 0, 0, 0)))
c = contract("pdfminer.pdffont:PDFFont.__init__", props=["C05", "C06"])
c.param("self", T.Obj("pdfminer.pdffont:PDFFont")).param("descriptor", T.Const(None)).param("widths", T.Const({65: 500})).param("default_width", T.OneOf(None, 600))
c.ghost("desc", _Descriptor())
c.skip_cross = True
c.inline = True
c.inline_callees = True
c.wire = lambda bound, ghosts: bound.__setitem__("descriptor", ghosts["desc"].f["d"])
_ra = stub("pdfminer.pdftypes:resolve_all", ["x"]); _ra.result_fn = ("resolved", lambda x: ("every-reference-inside-resolved", x))
_ra.defaults = {"default": None}
_ra.note = "resolve_all replaces every reference inside a container by its target (its own contract is in C12/C13)"
c.stubs = {"pdfminer.pdffont:PDFFont._parse_bbox": _pb, "pdfminer.pdftypes:resolve_all": _ra}
c.mod("self.*")
c.ens("width-table-is-stored-with-every-reference-inside-it-resolved", lambda self, widths: (
    isinstance(self.widths, tuple) and self.widths[0] == "every-reference-inside-resolved" and self.widths[1] == widths))


def _font_init_spec(self, desc, default_width):
    v, has = desc._vals, desc._has
    asc = v["Ascent"] if has["Ascent"] else 0
    dsc = v["Descent"] if has["Descent"] else 0
    want_name = {"literal": "ABCDEF+Times", "bytes": "Times-\xe9", "str": "Arial", "number": "unknown", "absent": "unknown"}[desc._name]
    dw = default_width if default_width is not None else (v["MissingWidth"] if has["MissingWidth"] else 0)
    return And(self.fontname == want_name, eq(self.ascent, asc), eq(self.descent, If(lt(0, dsc), -dsc, dsc)), le(self.descent, 0), eq(self.default_width, dw),
               eq(self.hscale, 0.001) if not isinstance(self.hscale, float) else self.hscale == 0.001, self.vscale == self.hscale, tuple(self.bbox) == (0, 0, 0, 0))


c.ens("descriptor-values-with-defaults-descent-never-positive-name-as-text-thousandth-scale", _font_init_spec)

_FontM = lambda: T.Obj("pdfminer.pdffont:PDFFont", ascent=T.Real(), descent=T.Real(), default_width=T.Real(), hscale=T.Real(), vscale=T.Real(), bbox=T.RealTup(4))
for _g, _spec in (("get_ascent", lambda self, result: eq(result, self.ascent * self.vscale)),
                  ("get_descent", lambda self, result: eq(result, self.descent * self.vscale)),
                  ("get_width", lambda self, result: eq(result, If(eq(self.bbox[2] - self.bbox[0], 0), -self.default_width, self.bbox[2] - self.bbox[0]) * self.hscale)),
                  ("get_height", lambda self, result: eq(result, If(eq(self.bbox[3] - self.bbox[1], 0), self.ascent - self.descent, self.bbox[3] - self.bbox[1]) * self.vscale))):
    c = contract("pdfminer.pdffont:PDFFont.%s" % _g, props=["C05", "C06"])
    c.param("self", _FontM())
    c.skip_cross = True
    c.inline = True
    c.returns(T.Real())
    c.ens("metric-in-text-space-units", _spec)


class _BBoxDesc(T.Sort):
    KINDS = ["four-numbers", "absent", "three-numbers", "five-numbers", "a-name", "number-and-names", "a-number"]
    def fresh(self, ctx, name):
        k = ctx.choose(self.KINDS, "FontBBox")
        r = [T.Real().fresh(ctx, "b%d" % i) for i in range(5)]
        LIT_ = real_module("pdfminer.psparser").LIT
        v = {"four-numbers": r[:4], "three-numbers": r[:3], "five-numbers": r[:5], "a-name": LIT_("none"), "number-and-names": [r[0], LIT_("a"), r[2], r[3]], "a-number": 7}.get(k)
        d = {} if k == "absent" else {"FontBBox": v}
        return SObj(None, {"d": d, "_k": k, "_r": r}, name)
    def sample(self, rng):
        return None
    def from_model(self, ev, v):
        return v.f["_k"]


sc = scenario("pdfminer.pdffont", "font-bbox-four-numbers-or-zeros", """
def bbox_of(desc):
    return PDFFont._parse_bbox(desc.d)
""", props=["C05", "C06", "C13"])
sc.param("desc", _BBoxDesc())
sc.inline_callees = True
sc.skip_cross = True
sc.returns(T.Opaque("rect"))
sc.ens("the-first-four-numbers-else-all-zero", lambda desc, result: (
    len(result) == 4 and (And(*[eq(result[i], desc._r[i]) for i in range(4)]) if desc._k in ("four-numbers", "five-numbers") else And(*[eq(result[i], 0) for i in range(4)]))))


@exhaustive("built-in-metrics-only-for-exact-standard-font-names", props=["C06"],
            note="FontMetricsDB.get_metrics answers exactly for the keys of FONT_METRICS (with that entry) and raises KeyError for every near miss of every key "
                 "(subset tag in front, style suffix, other case, surrounding blanks, empty) - so a font that is not one of the standard fonts keeps its own /Widths")
def _():
    pf_ = real_module("pdfminer.pdffont")
    fm = real_module("pdfminer.fontmetrics").FONT_METRICS
    fails, cases = [], 0
    for k in fm:
        cases += 1
        try:
            if pf_.FontMetricsDB.get_metrics(k) is not fm[k]:
                fails.append(dict(name=k, problem="not the table entry"))
        except KeyError:
            fails.append(dict(name=k, problem="KeyError for a table key"))
        for v in ("ABCDEF+" + k, "A+" + k, k + ",Bold", k + "-", k.lower() if k.lower() != k else k.upper(), " " + k, k + " ", k + "+", "+" + k, k[:-1], ""):
            if v in fm:
                continue
            cases += 1
            try:
                pf_.FontMetricsDB.get_metrics(v)
                fails.append(dict(name=v, problem="answered for a name that is not a table key"))
            except KeyError:
                pass
        if len(fails) >= 5:
            break
    return dict(cases=cases, failures=fails[:5])
