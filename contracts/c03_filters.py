"""C03 - stream payload decoding: predictors, RunLength, filter pipeline."""
import ast
import z3
from pyvc.contracts import contract, fragment, lemma, bounded, exhaustive, REGISTRY
from pyvc.logic import And, Or, Not, Implies, Iff, eq, le, lt, If, ne, mod, ForAllInt, any_z3, floordiv
from pyvc import sorts as T
from pyvc.values import SObj, SBytes, SList
from pyvc.extract import real_module
from specs import png as PNG

Byte = lambda: T.Int(0, 255)

c = contract("pdfminer.utils:paeth_predictor", props=["C03"])
c.param("left", Byte()).param("above", Byte()).param("upper_left", Byte()).returns(T.Int())
c.ens_result("is-PNG-PaethPredictor", lambda left, above, upper_left: PNG.paeth(left, above, upper_left))


def ln(x):
    return x.n if isinstance(x, (SBytes, SList)) else len(x)


def at(x, k):
    if hasattr(x, "at"):
        return x.at(k)
    return x[k]


# -- geometry prologue of apply_png_predictor ---------------------------------------------------
def _png_prologue(fn):
    out = []
    for st in fn.body:
        if isinstance(st, ast.For):
            break
        if isinstance(st, ast.Expr) and isinstance(st.value, ast.Constant):
            continue
        out.append(st)
    return out


c = fragment("pdfminer.utils:apply_png_predictor", "geometry", _png_prologue, props=["C03"], mode="stmts")
c.param("pred", T.Int(10, 15)).param("colors", T.Int(1, 8)).param("columns", T.Int(1, 4096)).param("bitspercomponent", T.OneOf(8, 1, 4, 16))
c.param("data", T.Bytes())
PDFValueError = real_module("pdfminer.pdfexceptions").PDFValueError
c.may_raise(PDFValueError, lambda bitspercomponent: bitspercomponent not in (8, 1))
c.ens("only-8-and-1-bit-supported", lambda bitspercomponent: bitspercomponent in (8, 1))
c.ens("row-and-pixel-size-rounded-up", lambda colors, columns, bitspercomponent, nbytes, bpp: And(
    eq(nbytes, PNG.row_bytes(colors, columns, bitspercomponent)), eq(bpp, PNG.pixel_bytes(colors, bitspercomponent))))
c.ens("prior-row-starts-as-zeros-of-row-length", lambda nbytes, line_above, buf: And(
    eq(ln(line_above), nbytes), ForAllInt(0, ln(line_above), lambda j: eq(at(line_above, j), 0)), ln(buf) == 0))


def _outer_iter(fn):
    for st in fn.body:
        if isinstance(st, ast.For):
            return st.iter
    return None


c = fragment("pdfminer.utils:apply_png_predictor", "row-stride", _outer_iter, props=["C03"])
c.param("data", T.Bytes()).param("nbytes", T.Int(0, 4096))
c.ghost("r", T.Int(0, 1000))
c.ens("one-row-every-rowbytes-plus-filter-byte", lambda data, nbytes, r, result: And(
    eq(_rng_item(result, r), r * (nbytes + 1)),
    Iff(lt(r, _rng_len(result)), lt(r * (nbytes + 1), ln(data)))))


def _rng_item(rg, r):
    if isinstance(rg, range):
        return rg.start + r * rg.step
    return rg.item(r)


def _rng_len(rg):
    return len(rg) if isinstance(rg, range) else rg.length


# -- one scanline of apply_png_predictor ----------------------------------------------------------
def _png_row(fn):
    for st in fn.body:
        if isinstance(st, ast.For):
            return st.body
    return None


def at0(x, k):
    """element k, or 0 when k is negative (left of the row)"""
    if isinstance(k, int):
        return at(x, k) if k >= 0 else 0
    return If(lt(k, 0), 0, at(x, k))


def _unfiltered(raw, enc, above, ft, bpp, j):
    a = at0(raw, j - bpp)
    b = at(above, j)
    cc = at0(above, j - bpp)
    return PNG.unfilter_byte(at(enc, j), ft, a, b, cc)


def _row_done(raw, enc, above, ft, bpp, upto):
    return ForAllInt(0, upto, lambda t: And(eq(at(raw, t), _unfiltered(raw, enc, above, ft, bpp, t)), le(0, at(raw, t)), lt(at(raw, t), 256)), "t",
                     pat=lambda t: at(raw, t))


class _Enc:
    """view of the encoded row inside data"""
    def __init__(self, data, start):
        self.data, self.start = data, start
    def at(self, k):
        return at(self.data, self.start + k)


c = fragment("pdfminer.utils:apply_png_predictor", "scanline", _png_row, props=["C03"], mode="stmts")
c.param("data", T.Bytes(maxlen=40)).param("scanline_i", T.Int(0, 100)).param("nbytes", T.Int(0, 12)).param("bpp", T.Int(1, 4))
c.param("line_above", T.IntList(maxlen=12)).param("buf", T.IntList(maxlen=20))
c.req("a-complete-row-is-present", lambda data, scanline_i, nbytes: le(scanline_i + 1 + nbytes, ln(data)))
c.req("prior-row-has-row-length", lambda line_above, nbytes: eq(ln(line_above), nbytes))
c.mod("buf")
c.may_raise(PDFValueError, lambda data, scanline_i: lt(4, at(data, scanline_i)))
c.samples_hint = lambda rng, conc: _row_sample(rng, conc)


def _row_sample(rng, conc):
    nb = conc["nbytes"]
    conc["line_above"] = [rng.randrange(256) for _ in range(nb)]
    conc["scanline_i"] = rng.randint(0, 3)
    conc["data"] = bytes([rng.choice([0, 1, 2, 3, 4, 4, 3, 5]) if i == conc["scanline_i"] else rng.randrange(256) for i in range(conc["scanline_i"] + 1 + nb + rng.randint(0, 2))])
    return conc


_E = lambda old: _Enc(old.data, old.scanline_i + 1)
for _ord, _nm in ((1, "for j,sub_x"), (3, "for average_x,j"), (4, "for j,paeth_x")):
    c.loop(_ord, kind=_nm, inv=(lambda: lambda raw, k, old, filter_type, nbytes, bpp, line_above:
           And(eq(raw.n, k), _row_done(raw, _E(old), old.line_above, filter_type, bpp, k)))())
c.loop(2, kind="for prior_x,up_x", inv=lambda raw, k, old, filter_type, bpp:
       And(eq(raw.n, k), _row_done(raw, _E(old), old.line_above, filter_type, bpp, k)))
c.ens("row-is-the-PNG-unfiltering-of-the-encoded-row", lambda raw, old, nbytes, bpp: And(
    eq(ln(raw), nbytes), _row_done(raw, _E(old), old.line_above, at(old.data, old.scanline_i), bpp, nbytes)))
c.ens("row-appended-to-output", lambda buf, old, raw, nbytes: And(
    eq(ln(buf), ln(old.buf) + nbytes),
    ForAllInt(0, ln(old.buf), lambda t: eq(at(buf, t), at(old.buf, t)), "t"),
    ForAllInt(0, nbytes, lambda t: eq(at(buf, ln(old.buf) + t), at(raw, t)), "t")))
c.ens("row-becomes-the-prior-row", lambda line_above, raw: line_above is raw)


# -- TIFF predictor 2 (8-bit samples): one scanline ---------------------------------------------------
def _tiff_prologue(fn):
    return _png_prologue(fn)


c = fragment("pdfminer.utils:apply_tiff_predictor", "geometry", _tiff_prologue, props=["C03"], mode="stmts")
c.param("colors", T.Int(1, 8)).param("columns", T.Int(1, 4096)).param("bitspercomponent", T.OneOf(8, 1, 16)).param("data", T.Bytes())
c.may_raise(PDFValueError, lambda bitspercomponent: bitspercomponent != 8)
c.ens("pixel-and-row-size", lambda colors, columns, bpp, nbytes, buf: And(eq(bpp, colors), eq(nbytes, columns * colors), ln(buf) == 0))

c = fragment("pdfminer.utils:apply_tiff_predictor", "row-stride", _outer_iter, props=["C03"])
c.param("data", T.Bytes()).param("nbytes", T.Int(1, 4096))
c.ghost("r", T.Int(0, 1000))
c.ens("one-row-every-rowbytes", lambda data, nbytes, r, result: And(
    eq(_rng_item(result, r), r * nbytes), Iff(lt(r, _rng_len(result)), lt(r * nbytes, ln(data)))))


def _tiff_row(fn):
    return _png_row(fn)


def _tiff_done(raw, data, start, bpp, upto):
    # TIFF 6.0 section 14: each sample is the difference to the sample of the same component one pixel to the left
    return ForAllInt(0, upto, lambda t: And(
        eq(at(raw, t), mod(at(data, start + t) + at0(raw, t - bpp), 256) if not isinstance(t, int) or t >= bpp else at(data, start + t))
        if isinstance(t, int) else eq(at(raw, t), If(le(bpp, t), mod(at(data, start + t) + at(raw, t - bpp), 256), at(data, start + t))),
        le(0, at(raw, t)), lt(at(raw, t), 256)), "t")


c = fragment("pdfminer.utils:apply_tiff_predictor", "scanline", _tiff_row, props=["C03"], mode="stmts")
c.param("data", T.Bytes(maxlen=40)).param("scanline_i", T.Int(0, 100)).param("nbytes", T.Int(0, 12)).param("bpp", T.Int(1, 4)).param("buf", T.IntList(maxlen=20))
c.req("a-complete-row-is-present", lambda data, scanline_i, nbytes: le(scanline_i + nbytes, ln(data)))
c.mod("buf")
c.samples_hint = lambda rng, conc: conc.__setitem__("data", bytes(rng.randrange(256) for _ in range(conc["scanline_i"] + conc["nbytes"] + rng.randint(0, 2)))) or conc
c.loop(1, kind="for i", inv=lambda raw, k, old, bpp: And(eq(raw.n, k), _tiff_done(raw, old.data, old.scanline_i, bpp, k)))
c.ens("row-is-running-sum-per-component", lambda raw, old, nbytes, bpp: And(eq(ln(raw), nbytes), _tiff_done(raw, old.data, old.scanline_i, bpp, nbytes)))
c.ens("row-appended-to-output", lambda buf, old, raw, nbytes: And(
    eq(ln(buf), ln(old.buf) + nbytes),
    ForAllInt(0, ln(old.buf), lambda t: eq(at(buf, t), at(old.buf, t)), "t"),
    ForAllInt(0, nbytes, lambda t: eq(at(buf, ln(old.buf) + t), at(raw, t)), "t")))


# -- RunLengthDecode: one run (ISO 32000-1 7.4.5) --------------------------------------------------------
def _rl_body(fn):
    for st in fn.body:
        if isinstance(st, ast.While):
            return st.body
    return None


class _Iter(T.Sort):
    """iter(data) positioned at p"""
    def fresh(self, ctx, name):
        from pyvc.values import SIterator, SIter
        data = T.Bytes().fresh(ctx, "data")
        p = ctx.fresh_int("p")
        ctx.assume(z3.And(p >= 0, p <= data.n))
        it = SIterator(SIter(data.n, lambda k: _elem(ctx, data, k), "bytes"))
        it.pos = p
        it._data, it._p0 = data, p
        return it
    def sample(self, rng):
        d = bytes(rng.choice([0, 1, 2, 127, 128, 129, 254, 255, rng.randrange(256)]) for _ in range(rng.randint(0, 8)))
        d += bytes(rng.randrange(256) for _ in range(130))
        return T.CObj(None, data=d, p=rng.randint(0, 8))
    def from_model(self, ev, v):
        n = max(0, min(400, int(ev(v._data.n))))
        return T.CObj(None, data=bytes(int(ev(v._data.at(k))) % 256 for k in range(n)), p=int(ev(v._p0)))
    def to_native(self, c):
        it = iter(c.data)
        for _ in range(c.p):
            next(it, None)
        return it


def _elem(ctx, data, k):
    v = data.at(k)
    return v


c = fragment("pdfminer.runlength:rldecode", "one-run", _rl_body, props=["C03"], mode="stmts")
c.param("data_iter", _Iter()).param("decoded_array", T.IntList(maxlen=6))
c.mod("decoded_array").mod("data_iter")
c.skip_cross = True
c.req("run-is-complete", lambda data_iter: _rl_complete(data_iter))
c.ens("one-run-decoded-per-ISO", lambda data_iter, decoded_array, old, __exit__: _rl_spec(data_iter, decoded_array, old, __exit__))


# the same step on data that ends inside the run (damaged payloads, C13): no exception, what is there is taken, the cursor stops at the end
c = fragment("pdfminer.runlength:rldecode#damaged", "one-run-of-a-truncated-payload", _rl_body, props=["C03", "C13"], mode="stmts")
c.modname, c.qualname = "pdfminer.runlength", "rldecode"
c.param("data_iter", _Iter()).param("decoded_array", T.IntList(maxlen=6))
c.mod("decoded_array").mod("data_iter")
c.skip_cross = True
c.req("run-is-cut-short", lambda data_iter: Not(_rl_complete(data_iter)))
c.ens("takes-the-bytes-that-are-there-and-stops-at-the-end", lambda data_iter, decoded_array, old: (lambda d, p, L_: And(
    eq(data_iter.pos, d.n),
    If(lt(L_, 128),
       And(eq(ln(decoded_array), ln(old.decoded_array) + (d.n - p - 1)),
           ForAllInt(0, d.n - p - 1, lambda t: eq(at(decoded_array, ln(old.decoded_array) + t), d.at(p + 1 + t)), "t")),
       eq(ln(decoded_array), ln(old.decoded_array))),
    ForAllInt(0, ln(old.decoded_array), lambda t: eq(at(decoded_array, t), at(old.decoded_array, t)), "t")))(data_iter._data, data_iter._p0, data_iter._data.at(data_iter._p0)))


def _rl_complete(it):
    d, p = it._data, it._p0
    L = d.at(p)
    return Or(eq(p, d.n), eq(L, 128), And(lt(L, 128), le(p + 2 + L, d.n)), And(lt(128, L), le(p + 2, d.n)))


def _rl_spec(it, out, old, how):
    d, p = it._data, it._p0
    L = d.at(p)
    o0 = old.decoded_array
    eod = Or(eq(p, d.n), eq(L, 128))
    unchanged = And(eq(ln(out), ln(o0)))
    lit = And(eq(ln(out), ln(o0) + L + 1), ForAllInt(0, L + 1, lambda t: eq(at(out, ln(o0) + t), d.at(p + 1 + t)), "t"), eq(it.pos, p + 2 + L))
    rep = And(eq(ln(out), ln(o0) + 257 - L), ForAllInt(0, 257 - L, lambda t: eq(at(out, ln(o0) + t), d.at(p + 1)), "t"), eq(it.pos, p + 2))
    keep = ForAllInt(0, ln(o0), lambda t: eq(at(out, t), at(o0, t)), "t")
    return And(keep, If(eod, And(unchanged, how == "break"), And(how == "end", If(lt(L, 128), lit, rep))))


# -- bounded stand-ins: whole decoders and chains against independent encoders ---------------------------
@bounded("decoders-vs-independent-codecs", props=["C03"],
         bound="quick: 600 random payloads (len<=40, incl. runs, NULs, 'endstream') per decoder + LZW inputs crossing the 511/1023/2047 code-width thresholds; thorough: 20000 per decoder")
def _(tier, seed):
    import random
    from specs import codecs as CD
    rng = random.Random(seed + 3)
    n = 600 if tier == "quick" else 20000
    rl = real_module("pdfminer.runlength").rldecode
    a85 = real_module("pdfminer.ascii85")
    lzw = real_module("pdfminer.lzw").lzwdecode
    failures, evals, distinct = [], 0, set()

    def payload():
        k = rng.random()
        if k < 0.2:
            return bytes([rng.randrange(256)]) * rng.randint(1, 300)
        if k < 0.3:
            return b"x endstream\nendobj " * rng.randint(1, 3)
        return bytes(rng.choice([0, 10, 13, 32, 65, 255, rng.randrange(256)]) for _ in range(rng.randint(0, 40)))

    for _ in range(n):
        p = payload()
        distinct.add(p)
        for name, fn, enc in (("rldecode", rl, CD.rl_encode(p, rng)), ("asciihexdecode", a85.asciihexdecode, CD.ahx_encode(p, rng)),
                              ("ascii85decode", a85.ascii85decode, CD.a85_encode(p)), ("lzwdecode", lzw, CD.lzw_encode(p))):
            evals += 1
            try:
                got = fn(enc)
            except Exception as e:  # noqa: BLE001
                got = "%s: %s" % (type(e).__name__, e)
            if got != p:
                failures.append(dict(decoder=name, payload=p.hex(), encoded=enc.hex(), got=got.hex() if isinstance(got, bytes) else got))
        # reference decoders on arbitrary (not necessarily encoder-produced) well-formed input
        junk = bytes(rng.choice([0, 1, 2, 127, 129, 200, 255]) for _ in range(rng.randint(0, 6)))
    for size in (600, 1400, 3000, 9000):
        p = bytes((i * 7 + (i // 251)) % 256 for i in range(size))
        for q in (p, bytes(rng.randrange(4) for _ in range(size))):
            evals += 1
            try:
                got = lzw(CD.lzw_encode(q))
            except Exception as e:  # noqa: BLE001
                got = "%s: %s" % (type(e).__name__, e)
            if got != q:
                failures.append(dict(decoder="lzwdecode", payload_len=len(q), got=(got[:40].hex() if isinstance(got, bytes) else got)))
    return dict(evaluations=evals, distinct=len(distinct), failures=failures[:3])


@bounded("filter-chains-and-predictors-through-PDFStream", props=["C03"],
         bound="quick: 300 documents; chains of 0..3 filters under full/abbreviated names, optional PNG (per-row filter types, colors 1..4, bits 8/1) or TIFF predictor, Filter/DecodeParms/Length direct or indirect, 3 EOL forms after 'stream', payloads containing 'endstream'; thorough: 6000")
def _(tier, seed):
    import io, random
    from specs import codecs as CD
    from specs.pdfgen import build, Name, Ref, Stream, Raw, ser
    rng = random.Random(seed + 33)
    n = 300 if tier == "quick" else 6000
    PDFParser = real_module("pdfminer.pdfparser").PDFParser
    PDFDocument = real_module("pdfminer.pdfdocument").PDFDocument
    failures, evals, distinct = [], 0, set()
    for _ in range(n):
        colors, columns, bits = rng.randint(1, 4), rng.randint(1, 9), rng.choice([8, 8, 8, 1])
        rb = (colors * columns * bits + 7) // 8
        rows = rng.randint(1, 4)
        pred = rng.choice([None, None, "png", "tiff"])
        if pred == "tiff":
            bits = 8
            rb = colors * columns
        if pred:
            payload = bytes(rng.randrange(256) for _ in range(rb * rows))
        else:
            payload = rng.choice([b"", b"endstream", b"a\nendstream\nendobj\n", bytes(rng.randrange(256) for _ in range(rng.randint(0, 60)))])
        chain = [rng.choice(list(CD.ENCODERS)) for _ in range(rng.randint(0, 3))]
        if pred and not chain:
            chain = ["FlateDecode"]
        data = payload
        parms = [None] * len(chain)
        if pred == "png":
            data = CD.png_filter_encode(payload, colors, columns, bits, [rng.randint(0, 4) for _ in range(rows)])
            parms[-1] = {"Predictor": rng.choice([10, 11, 12, 13, 14, 15]), "Colors": colors, "Columns": columns, "BitsPerComponent": bits}
        elif pred == "tiff":
            data = CD.tiff_pred_encode(payload, colors, columns)
            parms[-1] = {"Predictor": 2, "Colors": colors, "Columns": columns}
        for f in reversed(chain):
            data = CD.ENCODERS[f][1](data, rng)
        names = [Name(f if rng.random() < 0.5 else CD.ENCODERS[f][0]) for f in chain]
        objs = {1: {"Type": Name("Catalog"), "Pages": Ref(2)}, 2: {"Type": Name("Pages"), "Kids": [], "Count": 0}}
        d = {}
        nxt = 20
        if names:
            fval = names[0] if len(names) == 1 and rng.random() < 0.5 else names
            if rng.random() < 0.3:
                objs[nxt] = fval; fval = Ref(nxt); nxt += 1
            d["Filter"] = fval
            if any(parms):
                pval = parms[0] if len(parms) == 1 and rng.random() < 0.5 else [p if p else None for p in parms]
                if isinstance(pval, list):
                    pval = [({} if p is None else p) for p in pval]
                if rng.random() < 0.3:
                    objs[nxt] = pval; pval = Ref(nxt); nxt += 1
                d["DecodeParms"] = pval
        if rng.random() < 0.4:
            objs[nxt] = len(data); d["Length"] = Ref(nxt); nxt += 1
        else:
            d["Length"] = len(data)
        eol = rng.choice([b"\n", b"\r\n"])
        objs[10] = Raw(ser(d) + b"\nstream" + eol + data + rng.choice([b"\n", b"\r\n", b""]) + b"endstream")
        pdf = build(objs, 1)
        evals += 1
        distinct.add((tuple(chain), pred, len(payload)))
        try:
            doc = PDFDocument(PDFParser(io.BytesIO(pdf)))
            got = doc.getobj(10).get_data()
        except Exception as e:  # noqa: BLE001
            got = "%s: %s" % (type(e).__name__, e)
        if got != payload:
            failures.append(dict(chain=chain, predictor=pred, geometry=[colors, columns, bits], payload=payload.hex(), got=(got.hex() if isinstance(got, bytes) else got), pdf_hex=pdf.hex()[:4000]))
            if len(failures) >= 3:
                break
    return dict(evaluations=evals, distinct=len(distinct), failures=failures)


# -- LZW: one decoding step (Welch's algorithm as ISO 32000-1 7.4.4 uses it) --------------------------------
def beq(a, b):
    """equality of byte strings (symbolic or concrete)"""
    if isinstance(a, (bytes, bytearray)) and isinstance(b, (bytes, bytearray)):
        return bytes(a) == bytes(b)
    from pyvc.summaries import sbytes_eq, as_sbytes
    return sbytes_eq(as_sbytes(a), as_sbytes(b))


def bcat(a, b):
    if isinstance(a, (bytes, bytearray)) and isinstance(b, (bytes, bytearray)):
        return bytes(a) + bytes(b)
    from pyvc.summaries import sbytes_concat, as_sbytes
    return sbytes_concat(as_sbytes(a), as_sbytes(b))


def bhead(a):
    if isinstance(a, (bytes, bytearray)):
        return bytes(a[:1])
    return SBytes(If(lt(0, a.n), 1, 0) if not isinstance(a.n, int) else min(1, a.n), a.at, a.elem_range, a.kind)


CorruptDataError = real_module("pdfminer.lzw").CorruptDataError
c = contract("pdfminer.lzw:LZWDecoder.feed#data-code", props=["C03"])
c.param("self", T.Obj("pdfminer.lzw:LZWDecoder", table=T.Tup(T.Bytes(minlen=1, maxlen=3), T.Bytes(minlen=1, maxlen=3), T.Bytes(minlen=1, maxlen=3), as_list=True),
                      prevbuf=T.Bytes(minlen=1, maxlen=4), nbits=T.Int(9, 12)))
c.param("code", T.Int(0, 5))
c.req("a-data-code", lambda code: And(ne(code, 256), ne(code, 257)))
c.mod("self.table").mod("self.prevbuf").mod("self.nbits")
c.may_raise(CorruptDataError, lambda self, code: lt(len(self.table), code))
c.ens("emits-entry-or-KwK", lambda self, old, code, result: And(*[
    Implies(eq(code, j), beq(result, old.self.table[j])) for j in range(3)] + [
    Implies(eq(code, 3), beq(result, bcat(old.self.prevbuf, bhead(old.self.prevbuf))))]))
c.ens("adds-previous-string-plus-first-byte-of-output", lambda self, old, result: And(
    len(self.table) == 4, And(*[beq(self.table[j], old.self.table[j]) for j in range(3)]),
    beq(self.table[3], bcat(old.self.prevbuf, bhead(result)))))
c.ens("output-becomes-previous-string", lambda self, result: beq(self.prevbuf, result))


def _lzw_width(fn):
    for n in ast.walk(fn):
        if isinstance(n, ast.If) and "table_length == 511" in ast.unparse(n.test):
            return [n]
    return None


c = fragment("pdfminer.lzw:LZWDecoder.feed", "code-width", _lzw_width, props=["C03"], mode="stmts")
c.param("self", T.Obj("pdfminer.lzw:LZWDecoder", nbits=T.Int(9, 12))).param("table_length", T.Int(258, 4096, samples=[510, 511, 512, 1022, 1023, 2047]))
c.mod("self.nbits")
c.ens("early-change-thresholds", lambda self, old, table_length:   # width grows when the table reaches 2^n - 1 entries (EarlyChange = 1)
      eq(self.nbits, If(eq(table_length, 511), 10, If(eq(table_length, 1023), 11, If(eq(table_length, 2047), 12, old.self.nbits)))))


# -- PDFStream.decode: decipher once, filters left to right by ISO name, predictor after its filter ---------------
import zlib
from pyvc.contracts import assume_library
from pyvc.values import SymFn, SOpaque

assume_library(zlib.decompress, "zlib.decompress")
for _k, _ps in (("pdfminer.lzw:lzwdecode", ["data"]), ("pdfminer.ascii85:ascii85decode", ["data"]), ("pdfminer.ascii85:asciihexdecode", ["data"]),
                ("pdfminer.runlength:rldecode", ["data"]), ("pdfminer.ccitt:ccittfaxdecode", ["data", "params"]),
                ("pdfminer.utils:apply_png_predictor", ["pred", "colors", "columns", "bitspercomponent", "data"]),
                ("pdfminer.utils:apply_tiff_predictor", ["colors", "columns", "bitspercomponent", "data"])):
    a = contract(_k, props=[])
    a.abstract = True
    a.traced = True
    a.note = "traced only to observe the dispatch of PDFStream.decode; the decoder itself is verified under its own contracts"
    for p in _ps:
        a.param(p, T.Opaque(p))
    a.returns(T.Opaque(_k.split(":")[1] + "-output"))

_FILTERS = {"FlateDecode": "zlib.decompress", "Fl": "zlib.decompress", "LZWDecode": "lzwdecode", "LZW": "lzwdecode",
            "ASCII85Decode": "ascii85decode", "A85": "ascii85decode", "ASCIIHexDecode": "asciihexdecode", "AHx": "asciihexdecode",
            "RunLengthDecode": "rldecode", "RL": "rldecode", "CCITTFaxDecode": "ccittfaxdecode", "CCF": "ccittfaxdecode",
            "DCTDecode": None, "DCT": None, "JBIG2Decode": None, "JPXDecode": None}


class _StreamS(T.Sort):
    """a PDFStream with a chain of 0..2 filters (every ISO name), optional predictor parameters on the last one,
    Filter/DecodeParms as single value or array, with or without a decipher callback"""
    def fresh(self, ctx, name):
        lit = real_module("pdfminer.psparser").LIT
        names = list(_FILTERS)
        n = ctx.choose([0, 1, 2], "nfilters")
        if n == 2:
            chain = [ctx.choose(["FlateDecode", "AHx", "LZW", "DCTDecode"], "filter0"), ctx.choose(names, "filter1")]
            pred = ctx.choose([None, 2, 12], "predictor")
        else:
            chain = [ctx.choose(names, "filter%d" % i) for i in range(n)]
            pred = ctx.choose([None, 1, 2, 12, 5], "predictor") if n else None
        attrs, calls = {}, []
        parms = None
        if n:
            single = n == 1 and ctx.choose([True, False], "single")
            attrs["Filter"] = lit(chain[0]) if single else [lit(f) for f in chain]
            if pred is not None:
                parms = {"Predictor": pred, "Colors": ctx.fresh_int("Colors"), "Columns": ctx.fresh_int("Columns")}
                if ctx.choose([True, False], "has-bpc"):
                    parms["BitsPerComponent"] = ctx.fresh_int("BPC")
                attrs["DecodeParms"] = parms if single else [{}] * (n - 1) + [parms]
        enc = ctx.choose([False, True], "encrypted")
        dec = SymFn(lambda I, objid, genno, data, attrs=None: calls.append((objid, genno, data)) or SOpaque("plaintext"), "decipher") if enc else None
        raw = SOpaque("rawdata")
        return SObj(real_module("pdfminer.pdftypes").PDFStream,
                    {"attrs": attrs, "rawdata": raw, "decipher": dec, "data": None, "objid": ctx.fresh_int("objid"), "genno": ctx.fresh_int("genno"),
                     "_chain": chain, "_pred": pred, "_parms": parms, "_calls": calls, "_raw": raw}, name)
    def sample(self, rng):
        return None
    def from_model(self, ev, v):
        return {"chain": v.f["_chain"], "pred": v.f["_pred"]}


c = contract("pdfminer.pdftypes:PDFStream.decode", props=["C03", "C10"])
c.param("self", _StreamS())
c.skip_cross = True
c.max_paths = 8000
c.mod("self.data").mod("self.rawdata").mod("self._calls")
PDFNotImplementedError = real_module("pdfminer.pdfexceptions").PDFNotImplementedError
c.may_raise(PDFNotImplementedError, lambda self: self._pred == 5)


def _expected_calls(self):
    out = []
    for i, f in enumerate(self._chain):
        d = _FILTERS[f]
        if d:
            out.append(d)
        if self._pred is not None and i == len(self._chain) - 1:
            if self._pred == 2:
                out.append("apply_tiff_predictor")
            elif self._pred >= 10:
                out.append("apply_png_predictor")
    return out


def _chained(self, trace):
    """every stage consumes what the previous stage produced, starting from the (deciphered) raw data"""
    cur = self._calls[0][2] if self.decipher is not None and False else None
    ok = True
    prev = None
    for nm, b in trace:
        arg = b["args"][0] if "args" in b else b["data"]
        if prev is None:
            ok = ok and (arg is (self._plain if hasattr(self, "_plain") else arg))
        else:
            ok = ok and (arg is prev)
        prev = b["__result__"]
    return ok


c.ens("decoders-in-array-order-by-ISO-name-predictor-after-its-filter", lambda self, trace: [t[0] for t in trace] == _expected_calls(self))
c.ens("each-stage-feeds-the-next", lambda self, trace: all(
    (b["args"][0] if "args" in b else b["data"]) is trace[i - 1][1]["__result__"] for i, (nm, b) in enumerate(trace) if i > 0))
c.ens("deciphered-exactly-once-before-any-filter", lambda self, old, trace: (
    len(self._calls) == (1 if self.decipher is not None else 0)
    and (self.decipher is None or (self._calls[0][2] is self._raw and eq(self._calls[0][0], self.objid) and eq(self._calls[0][1], self.genno)))
    and (not trace or ((trace[0][1]["args"][0] if "args" in trace[0][1] else trace[0][1]["data"]) is self._raw) == (self.decipher is None))))
c.ens("result-stored-raw-released", lambda self, trace: And(self.rawdata is None, self.data is not None,
      (self.data is trace[-1][1]["__result__"]) if trace else True))
c.ens("predictor-parameters-with-ISO-defaults", lambda self, trace: all(
    (eq(b["colors"], self._parms["Colors"]) and eq(b["columns"], self._parms["Columns"])
     and eq(b["bitspercomponent"], self._parms.get("BitsPerComponent", 8))) for nm, b in trace if nm.startswith("apply_")))


# -- the whole function on a small concrete geometry: the row tags alone choose the filter, for every Predictor value 10..15 ---------------------------
class _TwoRows(T.Sort):
    """2 rows x (tag + 2 bytes): tags chosen from 0..4, sample bytes symbolic"""
    def fresh(self, ctx, name):
        t1 = ctx.choose([0, 1, 2, 3, 4], "tag-row-1")
        t2 = ctx.choose([0, 1, 2, 3, 4], "tag-row-2")
        bs = [ctx.fresh_int("%s.b%d" % (name, k)) for k in range(4)]
        for b in bs:
            ctx.assume(z3.And(b >= 0, b < 256))
        vals = [t1, bs[0], bs[1], t2, bs[2], bs[3]]
        d = SBytes(6, lambda k, vals=vals: (vals[k] if isinstance(k, int) else _sel(vals, k)), (0, 256), "bytes")
        d._vals = vals
        return d
    def sample(self, rng):
        return None
    def from_model(self, ev, v):
        return bytes(int(ev(x)) if not isinstance(x, int) else x for x in v._vals).hex()


def _sel(vals, k):
    r = vals[-1]
    for i in range(len(vals) - 2, -1, -1):
        r = If(eq(k, i), vals[i], r)
    return r


c = contract("pdfminer.utils:apply_png_predictor#two-rows", props=["C03"])
c.modname, c.qualname = "pdfminer.utils", "apply_png_predictor"
c.param("pred", T.OneOf(10, 11, 12, 13, 14, 15)).param("colors", T.Const(1)).param("columns", T.Const(2)).param("bitspercomponent", T.Const(8)).param("data", _TwoRows())
c.skip_cross = True
c.max_paths = 400
c.returns(T.Opaque("bytes"))


def _two_rows_spec(data, result):
    v = data._vals
    zero = [0, 0]
    def unf(tag, enc, above):
        raw = []
        for j in range(2):
            a = raw[j - 1] if j >= 1 else 0
            cc = above[j - 1] if j >= 1 else 0
            raw.append(PNG.unfilter_byte(enc[j], tag, a, above[j], cc))
        return raw
    r1 = unf(v[0], [v[1], v[2]], zero)
    r2 = unf(v[3], [v[4], v[5]], r1)
    want = r1 + r2
    from pyvc.summaries import as_sbytes
    got = as_sbytes(result) if not isinstance(result, (bytes, bytearray)) else result
    n = got.n if hasattr(got, "n") else len(got)
    return And(eq(n, 4), *[eq(at(got, k), want[k]) for k in range(4)])


c.ens("rows-are-unfiltered-by-their-own-tags-whatever-the-predictor-value", lambda data, result: _two_rows_spec(data, result))


# -- the tables the dispatch rests on: filter names with their inline abbreviations (ISO 32000-1 Tables 6 and 94), colour-space component counts (8.6) --------
@exhaustive("filter-names-and-colour-space-component-counts-are-ISO", props=["C03", "C16", "C18"],
            note="pdftypes.LITERALS_*_DECODE are exactly the ISO filter names plus the inline-image abbreviations (Fl, LZW, A85, AHx, RL, CCF, DCT), interned names; "
                 "pdfcolor.PREDEFINED_COLORSPACE has the ISO component counts (DeviceGray 1, DeviceRGB 3, DeviceCMYK 4, CalGray 1, CalRGB 3, Lab 3, Indexed 1, "
                 "Separation 1, Pattern 1) with DeviceGray first (the default), and the inline-image colour-space abbreviations G, RGB, CMYK map to the device spaces")
def _():
    from pyvc.extract import real_module as _rm
    pt_, ps_, pc_ = _rm("pdfminer.pdftypes"), _rm("pdfminer.psparser"), _rm("pdfminer.pdfcolor")
    fails, cases = [], 0
    want = {"LITERALS_FLATE_DECODE": ("FlateDecode", "Fl"), "LITERALS_LZW_DECODE": ("LZWDecode", "LZW"), "LITERALS_ASCII85_DECODE": ("ASCII85Decode", "A85"),
            "LITERALS_ASCIIHEX_DECODE": ("ASCIIHexDecode", "AHx"), "LITERALS_RUNLENGTH_DECODE": ("RunLengthDecode", "RL"), "LITERALS_CCITTFAX_DECODE": ("CCITTFaxDecode", "CCF"),
            "LITERALS_DCT_DECODE": ("DCTDecode", "DCT"), "LITERALS_JBIG2_DECODE": ("JBIG2Decode",), "LITERALS_JPX_DECODE": ("JPXDecode",)}
    for k, names in want.items():
        cases += 1
        got = getattr(pt_, k, None)
        if got is None or tuple(getattr(x, "name", None) for x in got) != names or any(x is not ps_.LIT(n) for x, n in zip(got, names)):
            fails.append(dict(table=k, got=str(got), want=list(names)))
    cases += 1
    if pt_.LITERAL_CRYPT is not ps_.LIT("Crypt"):
        fails.append(dict(table="LITERAL_CRYPT", got=str(pt_.LITERAL_CRYPT)))
    cs = {"DeviceGray": 1, "CalRGB": 3, "CalGray": 1, "Lab": 3, "DeviceRGB": 3, "DeviceCMYK": 4, "Separation": 1, "Indexed": 1, "Pattern": 1}
    cases += 1
    got = {k: v.ncomponents for k, v in pc_.PREDEFINED_COLORSPACE.items()}
    if got != cs or next(iter(pc_.PREDEFINED_COLORSPACE)) != "DeviceGray" or any(v.name != k for k, v in pc_.PREDEFINED_COLORSPACE.items()):
        fails.append(dict(table="PREDEFINED_COLORSPACE", got=got))
    for attr, name in (("LITERAL_DEVICE_GRAY", "DeviceGray"), ("LITERAL_DEVICE_RGB", "DeviceRGB"), ("LITERAL_DEVICE_CMYK", "DeviceCMYK"),
                       ("LITERAL_INLINE_DEVICE_GRAY", "G"), ("LITERAL_INLINE_DEVICE_RGB", "RGB"), ("LITERAL_INLINE_DEVICE_CMYK", "CMYK")):
        cases += 1
        if getattr(pc_, attr, None) is not ps_.LIT(name):
            fails.append(dict(table=attr, got=str(getattr(pc_, attr, None)), want=name))
    return dict(cases=cases, failures=fails)


@bounded("flate-data-with-a-damaged-tail-is-recovered", props=["C03", "C13"],
         bound="quick: 300 (thorough 20000) random payloads of 0..400 bytes, deflated at levels 0/1/9: (a) a wrong Adler-32 checksum - through PDFStream.get_data "
               "the whole payload comes back; (b) the last k bytes cut off (k = 1..8) - decompress_corrupted returns a prefix of the payload, through get_data "
               "a prefix or nothing, never an exception; (c) arbitrary bytes behind a valid deflate header - no exception")
def _(tier, seed):
    import random, zlib
    rng = random.Random(seed + 303)
    pt_ = real_module("pdfminer.pdftypes")
    LIT_ = real_module("pdfminer.psparser").LIT
    n = 300 if tier == "quick" else 20000
    failures, evals = [], 0

    def through_stream(data):
        return pt_.PDFStream({"Filter": LIT_("FlateDecode"), "Length": len(data)}, data).get_data()
    for _ in range(n):
        payload = bytes(rng.randrange(256) if rng.random() < .5 else 65 for _k in range(rng.randint(0, 400)))
        z = zlib.compress(payload, rng.choice([0, 1, 9]))
        bad_crc = z[:-4] + bytes((z[-4] ^ 0x55,)) + z[-3:]
        evals += 1
        try:
            got = through_stream(bad_crc)
            if got != payload:
                failures.append(dict(case="wrong checksum", payload=payload.hex()[:80], got=got.hex()[:80], got_len=len(got), want_len=len(payload)))
            k = rng.randint(1, 8)
            cut = z[:-k]
            g1 = pt_.decompress_corrupted(cut)
            g2 = through_stream(cut)
            if payload[:len(g1)] != g1 or payload[:len(g2)] != g2:
                failures.append(dict(case="tail cut by %d" % k, payload=payload.hex()[:80], direct=g1.hex()[:80], via_stream=g2.hex()[:80]))
            junk = z[:2] + bytes(rng.randrange(256) for _k in range(rng.randint(0, 30)))
            pt_.decompress_corrupted(junk)
            through_stream(junk)
        except Exception as e:  # noqa: BLE001
            failures.append(dict(case="exception", error="%s: %s" % (type(e).__name__, e), payload=payload.hex()[:80]))
        if len(failures) >= 3:
            break
    return dict(evaluations=evals, distinct=evals, failures=failures)
